(* Runs C10/C11 module descriptions on the model extracted from Coq (c11x.ml).  Same description
   language as harness/c11_io.c (one case per line); prints, '|'-separated and hex-encoded:
     T0   model of MIR_output of the described context
     W1   model of the raw (uncompressed) bytes of MIR_write_with_func
     MW   (several modules) model of the raw bytes of MIR_write_module_with_func for each module on its own
     RB   ok / ERR:why   model of MIR_read_with_func on W1;  T1 = model text of what was read
     TN1/TR1/TN2  model of module->last_temp_item_num / func->last_temp_num after the binary read, and of the
          module counters after the scan
     S0   structural dump of the described context (format of struct_of in harness/c11_io.c); S2 = of what the model scanned
     SC   ok / ERR:why   model of MIR_scan_string on T0;  TAST = tnorm/differs: the scanned AST is / is not map tnorm_module of the input
      T2 = model text of what was scanned; SC2/T3 once more
   With argument "table" prints the model's insn table in the format of `c11_io table`. *)
module M = C11x

let rec pos_of_int n = if n = 1 then M.XH else if n land 1 = 0 then M.XO (pos_of_int (n lsr 1)) else M.XI (pos_of_int (n lsr 1))
let n_of_int n = if n = 0 then M.N0 else M.Npos (pos_of_int n)
let z_of_int n = if n = 0 then M.Z0 else if n > 0 then M.Zpos (pos_of_int n) else M.Zneg (pos_of_int (-n))
let rec int_of_pos = function M.XH -> 1 | M.XO p -> 2 * int_of_pos p | M.XI p -> 2 * int_of_pos p + 1
let int_of_n = function M.N0 -> 0 | M.Npos p -> int_of_pos p
let rec nat_of_int n = if n <= 0 then M.O else M.S (nat_of_int (n - 1))

let z10 = z_of_int 10
(* decimal string (optional '-') -> Z, any size *)
let z_of_dec s =
  let neg = String.length s > 0 && s.[0] = '-' in
  let acc = ref M.Z0 in
  String.iteri (fun i c -> if not (i = 0 && neg) then acc := M.Z.add (M.Z.mul !acc z10) (z_of_int (Char.code c - 48))) s;
  if neg then M.Z.opp !acc else !acc
let z16 = z_of_int 16
let hexv c = if c <= '9' then Char.code c - 48 else (Char.code c lor 32) - 87
let z_of_hex s =
  let acc = ref M.Z0 in
  String.iter (fun c -> acc := M.Z.add (M.Z.mul !acc z16) (z_of_int (hexv c))) s;
  !acc

let bytes_of_string s = List.init (String.length s) (fun i -> n_of_int (Char.code s.[i]))
let bytes_of_hex s = List.init (String.length s / 2) (fun i -> n_of_int (hexv s.[2 * i] * 16 + hexv s.[2 * i + 1]))
let hex_of_bytes (b : M.bytes) =
  let buf = Buffer.create 1024 in
  List.iter (fun c -> Buffer.add_string buf (Printf.sprintf "%02x" (int_of_n c))) b;
  Buffer.contents buf
let rec ocaml_string = function M.EmptyString -> "" | M.String (a, r) -> String.make 1 (Char.chr (int_of_n (M.n_of_ascii a))) ^ ocaml_string r

let words s = List.filter (fun x -> x <> "") (String.split_on_char ' ' (String.trim s))

let parse_type s =
  match s with
  | "i8" -> M.TI8 | "u8" -> M.TU8 | "i16" -> M.TI16 | "u16" -> M.TU16 | "i32" -> M.TI32 | "u32" -> M.TU32
  | "i64" -> M.TI64 | "u64" -> M.TU64 | "f" -> M.TF | "d" -> M.TD | "ld" -> M.TLD | "p" -> M.TP
  | "rblk" -> M.TRBLK | "undef" -> M.TUNDEF
  | _ when String.length s > 3 && String.sub s 0 3 = "blk" -> M.TBLK (n_of_int (int_of_string (String.sub s 3 (String.length s - 3))))
  | _ -> failwith ("bad type " ^ s)

let opcode_tab : (string, M.opcode) Hashtbl.t = Hashtbl.create 256
let () = List.iter (fun c -> Hashtbl.replace opcode_tab (ocaml_string (fst (M.insn_desc c))) c) (List.rev M.all_opcodes)

let opt s = if s = "-" then None else Some (bytes_of_string s)

let split2 s = match String.index_opt s ':' with
  | Some i -> (String.sub s 0 i, String.sub s (i + 1) (String.length s - i - 1))
  | None -> failwith ("bad op " ^ s)

let parse_op s =
  let (k, v) = split2 s in
  match k with
  | "r" -> M.OReg (bytes_of_string v)
  | "i" -> M.OInt (z_of_dec v)
  | "u" -> M.OUint (z_of_dec v)
  | "f" -> M.OFloat (z_of_hex v)
  | "d" -> M.ODouble (z_of_hex v)
  | "ld" -> M.OLdouble (z_of_hex v)
  | "l" -> M.OLabel (z_of_dec v)
  | "ref" -> M.ORef (bytes_of_string v)
  | "s" -> M.OStr (bytes_of_hex v)
  | "m" ->
    (match String.split_on_char ':' v with
     | [t; d; b; i; sc; a; na] ->
       M.OMem { M.m_type = parse_type t; m_disp = z_of_dec d; m_base = opt b; m_index = opt i;
                m_scale = n_of_int (int_of_string sc); m_alias = opt a; m_nonalias = opt na }
     | _ -> failwith "bad mem op")
  | _ -> failwith ("bad op kind " ^ k)

let parse_el t v =
  match t with
  | M.TF | M.TD | M.TLD -> z_of_hex (String.sub v 1 (String.length v - 1))
  | _ -> z_of_dec v

(* res types and args of proto / func *)
let parse_sig toks =
  let res = ref [] and args = ref [] in
  List.iter (fun tk ->
      match String.split_on_char ':' tk with
      | [t] -> res := parse_type t :: !res
      | [t; n] -> args := { M.v_type = parse_type t; v_name = bytes_of_string n; v_size = M.Z0 } :: !args
      | [t; n; sz] -> args := { M.v_type = parse_type t; v_name = bytes_of_string n; v_size = z_of_dec sz } :: !args
      | _ -> failwith "bad sig") toks;
  (List.rev !res, List.rev !args)

type fb = { fname : M.name; fva : bool; fres : M.mtype list; fargs : M.var list;
            mutable locals : (M.mtype * M.name) list; mutable globals : ((M.mtype * M.name) * M.name) list;
            mutable insns : M.insn list }

let parse_case line : M.module0 list =
  let mods = ref [] and cur = ref None and items = ref [] and fn = ref None in
  let add it = items := it :: !items in
  List.iter (fun stmt ->
      match words stmt with
      | [] -> ()
      | "module" :: n :: _ -> cur := Some (bytes_of_string n); items := []
      | "endmodule" :: _ ->
        (match !cur with
         | Some n -> mods := { M.mod_name = n; mod_items = List.rev !items } :: !mods; cur := None
         | None -> failwith "endmodule")
      | ["import"; n] -> add (M.ItImport (bytes_of_string n))
      | ["export"; n] -> add (M.ItExport (bytes_of_string n))
      | ["forward"; n] -> add (M.ItForward (bytes_of_string n))
      | ["bss"; n; len] -> add (M.ItBss (opt n, z_of_dec len))
      | "data" :: n :: t :: vs -> let t = parse_type t in add (M.ItData (opt n, t, List.map (parse_el t) vs))
      | ["ref"; n; it; d] -> add (M.ItRef (opt n, bytes_of_string it, z_of_dec d))
      | ["lref"; n; l; l2; d] ->
        add (M.ItLref (opt n, z_of_dec l, (if l2 = "-" then None else Some (z_of_dec l2)), z_of_dec d))
      | ["expr"; n; f] -> add (M.ItExpr (opt n, bytes_of_string f))
      | "proto" :: n :: va :: rest ->
        let (res, args) = parse_sig rest in
        add (M.ItProto (bytes_of_string n, va <> "0", res, args))
      | "func" :: n :: va :: rest ->
        let (res, args) = parse_sig rest in
        fn := Some { fname = bytes_of_string n; fva = va <> "0"; fres = res; fargs = args; locals = []; globals = []; insns = [] }
      | "endfunc" :: _ ->
        (match !fn with
         | Some f ->
           add (M.ItFunc { M.f_name = f.fname; f_vararg = f.fva; f_res = f.fres; f_args = f.fargs;
                           f_locals = List.rev f.locals; f_globals = List.rev f.globals; f_insns = List.rev f.insns });
           fn := None
         | None -> failwith "endfunc")
      | ["local"; t; n] -> (match !fn with Some f -> f.locals <- (parse_type t, bytes_of_string n) :: f.locals | None -> failwith "local")
      | ["global"; t; n; h] ->
        (match !fn with Some f -> f.globals <- ((parse_type t, bytes_of_string n), bytes_of_string h) :: f.globals | None -> failwith "global")
      | "mklabels" :: _ -> ()
      | "newctx" :: _ -> ()       (* labels are numbers in the AST: a context break only restarts the numbering *)
      | ["label"; n] -> (match !fn with Some f -> f.insns <- M.ILabel (z_of_dec n) :: f.insns | None -> failwith "label")
      | "insn" :: code :: ops ->
        let c = try Hashtbl.find opcode_tab code with Not_found -> failwith ("bad opcode " ^ code) in
        (match !fn with Some f -> f.insns <- M.IInsn (c, List.map parse_op ops) :: f.insns | None -> failwith "insn")
      | "exec" :: _ -> ()
      | k :: _ -> failwith ("bad statement " ^ k))
    (String.split_on_char ';' line);
  List.rev !mods

let text ms = M.p_ctx M.fmtF M.fmtD M.fmtLD ms

(* ---------------------------------------------------------------- structural dump of an AST, in the format of
   struct_of in harness/c11_io.c (field S0/S1/S2): what the module IS, read from the model's AST.  Not shown, as
   there: the scale of an index-less memory operand, the size of a non-block argument. *)
let hex_of_pos p =
  (* bits, least significant first -> hex digits *)
  let rec bits = function M.XH -> [1] | M.XO q -> 0 :: bits q | M.XI q -> 1 :: bits q in
  let rec nibbles = function
    | [] -> []
    | [a] -> [a] | [a; b] -> [a + 2 * b] | [a; b; c] -> [a + 2 * b + 4 * c]
    | a :: b :: c :: d :: r -> (a + 2 * b + 4 * c + 8 * d) :: nibbles r in
  String.concat "" (List.rev_map (fun n -> String.make 1 "0123456789abcdef".[n]) (nibbles (bits p)))
let hex_of_z = function M.Z0 -> "0" | M.Zpos p -> hex_of_pos p | M.Zneg _ -> "NEG"
let z2 = z_of_int 2
let hex_mod bits z = hex_of_z (M.Z.modulo z (M.Z.pow z2 (z_of_int bits)))
let str_of_bytes (b : M.bytes) = String.concat "" (List.map (fun c -> String.make 1 (Char.chr (int_of_n c))) b)
let tname = function
  | M.TI8 -> "i8" | M.TU8 -> "u8" | M.TI16 -> "i16" | M.TU16 -> "u16" | M.TI32 -> "i32" | M.TU32 -> "u32"
  | M.TI64 -> "i64" | M.TU64 -> "u64" | M.TF -> "f" | M.TD -> "d" | M.TLD -> "ld" | M.TP -> "p"
  | M.TBLK n -> "blk" ^ string_of_int (int_of_n n) | M.TRBLK -> "rblk" | M.TUNDEF -> "undef"
let tbits = function
  | M.TI8 | M.TU8 -> 8 | M.TI16 | M.TU16 -> 16 | M.TI32 | M.TU32 | M.TF -> 32 | M.TLD -> 80 | _ -> 64
let oname = function None -> "-" | Some n -> str_of_bytes n
let dec_of_z z =
  (* label numbers: decimal *)
  let rec go z acc = if z = M.Z0 then acc else
      let (q, r) = M.Z.div_eucl z z10 in go q (string_of_int (int_of_pos_or_zero r) ^ acc)
  and int_of_pos_or_zero = function M.Z0 -> 0 | M.Zpos p -> int_of_pos p | M.Zneg p -> - (int_of_pos p) in
  match z with M.Z0 -> "0" | M.Zneg _ -> "-" ^ go (M.Z.opp z) "" | _ -> go z ""
let dump_sig b res (args : M.var list) =
  List.iter (fun t -> Buffer.add_string b (" " ^ tname t)) res;
  List.iter (fun (v : M.var) ->
      Buffer.add_string b (" " ^ tname v.M.v_type ^ ":" ^ str_of_bytes v.M.v_name);
      if M.all_blk_type_p v.M.v_type then Buffer.add_string b (":" ^ hex_mod 64 v.M.v_size)) args
let dump_op b = function
  | M.OReg r -> Buffer.add_string b (" r:" ^ str_of_bytes r)
  | M.OInt i -> Buffer.add_string b (" i:" ^ hex_mod 64 i)
  | M.OUint u -> Buffer.add_string b (" u:" ^ hex_mod 64 u)
  | M.OFloat x -> Buffer.add_string b (" f:" ^ hex_mod 32 x)
  | M.ODouble x -> Buffer.add_string b (" d:" ^ hex_mod 64 x)
  | M.OLdouble x -> Buffer.add_string b (" ld:" ^ hex_mod 80 x)
  | M.ORef n -> Buffer.add_string b (" ref:" ^ str_of_bytes n)
  | M.OStr s -> Buffer.add_string b (" s:" ^ hex_of_bytes s)
  | M.OLabel l -> Buffer.add_string b (" l:" ^ dec_of_z l)
  | M.OMem m ->
    Buffer.add_string b (" m:" ^ tname m.M.m_type ^ ":" ^ hex_mod 64 m.M.m_disp ^ ":" ^ oname m.M.m_base ^ ":" ^ oname m.M.m_index ^ ":"
                         ^ (match m.M.m_index with Some _ -> string_of_int (int_of_n m.M.m_scale) | None -> "-")
                         ^ ":" ^ oname m.M.m_alias ^ ":" ^ oname m.M.m_nonalias)
let struct_dump (ms : M.module0 list) =
  let b = Buffer.create 4096 in
  let line s = Buffer.add_string b s; Buffer.add_char b '\n' in
  List.iter (fun (m : M.module0) ->
      line ("module " ^ str_of_bytes m.M.mod_name);
      List.iter (fun it ->
          match it with
          | M.ItImport n -> line ("import " ^ str_of_bytes n)
          | M.ItExport n -> line ("export " ^ str_of_bytes n)
          | M.ItForward n -> line ("forward " ^ str_of_bytes n)
          | M.ItBss (n, len) -> line ("bss " ^ oname n ^ " " ^ hex_mod 64 len)
          | M.ItData (n, t, els) ->
            Buffer.add_string b ("data " ^ oname n ^ " " ^ tname t);
            List.iter (fun e -> Buffer.add_string b (" " ^ hex_mod (tbits t) e)) els;
            Buffer.add_char b '\n'
          | M.ItRef (n, r, d) -> line ("ref " ^ oname n ^ " " ^ str_of_bytes r ^ " " ^ hex_mod 64 d)
          | M.ItLref (n, l, l2, d) ->
            line ("lref " ^ oname n ^ " l:" ^ dec_of_z l ^ " " ^ (match l2 with Some x -> "l:" ^ dec_of_z x | None -> "-") ^ " " ^ hex_mod 64 d)
          | M.ItExpr (n, f) -> line ("expr " ^ oname n ^ " " ^ str_of_bytes f)
          | M.ItProto (n, va, res, args) ->
            Buffer.add_string b ("proto " ^ str_of_bytes n ^ (if va then " 1" else " 0"));
            dump_sig b res args;
            Buffer.add_char b '\n'
          | M.ItFunc f ->
            Buffer.add_string b ("func " ^ str_of_bytes f.M.f_name ^ (if f.M.f_vararg then " 1" else " 0"));
            dump_sig b f.M.f_res f.M.f_args;
            Buffer.add_char b '\n';
            List.iter (fun (t, n) -> line ("local " ^ tname t ^ " " ^ str_of_bytes n)) f.M.f_locals;
            List.iter (fun ((t, n), h) -> line ("global " ^ tname t ^ " " ^ str_of_bytes n ^ " " ^ str_of_bytes h)) f.M.f_globals;
            List.iter (fun i ->
                match i with
                | M.ILabel l -> line ("label l:" ^ dec_of_z l)
                | M.IInsn (c, ops) ->
                  Buffer.add_string b ("insn " ^ ocaml_string (fst (M.insn_desc c)) ^ " " ^ string_of_int (List.length ops));
                  List.iter (dump_op b) ops;
                  Buffer.add_char b '\n') f.M.f_insns;
            line "endfunc") m.M.mod_items;
      line "endmodule") ms;
  Buffer.contents b
let hex_of_string s =
  let buf = Buffer.create (2 * String.length s) in
  String.iter (fun c -> Buffer.add_string buf (Printf.sprintf "%02x" (Char.code c))) s;
  Buffer.contents buf

(* decimal of a non-negative Z below 2^62 *)
let rec int_of_z = function M.Z0 -> 0 | M.Zpos p -> int_of_pos p | M.Zneg p -> - (int_of_pos p)
let counters zs = String.concat "" (List.map (fun z -> string_of_int (int_of_z z) ^ ",") zs)

(* "rawscan HEX": the model scanner on hand-written text: RS = ok / ERR:why, T2 = text of what was scanned *)
let run_rawscan hex =
  match M.scan_ctx M.parseF M.parseD M.parseLD (bytes_of_hex hex) with
  | M.Err why -> print_endline ("RS=ERR:" ^ ocaml_string why)
  | M.Ok ms -> print_endline ("RS=ok|T2=" ^ hex_of_bytes (text ms))

let run_case line =
  if String.length line > 8 && String.sub line 0 8 = "rawscan " then run_rawscan (String.sub line 8 (String.length line - 8)) else
  let ms = parse_case line in
  let b = Buffer.create 4096 in
  let t0 = text ms in
  Buffer.add_string b ("T0=" ^ hex_of_bytes t0);
  let s0 = struct_dump ms in
  Buffer.add_string b ("|S0=" ^ hex_of_string s0);
  Buffer.add_string b (if M.wf_ctx_b ms then "|WF=1" else "|WF=0");
  (* temp-name counters the readers restore (coq/C11/TempNames.v) *)
  Buffer.add_string b ("|TN1=" ^ counters (M.bin_item_counters ms) ^ "|TR1=" ^ counters (M.bin_reg_counters ms)
                       ^ "|TN2=" ^ counters (M.text_item_counters ms));
  if not (M.writable_ctx ms) then Buffer.add_string b "|W1=ERR"
  else begin
    let w = M.write_ctx ms in
    Buffer.add_string b ("|W1=" ^ hex_of_bytes w);
    (* MIR_write_module_with_func of every module on its own: the image is a function of that module alone *)
    if List.length ms > 1 then
      Buffer.add_string b ("|MW=" ^ String.concat "" (List.map (fun m -> hex_of_bytes (M.write_ctx [m]) ^ ",") ms));
    match M.read_ctx w with
    | M.Err why -> Buffer.add_string b ("|RB=ERR:" ^ ocaml_string why)
    | M.Ok ms' ->
      Buffer.add_string b "|RB=ok";
      let t1 = text ms' in
      if t1 = t0 then Buffer.add_string b "|T1==" else Buffer.add_string b ("|T1=" ^ hex_of_bytes t1);
      Buffer.add_string b (if ms' = List.map M.norm_module ms then "|AST=norm" else "|AST=differs")
  end;
  (* hypotheses of the text theorems (coq/C10/TextWfDec.v): WFT = wf_text_b ms; RL = relabel_ctx: id (labels already
     numbered the scanner's way) / renamed / none; WFT2 = wf_text_b of the renamed context and its canonicity (the
     hypotheses of text_module_fixpoint for the second round) *)
  let wft = M.wf_text_b M.parseF M.parseD M.parseLD M.fmtF M.fmtD M.fmtLD in
  Buffer.add_string b (if wft ms then "|WFT=1" else "|WFT=0");
  (match M.relabel_ctx ms with
   | None -> Buffer.add_string b "|RL=none"
   | Some msr ->
     Buffer.add_string b (if msr = ms then "|RL=id" else "|RL=renamed");
     Buffer.add_string b (if wft msr && M.relabel_ctx msr = Some msr then "|WFT2=1" else "|WFT2=0"));
  (match M.scan_ctx M.parseF M.parseD M.parseLD t0 with
   | M.Err why -> Buffer.add_string b ("|SC=ERR:" ^ ocaml_string why)
   | M.Ok ms2 ->
     Buffer.add_string b "|SC=ok";
     (* conclusion of text_module_fixpoint (labels already in first-occurrence order) / of text_module_scan_relabel *)
     Buffer.add_string b (if ms2 = List.map M.tnorm_module ms then "|TAST=tnorm"
                          else match M.relabel_ctx ms with
                            | Some msr when ms2 = List.map M.tnorm_module msr -> "|TAST=relabel"
                            | Some _ -> "|TAST=differs"
                            | None -> "|TAST=norelabel");
     let s2 = struct_dump ms2 in
     if s2 = s0 then Buffer.add_string b "|S2==" else Buffer.add_string b ("|S2=" ^ hex_of_string s2);
     let t2 = text ms2 in
     if t2 = t0 then Buffer.add_string b "|T2==" else Buffer.add_string b ("|T2=" ^ hex_of_bytes t2);
     (match M.scan_ctx M.parseF M.parseD M.parseLD t2 with
      | M.Err why -> Buffer.add_string b ("|SC2=ERR:" ^ ocaml_string why)
      | M.Ok ms3 ->
        Buffer.add_string b "|SC2=ok";
        let t3 = text ms3 in
        if t3 = t2 then Buffer.add_string b "|T3==" else Buffer.add_string b ("|T3=" ^ hex_of_bytes t3)));
  print_endline (Buffer.contents b)

let mode_num = function M.MUndef -> 0 | M.MReg -> 1 | M.MInt -> 3 | M.MFloat -> 5 | M.MDouble -> 6 | M.MLdouble -> 7 | M.MLabel -> 12

let print_table () =
  List.iter (fun c ->
      if c <> M.INSN_BOUND then begin
        let (nm, modes) = M.insn_desc c in
        Printf.printf "%d %s" (int_of_n (M.opcode_num c)) (ocaml_string nm);
        List.iter (fun (m, o) -> Printf.printf " %d%s" (mode_num m) (if o then "o" else "")) modes;
        print_newline ()
      end) M.all_opcodes

let () =
  if Array.length Sys.argv > 1 && Sys.argv.(1) = "table" then print_table ()
  else
    try
      while true do
        let line = input_line stdin in
        if String.length line = 0 || line.[0] = '#' then print_endline "skip"
        else (try run_case line with Failure m -> print_endline ("DRIVER-ERROR:" ^ m) | Stack_overflow -> print_endline "DRIVER-ERROR:stack overflow")
      done
    with End_of_file -> ()

(* Runs C19 op scripts on the model extracted from Coq (c19x.ml). Same line format as
   harness/c19_adt.c; undefined cells print as "v?" / "?". *)
open C19x

let rec nat_of_int n = if n <= 0 then O else S (nat_of_int (n - 1))
let rec int_of_nat = function O -> 0 | S n -> 1 + int_of_nat n
let rec pos_of_int n = if n = 1 then XH else if n land 1 = 0 then XO (pos_of_int (n lsr 1)) else XI (pos_of_int (n lsr 1))
let z_of_int n = if n = 0 then Z0 else if n > 0 then Zpos (pos_of_int n) else Zneg (pos_of_int (-n))
let rec int_of_pos = function XH -> 1 | XO p -> 2 * int_of_pos p | XI p -> 2 * int_of_pos p + 1
let int_of_z = function Z0 -> 0 | Zpos p -> int_of_pos p | Zneg p -> - (int_of_pos p)

let words s = List.filter (fun x -> x <> "") (String.split_on_char ' ' (String.trim s))

let parse_vop s =
  match words s with
  | ["push"; x] -> Some (VPush (z_of_int (int_of_string x)))
  | "pusharr" :: xs -> Some (VPushArr (List.map (fun x -> z_of_int (int_of_string x)) xs))
  | ["pop"] -> Some VPop
  | ["trunc"; n] -> Some (VTrunc (nat_of_int (int_of_string n)))
  | ["expand"; n] -> Some (VExpand (nat_of_int (int_of_string n)))
  | ["tailor"; n] -> Some (VTailor (nat_of_int (int_of_string n)))
  | ["set"; i; x] -> Some (VSet (nat_of_int (int_of_string i), z_of_int (int_of_string x)))
  | ["get"; i] -> Some (VGet (nat_of_int (int_of_string i)))
  | ["last"] -> Some VLast
  | ["len"] -> Some VLength
  | ["cap"] -> Some VCapacity
  | [] -> None
  | _ -> failwith ("bad varr op: " ^ s)

let show_cell = function Some z -> string_of_int (int_of_z z) | None -> "?"

let run_varr args ops =
  let init = int_of_string (String.trim args) in
  let v = ref (vcreate (nat_of_int init)) in
  let b = Buffer.create 256 in
  let stop = ref false in
  List.iter (fun s ->
    if not !stop then
    match parse_vop s with
    | None -> ()
    | Some o ->
      (match vstep !v o with
       | None -> Buffer.add_string b " REJECT"; stop := true
       | Some ((v', out), ev) ->
         v := v';
         (match out with
          | ONone -> Buffer.add_string b " -"
          | OVal c -> Buffer.add_string b (" v" ^ show_cell c)
          | ONat n -> Buffer.add_string b ((if o = VCapacity then " #c" else " n") ^ string_of_int (int_of_nat n))
          | OBool t -> Buffer.add_string b (if t then " #b1" else " #b0"));
         (match ev with
          | Some (o, n) -> Buffer.add_string b (Printf.sprintf " #r%d,%d" (int_of_nat o) (int_of_nat n))
          | None -> ())))
    (String.split_on_char ';' ops);
  Buffer.add_string b " |";
  let n = int_of_nat !v.els_num in
  List.iteri (fun i c -> if i < n then Buffer.add_string b (" " ^ show_cell c)) !v.buf;
  print_endline (Buffer.contents b)


(* ---------------------------------------------------------------- bitmaps *)
let n_of_int i = if i = 0 then N0 else Npos (pos_of_int i)
let rec bits_of_pos = function XH -> [1] | XO p -> 0 :: bits_of_pos p | XI p -> 1 :: bits_of_pos p
let hex_of_n = function
  | N0 -> "0"
  | Npos p ->
    let rec nib = function
      | [] -> []
      | a :: b :: c :: d :: r -> (a + 2*b + 4*c + 8*d) :: nib r
      | l -> nib (l @ [0]) in
    String.concat "" (List.rev_map (fun d -> String.make 1 "0123456789abcdef".[d]) (nib (bits_of_pos p)))
let rec dec_of_n n = (* decimal string of an N that fits an OCaml int *)
  match n with N0 -> "0" | Npos p -> string_of_int (int_of_pos p)

let parse_bop s =
  let i = int_of_string in
  let nt x = nat_of_int (i x) and nn x = n_of_int (i x) in
  match words s with
  | ["bit"; b; n] -> Some (BBit (nt b, nn n))
  | ["set"; b; n] -> Some (BSet (nt b, nn n))
  | ["clr"; b; n] -> Some (BClr (nt b, nn n))
  | ["setr"; b; n; l] -> Some (BSetR (nt b, nn n, nn l))
  | ["clrr"; b; n; l] -> Some (BClrR (nt b, nn n, nn l))
  | ["clear"; b] -> Some (BClear (nt b))
  | ["expand"; b; n] -> Some (BExpand (nt b, nn n))
  | ["copy"; d; a] -> Some (BCopy (nt d, nt a))
  | ["eq"; a; b] -> Some (BEq (nt a, nt b))
  | ["isect"; a; b] -> Some (BIsect (nt a, nt b))
  | ["empty"; b] -> Some (BEmpty (nt b))
  | ["count"; b] -> Some (BCount (nt b))
  | ["min"; b] -> Some (BMin (nt b))
  | ["max"; b] -> Some (BMax (nt b))
  | ["and"; d; a; b] -> Some (BAnd (nt d, nt a, nt b))
  | ["andc"; d; a; b] -> Some (BAndC (nt d, nt a, nt b))
  | ["ior"; d; a; b] -> Some (BIor (nt d, nt a, nt b))
  | ["iorand"; d; a; b; c] -> Some (BIorAnd (nt d, nt a, nt b, nt c))
  | ["iorandc"; d; a; b; c] -> Some (BIorAndC (nt d, nt a, nt b, nt c))
  | ["iter"; b] -> Some (BIter (nt b))
  | ["iinit"; b] -> Some (BIterInit (nt b))
  | ["inext"] -> Some BIterNext
  | [] -> None
  | _ -> failwith ("bad bitmap op: " ^ s)

let dump_store b st =
  let strip ws = (* drop trailing zero words *)
    let rec go = function [] -> [] | w :: r -> (match go r with [] -> if w = N0 then [] else [w] | r' -> w :: r') in go ws in
  let one ws = match strip ws with [] -> "-" | l -> String.concat "." (List.map hex_of_n l) in
  Buffer.add_string b (" " ^ String.concat "/" (List.map one st));
  Buffer.add_string b (" #" ^ String.concat "/" (List.map (fun ws -> string_of_int (List.length ws)) st))

let run_bitmap args ops =
  let nb = int_of_string (String.trim args) in
  let s = ref (binit (nat_of_int nb)) in
  let b = Buffer.create 256 in
  let stop = ref false in
  let dirty = ref false in   (* iterated bitmap written since iinit: inext becomes bookkeeping (#x) *)
  let writes = function
    | BSet (d, _) | BClr (d, _) | BSetR (d, _, _) | BClrR (d, _, _) | BClear d | BExpand (d, _) | BCopy (d, _)
    | BAnd (d, _, _) | BAndC (d, _, _) | BIor (d, _, _) | BIorAnd (d, _, _, _) | BIorAndC (d, _, _, _) -> Some d
    | _ -> None in
  List.iter (fun o ->
    if not !stop then
    match parse_bop o with
    | None -> ()
    | Some o ->
      (match writes o with Some d when d = !s.bit_bm -> dirty := true | _ -> ());
      (match o with BIterInit _ -> dirty := false | _ -> ());
      (match bstep true !s o with
       | None -> Buffer.add_string b " REJECT"; stop := true
       | Some (s', out) ->
         s := s';
         (match out with
          | BoNone -> Buffer.add_string b " -"
          | BoBool t -> Buffer.add_string b (if t then " b1" else " b0")
          | BoNum n -> Buffer.add_string b (" n" ^ dec_of_n n)
          | BoList [] -> Buffer.add_string b " i-"
          | BoList l -> Buffer.add_string b (" i" ^ String.concat "," (List.map dec_of_n l))
          | BoNext None -> Buffer.add_string b (if !dirty then " #x-" else " x-")
          | BoNext (Some n) -> Buffer.add_string b ((if !dirty then " #x" else " x") ^ dec_of_n n));
         dump_store b !s.bst))
    (String.split_on_char ';' ops);
  print_endline (Buffer.contents b)

(* ---------------------------------------------------------------- hash tables *)
let int_of_n = function N0 -> 0 | Npos p -> int_of_pos p
let show_ints tag l = " " ^ tag ^ (if l = [] then "-" else String.concat "," (List.map string_of_int l))

let parse_hop nkeys s =
  let el k v =
    let k = int_of_string k and v = int_of_string v in
    if k < 0 || k >= nkeys || v < 0 || v > 999 then None else Some (n_of_int (k * 1000 + v)) in
  let mk act k v = match el k v with Some x -> `Op (HDo (act, x)) | None -> `Reject in
  match words s with
  | ["find"; k] -> mk Find k "0"
  | ["ins"; k; v] -> mk Insert k v
  | ["rep"; k; v] -> mk Replace k v
  | ["del"; k] -> mk Delete k "0"
  | ["clear"] -> `Op HClear
  | ["num"] -> `Op HElsNum
  | ["each"] -> `Op HForeach
  | ["coll"] -> `Op HCollisions
  | [] -> `Skip
  | _ -> failwith ("bad htab op: " ^ s)

let live h =
  let rec take n l = if n = 0 then [] else match l with [] -> [] | x :: r -> x :: take (n - 1) r in
  List.concat_map (function Some (hh, y) -> if hh = N0 then [] else [int_of_n y] | None -> [-1])
    (take (int_of_nat h.els_bound) h.els)

let dump_htab b h =
  let l = live h in
  Buffer.add_string b (show_ints "s" (List.sort compare l));
  Buffer.add_string b (" n" ^ string_of_int (int_of_nat h.h_els_num));
  Buffer.add_string b (show_ints "#o" l);
  Buffer.add_string b (Printf.sprintf " #c%d #b%d #z%d #E" (int_of_n h.collisions) (int_of_nat h.els_bound) (List.length h.entries));
  Buffer.add_string b (String.concat "," (List.map (function Empty -> "." | Deleted -> "x" | Ix n -> string_of_int (int_of_nat n)) h.entries))

let run_htab with_free args ops =
  let nums = List.map int_of_string (words args) in
  let min_size, table = match nums with m :: t -> m, t | [] -> 0, [] in
  let tbl = List.map n_of_int table in
  let nkeys = List.length table in
  let h = ref (inst_create (nat_of_int min_size)) in
  let b = Buffer.create 256 in
  let stop = ref false in
  List.iter (fun o ->
    if not !stop then
    match parse_hop nkeys o with
    | `Skip -> ()
    | `Reject -> Buffer.add_string b " REJECT"; stop := true
    | `Op o ->
      let nlog = List.length !h.flog in
      (match inst_step tbl !h o with
       | None -> Buffer.add_string b " ERROR"; stop := true
       | Some (h', out) ->
         h := h';
         (match out with
          | HoDo (f, r) ->
            Buffer.add_string b (if f then " f1" else " f0");
            Buffer.add_string b (match r with None -> " e-" | Some x -> " e" ^ string_of_int (int_of_n x))
          | HoNone -> Buffer.add_string b " -"
          | HoNat n -> Buffer.add_string b (" n" ^ string_of_int (int_of_nat n))
          | HoList l ->
            let l = List.map int_of_n l in
            Buffer.add_string b (show_ints "l" (List.sort compare l));
            Buffer.add_string b (show_ints "#l" l)
          | HoN n -> Buffer.add_string b (" #c" ^ string_of_int (int_of_n n)));
         let rec drop n l = if n = 0 then l else match l with [] -> [] | _ :: r -> drop (n - 1) r in
         let fr = if with_free then List.map int_of_n (drop nlog h'.flog) else [] in
         Buffer.add_string b (show_ints "F" (List.sort compare fr));
         Buffer.add_string b (show_ints "#F" fr);
         dump_htab b h'))
    (String.split_on_char ';' ops);
  (* HTAB_DESTROY = clear (the table has a free function) *)
  let l = if with_free then live !h else [] in
  Buffer.add_string b (show_ints "D" (List.sort compare l));
  Buffer.add_string b (show_ints "#D" l);
  print_endline (Buffer.contents b)

(* ---------------------------------------------------------------- doubly linked lists *)
let parse_dop s =
  let nt x = nat_of_int (int_of_string x) in
  match words s with
  | ["pre"; e] -> Some (DPrepend (nt e))
  | ["app"; e] -> Some (DAppend (nt e))
  | ["insb"; a; e] -> Some (DInsertBefore (nt a, nt e))
  | ["insa"; a; e] -> Some (DInsertAfter (nt a, nt e))
  | ["rem"; e] -> Some (DRemove (nt e))
  | ["el"; n] -> Some (DEl (z_of_int (int_of_string n)))
  | ["len"] -> Some DLength
  | ["head"] -> Some DHead
  | ["tail"] -> Some DTail
  | ["next"; e] -> Some (DNext (nt e))
  | ["prev"; e] -> Some (DPrev (nt e))
  | [] -> None
  | _ -> failwith ("bad dlist op: " ^ s)

let run_dlist args ops =
  let n = min 64 (int_of_string (String.trim args)) in
  let d = ref (dinit (nat_of_int n)) in
  let l = ref [] in                    (* the abstract list: decides which ops are legal *)
  let b = Buffer.create 256 in
  let stop = ref false in
  let lk e = List.nth !d.heap e in
  let walk start step =
    let rec go e cnt acc = match e with
      | None -> List.rev acc
      | Some x -> if cnt > 64 then List.rev acc else go (step (lk (int_of_nat x))) (cnt + 1) (int_of_nat x :: acc) in
    go start 0 [] in
  List.iter (fun o ->
    if not !stop then
    match parse_dop o with
    | None -> ()
    | Some o ->
      (match sstep (nat_of_int n) !l o with
       | None -> Buffer.add_string b " REJECT"; stop := true
       | Some (l', _) ->
         (match dstep !d o with
          | None -> Buffer.add_string b " ERROR"; stop := true
          | Some (d', out) ->
            d := d'; l := l';
            (match out with
             | DoNone -> Buffer.add_string b " -"
             | DoNode None -> Buffer.add_string b " e-"
             | DoNode (Some x) -> Buffer.add_string b (" e" ^ string_of_int (int_of_nat x))
             | DoNat k -> Buffer.add_string b (" n" ^ string_of_int (int_of_nat k)));
            Buffer.add_string b (show_ints ">" (walk d'.head (fun k -> k.next)));
            Buffer.add_string b (show_ints "<" (walk d'.tail (fun k -> k.prev))))))
    (String.split_on_char ';' ops);
  print_endline (Buffer.contents b)

let () =
  try
    while true do
      let line = input_line stdin in
      match String.index_opt line ':' with
      | None -> ()
      | Some i ->
        let hd = String.sub line 0 i and ops = String.sub line (i + 1) (String.length line - i - 1) in
        (match words hd with
         | "varr" :: rest -> run_varr (String.concat " " rest) ops
         | "bitmap" :: rest -> run_bitmap (String.concat " " rest) ops
         | "htab" :: rest -> run_htab true (String.concat " " rest) ops
         | "htabn" :: rest -> run_htab false (String.concat " " rest) ops   (* free_func == NULL: the log is ghost (HtabGhost.v) *)
         | "dlist" :: rest -> run_dlist (String.concat " " rest) ops
         | k :: _ -> print_endline ("?kind " ^ k)
         | [] -> ())
    done
  with End_of_file -> ()

(* Runs C19 op scripts on the model extracted from Coq (c19x.ml). Same line format as
   harness/c19_adt.c; undefined cells print as "v?" / "?". *)
open C19x

let rec nat_of_int n = if n <= 0 then O else S (nat_of_int (n - 1))
let rec int_of_nat = function O -> 0 | S n -> 1 + int_of_nat n
let rec pos_of_int n = if n = 1 then XH else if n land 1 = 0 then XO (pos_of_int (n lsr 1)) else XI (pos_of_int (n lsr 1))
let z_of_int n = if n = 0 then Z0 else if n > 0 then Zpos (pos_of_int n) else Zneg (pos_of_int (-n))
let rec int_of_pos = function XH -> 1 | XO p -> 2 * int_of_pos p | XI p -> 2 * int_of_pos p + 1
let int_of_z = function Z0 -> 0 | Zpos p -> int_of_pos p | Zneg p -> - (int_of_pos p)

let words s = List.filter (fun x -> x <> "") (String.split_on_char ' ' (String.trim s))

let parse_vop s =
  match words s with
  | ["push"; x] -> Some (VPush (z_of_int (int_of_string x)))
  | "pusharr" :: xs -> Some (VPushArr (List.map (fun x -> z_of_int (int_of_string x)) xs))
  | ["pop"] -> Some VPop
  | ["trunc"; n] -> Some (VTrunc (nat_of_int (int_of_string n)))
  | ["expand"; n] -> Some (VExpand (nat_of_int (int_of_string n)))
  | ["tailor"; n] -> Some (VTailor (nat_of_int (int_of_string n)))
  | ["set"; i; x] -> Some (VSet (nat_of_int (int_of_string i), z_of_int (int_of_string x)))
  | ["get"; i] -> Some (VGet (nat_of_int (int_of_string i)))
  | ["last"] -> Some VLast
  | ["len"] -> Some VLength
  | ["cap"] -> Some VCapacity
  | [] -> None
  | _ -> failwith ("bad varr op: " ^ s)

let show_cell = function Some z -> string_of_int (int_of_z z) | None -> "?"

let run_varr args ops =
  let init = int_of_string (String.trim args) in
  let v = ref (vcreate (nat_of_int init)) in
  let b = Buffer.create 256 in
  let stop = ref false in
  List.iter (fun s ->
    if not !stop then
    match parse_vop s with
    | None -> ()
    | Some o ->
      (match vstep !v o with
       | None -> Buffer.add_string b " REJECT"; stop := true
       | Some ((v', out), ev) ->
         v := v';
         (match out with
          | ONone -> Buffer.add_string b " -"
          | OVal c -> Buffer.add_string b (" v" ^ show_cell c)
          | ONat n -> Buffer.add_string b (" n" ^ string_of_int (int_of_nat n))
          | OBool t -> Buffer.add_string b (if t then " b1" else " b0"));
         (match ev with
          | Some (o, n) -> Buffer.add_string b (Printf.sprintf " r%d,%d" (int_of_nat o) (int_of_nat n))
          | None -> ())))
    (String.split_on_char ';' ops);
  Buffer.add_string b " |";
  let n = int_of_nat !v.els_num in
  List.iteri (fun i c -> if i < n then Buffer.add_string b (" " ^ show_cell c)) !v.buf;
  print_endline (Buffer.contents b)

let () =
  try
    while true do
      let line = input_line stdin in
      match String.index_opt line ':' with
      | None -> ()
      | Some i ->
        let hd = String.sub line 0 i and ops = String.sub line (i + 1) (String.length line - i - 1) in
        (match words hd with
         | "varr" :: rest -> run_varr (String.concat " " rest) ops
         | k :: _ -> print_endline ("?kind " ^ k)
         | [] -> ())
    done
  with End_of_file -> ()

(* Runs the extracted models of c2mir's function-like macro expansion (PpExpandFn.expand_fn) and of
   its conditional-directive machine (PpCond.c2m_cond), one query per input line.

   F q<a><b><c> D <name> O <tok>* ; D <name> F <param>* | <tok>* ; ... ; U <tok>*
       a = q_single_eor, b = q_nl_no_arg, c = q_plm_ws (0/1).  Tokens: i<hex> identifier, n<hex> number, p<hex>
       punctuator, s<hex> string literal, c<hex> character constant, _ white space, / newline,
       R ## of a replacement list.  <name>, <param> = hex spellings (2e2e2e = `...`).
       Answer: "out <tok>*" (painted identifiers as I<hex>), "err <n>" or "fuel".
   K <elems>      conditional structure in prefix form:
       elems = [ elem* ]   elem = T k | D n v | U n | S head elems tail
       head = I cond | F n | N n      tail = E | L cond elems tail | O elems
       cond = c0 | c1 | d n | ! cond | & cond cond | = n k | z n | x
       Answer: "ok <k>* | <n>=<v>* | spec-agrees" or "err". *)
open C09fx

let rec nat_of_int n = if n <= 0 then O else S (nat_of_int (n - 1))
let rec int_of_nat = function O -> 0 | S n -> 1 + int_of_nat n

let spelling_of_hex h : nat list =
  let n = String.length h / 2 in
  List.init n (fun i -> nat_of_int (int_of_string ("0x" ^ String.sub h (2 * i) 2)))
let hex_of_spelling s =
  String.concat "" (List.map (fun c -> Printf.sprintf "%02x" (int_of_nat c)) s)

let tok_of_word w : tok =
  let rest () = spelling_of_hex (String.sub w 1 (String.length w - 1)) in
  match w.[0] with
  | 'i' -> TIdent (false, rest ())
  | 'I' -> TIdent (true, rest ())
  | 'n' -> TTok (KNum, rest ())
  | 'p' -> TTok (KPunct, rest ())
  | 's' -> TTok (KStr, rest ())
  | 'c' -> TTok (KChr, rest ())
  | '_' -> TSp
  | '/' -> TNl
  | 'R' -> TRDblNo
  | _ -> failwith ("bad token " ^ w)

let word_of_tok = function
  | TIdent (false, s) -> "i" ^ hex_of_spelling s
  | TIdent (true, s) -> "I" ^ hex_of_spelling s
  | TTok (KNum, s) -> "n" ^ hex_of_spelling s
  | TTok (KPunct, s) -> "p" ^ hex_of_spelling s
  | TTok (KStr, s) -> "s" ^ hex_of_spelling s
  | TTok (KChr, s) -> "c" ^ hex_of_spelling s
  | TSp -> "_"
  | TNl -> "/"
  | TRDblNo -> "R"
  | TPlm -> "PLM"
  | TBoa -> "BOA"
  | TEoa -> "EOA"
  | TEor -> "EOR"

let split_on sep ws =
  let groups = ref [] and cur = ref [] in
  List.iter (fun w -> if w = sep then (groups := List.rev !cur :: !groups; cur := []) else cur := w :: !cur) ws;
  List.rev (List.rev !cur :: !groups)

let fuel = nat_of_int 200000

let run_fn ws =
  match ws with
  | qw :: rest ->
    let q = { q_single_eor = qw.[1] = '1'; q_nl_no_arg = qw.[2] = '1'; q_plm_ws = qw.[3] = '1' } in
    let secs = split_on ";" rest in
    let defs = ref [] and use = ref [] in
    List.iter (fun sec ->
      match sec with
      | "D" :: name :: "O" :: body ->
        defs := (spelling_of_hex name, { m_params = None; m_body = List.map tok_of_word body }) :: !defs
      | "D" :: name :: "F" :: r ->
        (match split_on "|" r with
         | [ps; body] ->
           defs := (spelling_of_hex name, { m_params = Some (List.map spelling_of_hex ps);
                                            m_body = List.map tok_of_word body }) :: !defs
         | _ -> failwith "bad function-like definition")
      | "U" :: toks -> use := List.map tok_of_word toks
      | [] -> ()
      | w :: _ -> failwith ("bad section " ^ w)) secs;
    let table = List.rev !defs in
    (match expand_fn q (lookup table) fuel !use with
     | Out l -> String.concat " " ("out" :: List.map word_of_tok l)
     | Err w -> Printf.sprintf "err %d" (int_of_nat w)
     | OutOfFuel -> "fuel")
  | [] -> failwith "F needs the quirk word"

(* ---- conditional structures ---- *)
let nat_w w = nat_of_int (int_of_string w)

let rec p_cond = function
  | "c0" :: r -> (CConst false, r)
  | "c1" :: r -> (CConst true, r)
  | "d" :: n :: r -> (CDefined (nat_w n), r)
  | "!" :: r -> let (a, r) = p_cond r in (CNot a, r)
  | "&" :: r -> let (a, r) = p_cond r in let (b, r) = p_cond r in (CAnd (a, b), r)
  | "=" :: n :: k :: r -> (CValEq (nat_w n, nat_w k), r)
  | "z" :: n :: r -> (CNz (nat_w n), r)
  | "x" :: r -> (CErr, r)
  | w :: _ -> failwith ("bad cond " ^ w)
  | [] -> failwith "cond: unexpected end"

let rec p_elems = function
  | "[" :: r -> p_elem_list r
  | _ -> failwith "elems: [ expected"
and p_elem_list = function
  | "]" :: r -> (ENil, r)
  | r -> let (x, r) = p_elem r in let (xs, r) = p_elem_list r in (ECons (x, xs), r)
and p_elem = function
  | "T" :: k :: r -> (EText (nat_w k), r)
  | "D" :: n :: v :: r -> (EDefine (nat_w n, nat_w v), r)
  | "U" :: n :: r -> (EUndef (nat_w n), r)
  | "S" :: r ->
    let (h, r) = (match r with
        | "I" :: r -> let (c, r) = p_cond r in (HIf c, r)
        | "F" :: n :: r -> (HIfdef (nat_w n), r)
        | "N" :: n :: r -> (HIfndef (nat_w n), r)
        | _ -> failwith "bad head") in
    let (b, r) = p_elems r in
    let (t, r) = p_tail r in
    (ESec (h, b, t), r)
  | w :: _ -> failwith ("bad elem " ^ w)
  | [] -> failwith "elem: unexpected end"
and p_tail = function
  | "E" :: r -> (TEnd, r)
  | "L" :: r -> let (c, r) = p_cond r in let (b, r) = p_elems r in let (t, r) = p_tail r in (TElif (c, b, t), r)
  | "O" :: r -> let (b, r) = p_elems r in (TElse b, r)
  | _ -> failwith "bad tail"

let run_cond ws =
  let (xs, rest) = p_elems ws in
  if rest <> [] then failwith "trailing words";
  let show (e, o) =
    String.concat " " (List.map (fun k -> string_of_int (int_of_nat k)) o) ^ " | "
    ^ String.concat " " (List.map (fun (n, v) -> Printf.sprintf "%d=%d" (int_of_nat n) (int_of_nat v)) e) in
  match c2m_cond [] (flat_elems xs), sem_elems [] xs with
  | Some a, Some b -> "ok " ^ show a ^ (if a = b then " | spec-agrees" else " | SPEC-DIFFERS " ^ show b)
  | None, None -> "err"
  | Some a, None -> "ok " ^ show a ^ " | SPEC-DIFFERS err"
  | None, Some b -> "err | SPEC-DIFFERS " ^ show b

let () =
  try
    while true do
      let line = input_line stdin in
      let ws = List.filter (fun x -> x <> "") (String.split_on_char ' ' (String.trim line)) in
      match ws with
      | [] -> print_endline ""
      | "F" :: r -> print_endline (try run_fn r with Failure m -> "driver-error " ^ m)
      | "K" :: r -> print_endline (try run_cond r with Failure m -> "driver-error " ^ m)
      | w :: _ -> print_endline ("driver-error unknown query " ^ w)
    done
  with End_of_file -> ()

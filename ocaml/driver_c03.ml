(* Runs C03 requests on the model extracted from Coq (c03x.ml).  Numbers cross as hex strings.
   R <thunk_hex> <to_hex>            -> bytes=<26 hex> get=<hex> tgt=<hex|none>
   H <n> <undef_hex> | <callees> | <op> ; <op> ...
      ops: load f a | interp f a | gen f a | lazy f a | bb f a | call f a1,a2,...
      -> per op " || ok # f:addr:bytes:mc:ca:data:linked:kind ..."  or " || STUCK <why>" (stops)
   W <param> ...   param: i | d | l | b<cls>:<size>
      -> wf=<0|1> va=<walk> ff=<walk> gen=<walk>   walk: parameters separated by ';', eightbytes by ',':
         I<n> integer register n, F<n> SSE register n, S<off> stack argument area offset *)
open C03x

let rec nat_of_int n = if n <= 0 then O else S (nat_of_int (n - 1))
let rec int_of_nat = function O -> 0 | S n -> 1 + int_of_nat n

(* hex string <-> Z through the bits of the positive; no arithmetic on the OCaml side *)
let z_of_hex (s : string) : z =
  let bits = ref [] in
  String.iter (fun c ->
    let v = match c with
      | '0'..'9' -> Char.code c - 48 | 'a'..'f' -> Char.code c - 87 | 'A'..'F' -> Char.code c - 55
      | _ -> failwith ("bad hex: " ^ s) in
    bits := !bits @ [v land 8 <> 0; v land 4 <> 0; v land 2 <> 0; v land 1 <> 0]) s;
  let rec strip = function false :: r -> strip r | l -> l in
  match strip !bits with
  | [] -> Z0
  | _ :: rest -> Zpos (List.fold_left (fun p b -> if b then XI p else XO p) XH rest)

let hex_of_z (x : z) : string =
  match x with
  | Z0 -> "0"
  | Zneg _ -> "NEG"
  | Zpos p ->
    let rec bits = function XH -> [true] | XO q -> false :: bits q | XI q -> true :: bits q in
    let l = bits p in                       (* LSB first *)
    let rec nibbles = function
      | [] -> []
      | l ->
        let take i = match List.nth_opt l i with Some true -> 1 lsl i | _ -> 0 in
        let v = take 0 + take 1 + take 2 + take 3 in
        let rec drop n l = if n = 0 then l else match l with [] -> [] | _ :: r -> drop (n - 1) r in
        v :: nibbles (drop 4 l) in
    String.concat "" (List.rev_map (fun v -> Printf.sprintf "%x" v) (nibbles l))

let int_of_z (x : z) : int =
  let rec ip = function XH -> 1 | XO p -> 2 * ip p | XI p -> 2 * ip p + 1 in
  match x with Z0 -> 0 | Zpos p -> ip p | Zneg p -> - (ip p)

let hex_of_bytes (l : z list) = String.concat "" (List.map (fun b -> Printf.sprintf "%02x" (int_of_z b)) l)
let words s = List.filter (fun x -> x <> "") (String.split_on_char ' ' (String.trim s))
let opt_hex = function Some a -> hex_of_z a | None -> "0"

let kind_str = function
  | None -> "?" | Some KUndef -> "U" | Some (KShim _) -> "S" | Some (KWrapFunc _) -> "Wl"
  | Some (KWrapBB _) -> "Wb" | Some (KCode _) -> "C" | Some (KBB _) -> "O"

let dump_world (w : world) =
  let b = Buffer.create 256 in
  List.iteri (fun i o ->
    match o with
    | None -> ()
    | Some g ->
      Buffer.add_string b (Printf.sprintf " %d:%s:%s:%s:%s:%s:%d:%s" i (hex_of_z g.addr)
        (hex_of_bytes g.bytes) (opt_hex g.mcode) (opt_hex g.calladdr)
        (match g.data with DNone -> "0" | DIcode -> "1" | DBBStubs -> "1")
        (if g.linked then 1 else 0)
        (kind_str (current_impl w (nat_of_int i))))) w.fns;
  Buffer.contents b

let parse_callees (s : string) : (nat -> nat list) =
  let tbl = Hashtbl.create 16 in
  List.iter (fun tok ->
    match String.split_on_char ':' tok with
    | [f; cs] ->
      Hashtbl.replace tbl (int_of_string f)
        (List.map (fun c -> nat_of_int (int_of_string c))
           (List.filter (fun x -> x <> "") (String.split_on_char ',' cs)))
    | _ -> failwith ("bad callees: " ^ tok)) (words s);
  fun f -> match Hashtbl.find_opt tbl (int_of_nat f) with Some l -> l | None -> []

let parse_op (s : string) : op option =
  match words s with
  | [] -> None
  | ["load"; f; a] -> Some (OLoad (nat_of_int (int_of_string f), z_of_hex a))
  | ["interp"; f; a] -> Some (OSetInterp (nat_of_int (int_of_string f), z_of_hex a))
  | ["gen"; f; a] -> Some (OSetGen (nat_of_int (int_of_string f), z_of_hex a))
  | ["lazy"; f; a] -> Some (OSetLazy (nat_of_int (int_of_string f), z_of_hex a))
  | ["bb"; f; a] -> Some (OSetLazyBB (nat_of_int (int_of_string f), z_of_hex a))
  | "call" :: f :: rest ->
    let orc = match rest with
      | [] -> []
      | [l] -> List.map z_of_hex (List.filter (fun x -> x <> "" && x <> "-") (String.split_on_char ',' l))
      | _ -> failwith ("bad call: " ^ s) in
    Some (OCall (nat_of_int (int_of_string f), orc))
  | _ -> failwith ("bad op: " ^ s)

let run_h (line : string) =
  match String.split_on_char '|' line with
  | [hd; cs; ops] ->
    (match words hd with
     | ["H"; n; u] ->
       let callees = parse_callees cs in
       let w = ref (init_world (nat_of_int (int_of_string n)) (z_of_hex u)) in
       let b = Buffer.create 1024 in
       Buffer.add_string b "H";
       let stop = ref false in
       List.iter (fun s ->
         if not !stop then
           match parse_op s with
           | None -> ()
           | Some o ->
             (match step callees !w o with
              | Ok w' -> w := w'; Buffer.add_string b (" || ok #" ^ dump_world w')
              | Stuck why ->
                stop := true;
                Buffer.add_string b (" || STUCK " ^ (match why with
                  | SUndefined -> "undefined" | SInvalid -> "invalid" | SOracle -> "oracle"))))
         (String.split_on_char ';' ops);
       print_endline (Buffer.contents b)
     | _ -> print_endline "BAD")
  | _ -> print_endline "BAD"

let run_r (line : string) =
  match words line with
  | ["R"; th; t] ->
    let thunk = z_of_hex th and to_ = z_of_hex t in
    let bs = redirect_bytes thunk to_ in
    Printf.printf "bytes=%s get=%s tgt=%s\n" (hex_of_bytes bs) (hex_of_z (get_thunk_addr bs))
      (match jump_target thunk bs with Some a -> hex_of_z a | None -> "none")
  | _ -> print_endline "BAD"

(* B <thunk> <bbv> <handler> <to>: _MIR_get_bb_thunk then _MIR_replace_bb_thunk, with the C code's truncation *)
let run_b (line : string) =
  match words line with
  | ["B"; th; bv; h; t] ->
    let thunk = z_of_hex th and bbv = z_of_hex bv and handler = z_of_hex h and to_ = z_of_hex t in
    let b1 = get_bb_thunk_bytes thunk bbv handler in
    let b2 = replace_bb_thunk_bytes b1 thunk to_ in
    Printf.printf "bytes=%s r10=%s tgt=%s bytes2=%s tgt2=%s\n" (hex_of_bytes b1)
      (match bb_thunk_exec thunk b1 with Some (r, _) -> hex_of_z r | None -> "none")
      (match bb_thunk_exec thunk b1 with Some (_, a) -> hex_of_z a | None -> "none")
      (hex_of_bytes b2)
      (match jump_target thunk b2 with Some a -> hex_of_z a | None -> "none")
  | _ -> print_endline "BAD"

(* W: argument locations of the three conventions (coq/C03/ArgPass.v) *)
let run_w (line : string) =
  let zi n = z_of_hex (Printf.sprintf "%x" n) in
  let param w =
    if w = "i" then PInt else if w = "d" then PFp else if w = "l" then PLd
    else match String.split_on_char ':' (String.sub w 1 (String.length w - 1)) with
      | [c; sz] when w.[0] = 'b' -> PBlk (zi (int_of_string c), zi (int_of_string sz))
      | _ -> failwith ("bad param: " ^ w) in
  let loc = function RInt n -> "I" ^ string_of_int (int_of_z n) | RFp n -> "F" ^ string_of_int (int_of_z n)
                   | Stk o -> "S" ^ string_of_int (int_of_z o) in
  let show wk = String.concat ";" (List.map (fun l -> String.concat "," (List.map loc l)) wk) in
  match words line with
  | "W" :: ps ->
    let ps = List.map param ps in
    Printf.printf "wf=%d va=%s ff=%s gen=%s\n" (if wf_params ps then 1 else 0)
      (show (va_walk ps)) (show (ff_walk ps)) (show (gen_walk ps))
  | _ -> print_endline "BAD"

(* C <page> <addr> <n>: the mem_protect request of _MIR_change_code and the pages it covers;
   U <page> <base> <off> ...: the same for _MIR_update_code_arr (coq/C03/CodePatch.v) *)
let run_c (line : string) =
  match words line with
  | ["C"; pg; a; n] ->
    let page = z_of_hex pg in
    let r = change_code_region page (z_of_hex a) (z_of_hex n) in
    let (s, l) = r in
    let (lo, hi) = protected page r in
    Printf.printf "start=%s len=%s lo=%s hi=%s\n" (hex_of_z s) (hex_of_z l) (hex_of_z lo) (hex_of_z hi)
  | "U" :: pg :: b :: offs ->
    let page = z_of_hex pg in
    let r = update_code_region page (z_of_hex b) (List.map z_of_hex offs) in
    let (s, l) = r in
    let (lo, hi) = protected page r in
    Printf.printf "start=%s len=%s lo=%s hi=%s\n" (hex_of_z s) (hex_of_z l) (hex_of_z lo) (hex_of_z hi)
  | _ -> print_endline "BAD"

let () =
  try
    while true do
      let line = input_line stdin in
      if String.length line = 0 then print_endline ""
      else if line.[0] = 'R' then run_r line
      else if line.[0] = 'B' then run_b line
      else if line.[0] = 'H' then run_h line
      else if line.[0] = 'W' then run_w line
      else if line.[0] = 'C' || line.[0] = 'U' then run_c line
      else print_endline "BAD"
    done
  with End_of_file -> ()

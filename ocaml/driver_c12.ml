(* Runs C12 cases on the model extracted from Coq (c12x.ml).  Line formats (same as harness/c12_reduce.c):
     enc <hex>                 -> E <hex>            (or STUCK)
     encf <fill> <hex>         -> E <hex>            (the model encoder never reads behind buf_bound: fill ignored)
     dec <fx> <fill> <hex>     -> A <hex> | R | O <what> <idx> | NOFUEL
     hash <seedhex> <hex>      -> H <decimal>
   <hex> may be "-" for the empty string.  fx: 1 = model of the fixed decoder, 0 = original checks.
   fill: byte value every byte of the freshly allocated struct reduce_data has. *)
open C12x

let rec pos_of_int n = if n = 1 then XH else if n land 1 = 0 then XO (pos_of_int (n lsr 1)) else XI (pos_of_int (n lsr 1))
let n_of_int n = if n = 0 then N0 else Npos (pos_of_int n)
let rec int_of_pos = function XH -> 1 | XO p -> 2 * int_of_pos p | XI p -> 2 * int_of_pos p + 1
let int_of_n = function N0 -> 0 | Npos p -> int_of_pos p
(* decimal printing of an N that may exceed 63 bits: split in two 32-bit halves *)
let rec pos_bits p acc = match p with XH -> 1 :: acc | XO q -> pos_bits q (0 :: acc) | XI q -> pos_bits q (1 :: acc)
let string_of_n n = match n with
  | N0 -> "0"
  | Npos p ->
    (* little-endian bits *)
    let rec bits p = match p with XH -> [1] | XO q -> 0 :: bits q | XI q -> 1 :: bits q in
    let bs = bits p in
    (* decimal via repeated doubling on a digit array *)
    let digits = ref [0] in
    let double_add b =
      let carry = ref b in
      digits := List.map (fun d -> let v = d * 2 + !carry in carry := v / 10; v mod 10) !digits;
      if !carry > 0 then digits := !digits @ [!carry] in
    List.iter double_add (List.rev bs);
    String.concat "" (List.rev_map string_of_int !digits)

(* N from a hexadecimal string of any length *)
let n_of_hex s =
  let acc = ref None in
  String.iter (fun c ->
    let v = (match c with
      | '0'..'9' -> Char.code c - 48 | 'a'..'f' -> Char.code c - 87 | 'A'..'F' -> Char.code c - 55
      | _ -> failwith "bad hex") in
    for k = 3 downto 0 do
      let b = (v lsr k) land 1 = 1 in
      acc := (match !acc with
        | None -> if b then Some XH else None
        | Some p -> Some (if b then XI p else XO p))
    done) s;
  match !acc with None -> N0 | Some p -> Npos p

let byte_tab = Array.init 256 n_of_int
let hexval c = match c with
  | '0'..'9' -> Char.code c - 48 | 'a'..'f' -> Char.code c - 87 | 'A'..'F' -> Char.code c - 55
  | _ -> failwith "bad hex"
let bytes_of_hex s =
  if s = "-" then [] else begin
    let n = String.length s / 2 in
    let r = ref [] in
    for i = n - 1 downto 0 do
      r := byte_tab.(hexval s.[2*i] * 16 + hexval s.[2*i+1]) :: !r
    done; !r end
let hex_of_bytes l =
  if l = [] then "-" else begin
    let b = Buffer.create 1024 in
    List.iter (fun x -> Buffer.add_string b (Printf.sprintf "%02x" (int_of_n x))) l;
    Buffer.contents b end

let words s = List.filter (fun x -> x <> "") (String.split_on_char ' ' (String.trim s))

let () =
  try
    while true do
      let line = input_line stdin in
      (match words line with
       | ["enc"; h] | ["encf"; _; h] ->
         (match encode (bytes_of_hex h) with
          | Some o -> print_endline ("E " ^ hex_of_bytes o)
          | None -> print_endline "STUCK")
       | ["dec"; fx; fill; h] ->
         let f = int_of_string fill in
         let w = n_of_int (f * 0x01010101) and b = n_of_int f in
         (match decode (fx = "1") (fun _ -> w) (fun _ -> b) (bytes_of_hex h) with
          | Accept d -> print_endline ("A " ^ hex_of_bytes d)
          | Reject -> print_endline "R"
          | Oob (w, i) -> print_endline (Printf.sprintf "O %d %s" (int_of_n w) (string_of_n i))
          | NoFuel -> print_endline "NOFUEL")
       | ["hash"; seed; h] ->
         print_endline ("H " ^ string_of_n (mir_hash_strict (bytes_of_hex h) (n_of_hex seed)))
       | [] -> ()
       | _ -> print_endline "?");
      flush stdout
    done
  with End_of_file -> ()

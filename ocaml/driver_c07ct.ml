(* C07 call-result temporaries: line in = a function body as full expressions separated by `;`, each in prefix form
   `C <result size> <number of arguments> args...` | `O <number of operands> operands...`;
   line out = `area <bytes> | A <off> <len> W <off> <len> ...` (the Alloc / Write events of CallTemps.gen false in code order).
   Parse + print only. *)
open C07ctx

let rec pos_of_int (i : int) : positive =
  if i = 1 then XH else if i land 1 = 0 then XO (pos_of_int (i lsr 1)) else XI (pos_of_int (i lsr 1))
let n_of_int (i : int) : n = if i = 0 then N0 else Npos (pos_of_int i)
let rec int_of_pos (p : positive) : int = match p with XH -> 1 | XO q -> 2 * int_of_pos q | XI q -> 2 * int_of_pos q + 1
let int_of_n (x : n) : int = match x with N0 -> 0 | Npos p -> int_of_pos p

let rec parse (ws : string list) : expr * string list =
  match ws with
  | "C" :: sz :: k :: r ->
      let (args, r') = parse_n (int_of_string k) r in (Call (n_of_int (int_of_string sz), args), r')
  | "O" :: k :: r -> let (subs, r') = parse_n (int_of_string k) r in (Op subs, r')
  | _ -> failwith "parse"
and parse_n (k : int) (ws : string list) : expr list * string list =
  if k = 0 then ([], ws) else
    let (e, r) = parse ws in
    let (es, r') = parse_n (k - 1) r in (e :: es, r')

let rec parse_body (ws : string list) : expr list =
  match ws with
  | [] -> []
  | ";" :: r -> parse_body r
  | _ -> let (e, r) = parse ws in e :: parse_body r

let () =
  try
    while true do
      let line = input_line stdin in
      (try
         let ws = List.filter (fun s -> s <> "") (String.split_on_char ' ' line) in
         let body = parse_body ws in
         let evs = body_events false body in
         let b = Buffer.create 64 in
         Buffer.add_string b (Printf.sprintf "area %d |" (int_of_n (area_size body)));
         List.iter (fun e -> match e with
             | Alloc (o, l) -> Buffer.add_string b (Printf.sprintf " A %d %d" (int_of_n o) (int_of_n l))
             | Write (o, l) -> Buffer.add_string b (Printf.sprintf " W %d %d" (int_of_n o) (int_of_n l))) evs;
         print_endline (Buffer.contents b)
       with Failure m -> print_endline ("driver-error " ^ m))
    done
  with End_of_file -> ()

(* Runs C01/C04 cases on the reference interpreter extracted from Coq (c01x.ml).
   One case per input line, one canonical result line per case (same format as
   harness/c01_engines.c).  All numbers are hexadecimal ("-" prefix for negatives).

   line  := "F" fuel "E" entry "A" n z*n "O" n z*n "R" n region*n "P" n item*n
   region:= base size writable(0/1) hexbytes
   item  := "func" nres ty* nargs (reg ty)* ninsns insn* | "proto" nres ty* nargs ty* | "import" id
   ty    := i8 u8 i16 u16 i32 u32 i64 u64 f d ld p blk<k>:<size> rblk:<size>
   insn  := opnum nops operand*
   operand := r<N> | i<z> | f<bits> | d<bits> | m ty disp base index scale | L<n> | @<n>      *)
open C01x

let nat_of_int n = let r = ref O in for _ = 1 to n do r := S !r done; !r
let rec int_of_nat = function O -> 0 | S n -> 1 + int_of_nat n

let digit c = match c with
  | '0'..'9' -> Char.code c - 48
  | 'a'..'f' -> Char.code c - 87
  | 'A'..'F' -> Char.code c - 55
  | _ -> failwith "bad hex digit"

let z_of_hex s =
  let neg = String.length s > 0 && s.[0] = '-' in
  let s = if neg then String.sub s 1 (String.length s - 1) else s in
  let acc = ref None in
  String.iter (fun c ->
    let d = digit c in
    for b = 3 downto 0 do
      let bit = (d lsr b) land 1 = 1 in
      acc := (match !acc with
              | None -> if bit then Some XH else None
              | Some p -> Some (if bit then XI p else XO p))
    done) s;
  match !acc with None -> Z0 | Some p -> if neg then Zneg p else Zpos p

let hex_of_pos p =
  let rec bits p acc = match p with
    | XH -> List.rev (1 :: acc)
    | XO q -> bits q (0 :: acc)
    | XI q -> bits q (1 :: acc) in
  let lsb = bits p [] in                     (* least significant first *)
  let rec nibbles l acc = match l with
    | [] -> acc
    | a :: b :: c :: d :: r -> nibbles r ((a + 2*b + 4*c + 8*d) :: acc)
    | a :: b :: c :: [] -> (a + 2*b + 4*c) :: acc
    | a :: b :: [] -> (a + 2*b) :: acc
    | a :: [] -> a :: acc in
  String.concat "" (List.map (Printf.sprintf "%x") (nibbles lsb []))

let hex_of_z = function Z0 -> "0" | Zpos p -> hex_of_pos p | Zneg p -> "-" ^ hex_of_pos p
let int_of_z z = int_of_string ("0x" ^ (match z with Z0 -> "0" | Zpos p -> hex_of_pos p | Zneg _ -> failwith "neg"))
let pos_of_hex s = match z_of_hex s with Zpos p -> p | _ -> failwith "positive expected"
let n_of_int i = match z_of_hex (Printf.sprintf "%x" i) with Z0 -> N0 | Zpos p -> Npos p | _ -> N0

(* token stream *)
let toks = ref [||]
let pos = ref 0
let next () = let t = !toks.(!pos) in incr pos; t
let next_int () = int_of_string ("0x" ^ next ())
let next_z () = z_of_hex (next ())
let expect s = let t = next () in if t <> s then failwith ("expected " ^ s ^ " got " ^ t)
let rec times n f = if n <= 0 then [] else let x = f () in x :: times (n - 1) f

let parse_ty s =
  match s with
  | "i8" -> T_I8 | "u8" -> T_U8 | "i16" -> T_I16 | "u16" -> T_U16 | "i32" -> T_I32 | "u32" -> T_U32
  | "i64" -> T_I64 | "u64" -> T_U64 | "f" -> T_F | "d" -> T_D | "ld" -> T_LD | "p" -> T_P
  | _ ->
    (match String.index_opt s ':' with
     | Some i ->
       let hd = String.sub s 0 i and sz = z_of_hex (String.sub s (i + 1) (String.length s - i - 1)) in
       if hd = "rblk" then T_RBLK sz
       else if String.length hd >= 3 && String.sub hd 0 3 = "blk" then
         T_BLK (nat_of_int (if hd = "blk" then 0 else int_of_string (String.sub hd 3 (String.length hd - 3))), sz)
       else failwith ("bad type " ^ s)
     | None -> failwith ("bad type " ^ s))

let next_ty () = parse_ty (next ())
let tail s = String.sub s 1 (String.length s - 1)
let reg_opt s = if s = "0" then None else Some (pos_of_hex s)

let parse_operand () =
  let t = next () in
  match t.[0] with
  | 'r' -> Oreg (pos_of_hex (tail t))
  | 'i' -> Oint (z_of_hex (tail t))
  | 'f' -> Ofloat (z_of_hex (tail t))
  | 'd' -> Odouble (z_of_hex (tail t))
  | 'L' -> Olabel (pos_of_hex (tail t))
  | '@' -> Oref (nat_of_int (int_of_string ("0x" ^ tail t)))
  | 'm' ->
    let ty = next_ty () in
    let disp = next_z () in
    let base = reg_opt (next ()) in
    let index = reg_opt (next ()) in
    let scale = next_z () in
    Omem { m_ty = ty; m_disp = disp; m_base = base; m_index = index; m_scale = scale }
  | _ -> failwith ("bad operand " ^ t)

let parse_insn () =
  let opn = next_int () in
  let op = match opcode_of_num (n_of_int opn) with Some o -> o | None -> failwith "bad opcode" in
  let nops = next_int () in
  I (op, times nops parse_operand)

let parse_item () =
  match next () with
  | "func" ->
    let nres = next_int () in let res = times nres next_ty in
    let nargs = next_int () in
    let args = times nargs (fun () -> let r = pos_of_hex (next ()) in let t = next_ty () in (r, t)) in
    let n = next_int () in
    let body = times n parse_insn in
    Ifunc { f_res = res; f_args = args; f_body = body }
  | "proto" ->
    let nres = next_int () in let res = times nres next_ty in
    let nargs = next_int () in let args = times nargs next_ty in
    Iproto { p_res = res; p_args = args }
  | "import" -> Iimport (nat_of_int (next_int ()))
  | t -> failwith ("bad item " ^ t)

let bytes_of_hex s =
  let n = String.length s / 2 in
  List.init n (fun i -> z_of_hex (String.sub s (2 * i) 2))

let err_name = function
  | E_uninit_reg -> "uninit_reg" | E_tag -> "tag" | E_mem -> "mem" | E_undef_insn -> "undef_insn"
  | E_unsupported -> "unsupported" | E_bad_program -> "bad_program" | E_flags -> "flags"
  | E_oracle -> "oracle" | E_depth -> "depth" | E_fell_off -> "fell_off" | E_observable -> "observable"

let byte_hex z = let s = hex_of_z z in if String.length s = 1 then "0" ^ s else s

let run_line line =
  toks := Array.of_list (List.filter (fun x -> x <> "") (String.split_on_char ' ' (String.trim line)));
  pos := 0;
  expect "F"; let fuel = next_int () in
  expect "E"; let entry = next_int () in
  expect "A"; let na = next_int () in let args = times na next_z in
  expect "O"; let no = next_int () in let orc = times no next_z in
  expect "R"; let nr = next_int () in
  let regions = times nr (fun () ->
    let base = next_z () in let size = next_z () in let w = next () = "1" in
    let bytes = next () in
    ({ b_base = base; b_size = size; b_writable = w }, bytes_of_hex (if bytes = "-" then "" else bytes))) in
  expect "P"; let ni = next_int () in
  let prog = times ni parse_item in
  match run_program mir_isem prog regions (nat_of_int entry) args orc (nat_of_int fuel) with
  | None -> "FUEL"
  | Some (Stuck e) -> "STUCK " ^ err_name e
  | Some o ->
    (match observe (List.map fst regions) o with
     | None -> "STUCK ?"
     | Some ob ->
       let res = String.concat "," (List.map hex_of_z ob.ob_results) in
       let mem = String.concat ";" (List.map (function
         | None -> "??"
         | Some bs -> String.concat "" (List.map byte_hex bs)) ob.ob_memory) in
       let ev = String.concat "|" (List.map (fun e ->
         Printf.sprintf "%x(%s)" (int_of_nat e.ev_fn) (String.concat "," (List.map hex_of_z e.ev_args)))
         ob.ob_events) in
       Printf.sprintf "OK res=%s mem=%s ev=%s" res mem ev)

(* alloca consolidation model (C04/Simplify.consolidate): "C s0 s1 ..." (hex sizes) *)
let run_consolidate line =
  let ws = List.filter (fun x -> x <> "") (String.split_on_char ' ' (String.trim line)) in
  match ws with
  | _ :: s0 :: rest ->
    let (offs, tot) = consolidate (z_of_hex s0) (List.map z_of_hex rest) in
    Printf.sprintf "ALLOCA tot=%s offs=%s" (hex_of_z tot) (String.concat "," (List.map hex_of_z offs))
  | _ -> "DRIVER-ERROR bad C line"

let () =
  try
    while true do
      let line = input_line stdin in
      if String.length line > 1 && line.[0] = 'C' && line.[1] = ' ' then print_endline (run_consolidate line)
      else
      if String.trim line = "" then print_endline ""
      else
        (try print_endline (run_line line)
         with Failure m -> print_endline ("DRIVER-ERROR " ^ m)
            | Invalid_argument m -> print_endline ("DRIVER-ERROR " ^ m))
    done
  with End_of_file -> ()

(* C20 model driver: evaluates the rows of the REGENERATED mir2c template table (extracted).
   requests:  mrow <opnum> <hex args...>  ->  "S <hex>" | "B 0/1" | "O <hex> <flagvar> <flag> ..." | "N" | "NOROW"
              mrowok <opnum>              ->  1 / 0 / NOROW *)
open C20x

let rec pos_of_bits = function
  | [] -> failwith "pos" | [true] -> XH
  | b :: r -> if b then XI (pos_of_bits r) else XO (pos_of_bits r)

let z_of_hex s : z =
  let bits = ref [] in
  String.iter (fun c ->
    let d = match c with
      | '0'..'9' -> Char.code c - 48 | 'a'..'f' -> Char.code c - 87 | 'A'..'F' -> Char.code c - 55
      | _ -> failwith "bad hex" in
    bits := ((d land 1) <> 0) :: ((d land 2) <> 0) :: ((d land 4) <> 0) :: ((d land 8) <> 0) :: !bits) s;
  let rec strip l = match l with [] -> [] | x :: r -> (match strip r with [] -> if x then [true] else [] | r' -> x :: r') in
  match strip !bits with [] -> Z0 | l -> Zpos (pos_of_bits l)

let rec bits_of_pos = function XH -> [true] | XO p -> false :: bits_of_pos p | XI p -> true :: bits_of_pos p

let hex_of_z (v : z) =
  match v with
  | Z0 -> "0" | Zneg _ -> "NEG"
  | Zpos p ->
    let bits = Array.of_list (bits_of_pos p) in
    let n = Array.length bits in
    let nd = (n + 3) / 4 in
    let b = Buffer.create nd in
    for i = nd - 1 downto 0 do
      let d = ref 0 in
      for j = 3 downto 0 do
        let k = 4 * i + j in
        d := !d * 2 + (if k < n && bits.(k) then 1 else 0)
      done;
      Buffer.add_char b "0123456789abcdef".[!d]
    done;
    Buffer.contents b

let n_of_int i = if i = 0 then N0 else Npos (match z_of_hex (Printf.sprintf "%x" i) with Zpos p -> p | _ -> XH)
let opcode_of_int i = match opcode_of_num (n_of_int i) with Some o -> o | None -> failwith "opcode"
let bool01 b = if b then "1" else "0"
let rec int_of_nat = function O -> 0 | S n -> 1 + int_of_nat n

let rec find_row op = function
  | [] -> None
  | (o, s) :: r -> if opcode_num o = opcode_num op then Some s else find_row op r

let words s = List.filter (fun x -> x <> "") (String.split_on_char ' ' (String.trim s))

let answer line =
  match words line with
  | "mrow" :: o :: args ->
    let op = opcode_of_int (int_of_string o) in
    (match find_row op mir2c_table with
     | None -> "NOROW"
     | Some stmts ->
       let env = env_of (List.map z_of_hex args) in
       (match stmts with
        | [s] ->
          (match stmt_value env s, stmt_branch env s, stmt_ovfb env s with
           | Some v, _, _ -> "S " ^ hex_of_z v
           | None, Some b, _ -> "B " ^ bool01 b
           | None, None, Some (((v, fv), fl), _) -> Printf.sprintf "O %s %d %s" (hex_of_z v) (int_of_nat fv) (bool01 fl)
           | None, None, None -> "N")
        | _ ->
          let parts = List.map (fun s -> match stmt_ovfb env s with
              | Some (((v, fv), fl), _) -> Printf.sprintf "%s %d %s" (hex_of_z v) (int_of_nat fv) (bool01 fl)
              | None -> "N") stmts in
          "O " ^ String.concat " " parts))
  | ["mrowok"; o] ->
    let op = opcode_of_int (int_of_string o) in
    (match find_row op mir2c_table with None -> "NOROW" | Some s -> bool01 (m2c_row_ok op s))
  | [] -> ""
  | _ -> "?"

let () =
  try
    while true do
      let line = input_line stdin in
      print_endline (try answer line with Failure m -> "ERR " ^ m)
    done
  with End_of_file -> ()

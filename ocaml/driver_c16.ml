(* Runs C16 protocol requests on the model extracted from Coq (c16x.ml).
   input : P init=<F> script=<edits>          (tokens as printed by harness/c16_regen.c)
   output: dup=<F> work=<F> final=<F> closed=<0|1>
   F = insns/origs/vars/ovn/lrefs/gvars/regtab ; regtab = name.number by number ; insn = id.L.payload.r,r.D (D: insn->data != NULL) ; lref = lab,lab2,orig,orig2 (-1 = none) *)
open C16x

let rec nat_of_int n = if n <= 0 then O else S (nat_of_int (n - 1))
let rec int_of_nat = function O -> 0 | S n -> 1 + int_of_nat n

let z_of_hex (s : string) : z =
  let bits = ref [] in
  String.iter (fun c ->
    let v = match c with
      | '0'..'9' -> Char.code c - 48 | 'a'..'f' -> Char.code c - 87 | 'A'..'F' -> Char.code c - 55
      | _ -> failwith ("bad hex: " ^ s) in
    bits := !bits @ [v land 8 <> 0; v land 4 <> 0; v land 2 <> 0; v land 1 <> 0]) s;
  let rec strip = function false :: r -> strip r | l -> l in
  match strip !bits with
  | [] -> Z0
  | _ :: rest -> Zpos (List.fold_left (fun p b -> if b then XI p else XO p) XH rest)

let hex_of_z (x : z) : string =
  match x with
  | Z0 -> "0"
  | Zneg _ -> "NEG"
  | Zpos p ->
    let rec bits = function XH -> [true] | XO q -> false :: bits q | XI q -> true :: bits q in
    let l = bits p in
    let rec nibbles = function
      | [] -> []
      | l ->
        let take i = match List.nth_opt l i with Some true -> 1 lsl i | _ -> 0 in
        let v = take 0 + take 1 + take 2 + take 3 in
        let rec drop n l = if n = 0 then l else match l with [] -> [] | _ :: r -> drop (n - 1) r in
        v :: nibbles (drop 4 l) in
    String.concat "" (List.rev_map (fun v -> Printf.sprintf "%x" v) (nibbles l))

let split c s = if s = "" then [] else String.split_on_char c s
let ints s = List.map int_of_string (split ',' s)

let parse_insn (s : string) : insn =
  match String.split_on_char '.' s with
  | [id; l; pl; rs; d] ->
    { iid = nat_of_int (int_of_string id); is_label = (l = "1"); payload = z_of_hex pl;
      refs = List.map nat_of_int (ints rs); idata = (d = "1") }
  | _ -> failwith ("bad insn: " ^ s)

let opt_nat n = if n < 0 then None else Some (nat_of_int n)

let parse_lref (s : string) : lref =
  match ints s with
  | [a; b; c; d] ->
    { l_label = nat_of_int a; l_label2 = opt_nat b; l_orig = opt_nat c;
      (* orig_label2 is NULL both when cleared and when label2 was NULL: outside generation = cleared *)
      l_orig2 = (if d < 0 then None else Some (opt_nat d)) }
  | _ -> failwith ("bad lref: " ^ s)

let parse_func (s : string) : func =
  match String.split_on_char '/' s with
  | [ins; orig; vars; ovn; lrefs; gvs; tab] ->
    let il = List.map parse_insn (split ':' ins) in
    let vs = List.map z_of_hex (split ',' vars) in
    let entry e = match String.split_on_char '.' e with
      | [nm; n] -> (z_of_hex nm, nat_of_int (int_of_string n))
      | _ -> failwith ("bad regtab entry: " ^ e) in
    { insns = il; original_insns = List.map parse_insn (split ':' orig); vars = vs;
      original_vars_num = nat_of_int (int_of_string ovn);
      gvars = List.map z_of_hex (split ',' gvs); regtab = List.map entry (split ',' tab);
      lrefs = List.map parse_lref (split ':' lrefs); next_id = nat_of_int (List.length il);
      machine_code = None; call_addr = None; faddr = Z0 }
  | _ -> failwith ("bad func: " ^ s)

let parse_edit (s : string) : edit option =
  if s = "" || s = "N" then None
  else
    let body = String.sub s 1 (String.length s - 1) in
    let f = String.split_on_char '.' body in
    match s.[0], f with
    | 'I', [pos; l; pl; rs] ->
      Some (EInsert (nat_of_int (int_of_string pos), l = "1", z_of_hex pl, List.map nat_of_int (ints rs)))
    | 'R', [pos] -> Some (ERemove (nat_of_int (int_of_string pos)))
    | 'W', [pos; pl; rs] -> Some (ERewrite (nat_of_int (int_of_string pos), z_of_hex pl, List.map nat_of_int (ints rs)))
    | 'M', [a; b] -> Some (EMove (nat_of_int (int_of_string a), nat_of_int (int_of_string b)))
    | 'V', [nm] -> Some (EAddVar (z_of_hex nm))
    | 'T', [k; a; b] -> Some (ERetarget (nat_of_int (int_of_string k), nat_of_int (int_of_string a), opt_nat (int_of_string b)))
    | _ -> failwith ("bad edit: " ^ s)

let show_insns l =
  String.concat ":" (List.map (fun i ->
    Printf.sprintf "%d.%d.%s.%s.%d" (int_of_nat i.iid) (if i.is_label then 1 else 0) (hex_of_z i.payload)
      (String.concat "," (List.map (fun r -> string_of_int (int_of_nat r)) i.refs)) (if i.idata then 1 else 0)) l)

let show_opt = function None -> "-1" | Some n -> string_of_int (int_of_nat n)

let show_func (f : func) =
  let tab = List.sort (fun (_, a) (_, b) -> compare a b) (List.map (fun (nm, n) -> (nm, int_of_nat n)) f.regtab) in
  Printf.sprintf "%s/%s/%s/%d/%s/%s/%s" (show_insns f.insns) (show_insns f.original_insns)
    (String.concat "," (List.map hex_of_z f.vars)) (int_of_nat f.original_vars_num)
    (String.concat ":" (List.map (fun l ->
       Printf.sprintf "%s,%s,%s,%s" (string_of_int (int_of_nat l.l_label)) (show_opt l.l_label2)
         (show_opt l.l_orig) (match l.l_orig2 with None -> "-1" | Some o -> show_opt o)) f.lrefs))
    (String.concat "," (List.map hex_of_z f.gvars))
    (String.concat "," (List.map (fun (nm, n) -> Printf.sprintf "%s.%d" (hex_of_z nm) n) tab))

let field line key =
  let k = key ^ "=" in
  let toks = List.filter (fun x -> x <> "") (String.split_on_char ' ' line) in
  match List.find_opt (fun t -> String.length t >= String.length k && String.sub t 0 (String.length k) = k) toks with
  | Some t -> String.sub t (String.length k) (String.length t - String.length k)
  | None -> failwith ("missing " ^ key)

let () =
  try
    while true do
      let line = input_line stdin in
      if String.length line = 0 then print_endline ""
      else begin
        try
          let f = parse_func (field line "init") in
          let script = List.filter_map parse_edit (String.split_on_char ';' (field line "script")) in
          let d = dup f in
          let w = mutate script d in
          let r = restore w in
          Printf.printf "dup=%s work=%s final=%s closed=%d\n" (show_func d) (show_func w) (show_func r)
            (if refs_closed d.insns then 1 else 0)
        with Failure m -> print_endline ("BAD " ^ m)
      end
    done
  with End_of_file -> ()

(* Runs C14 cases on the model extracted from Coq (c14x.ml).  Input: the case line of
   harness/c14_data.c followed by " @ idx:hexaddr ..." (the addresses the implementation reported,
   used as the allocator/thunk/link-environment oracle).  Output: the harness's line without the
   A part, except that a section prints as head:allocated/needed:bytes (needed = bytes the items
   occupy); unspecified bytes print as "??". *)
open C14x

let rec nat_of_int n = if n <= 0 then O else S (nat_of_int (n - 1))
let rec int_of_nat = function O -> 0 | S n -> 1 + int_of_nat n
let rec pos_of_int n = if n = 1 then XH else if n land 1 = 0 then XO (pos_of_int (n lsr 1)) else XI (pos_of_int (n lsr 1))
let z_of_int n = if n = 0 then Z0 else if n > 0 then Zpos (pos_of_int n) else Zneg (pos_of_int (-n))
let rec int_of_pos = function XH -> 1 | XO p -> 2 * int_of_pos p | XI p -> 2 * int_of_pos p + 1
let int_of_z = function Z0 -> 0 | Zpos p -> int_of_pos p | Zneg p -> - (int_of_pos p)

let z16 = z_of_int 16
let z_of_hex s =
  let acc = ref Z0 in
  String.iter (fun c ->
      let d = match c with
        | '0'..'9' -> Char.code c - 48 | 'a'..'f' -> Char.code c - 87 | 'A'..'F' -> Char.code c - 55
        | _ -> failwith ("bad hex " ^ s) in
      acc := Z.add (Z.mul !acc z16) (z_of_int d)) s;
  !acc

let words s = List.filter (fun x -> x <> "") (String.split_on_char ' ' (String.trim s))

let parse_ty = function
  | "i8" -> TI8 | "u8" -> TU8 | "i16" -> TI16 | "u16" -> TU16 | "i32" -> TI32 | "u32" -> TU32
  | "i64" -> TI64 | "u64" -> TU64 | "f" -> TF | "d" -> TD | "ld" -> TLD | "p" -> TP
  | s -> failwith ("bad type " ^ s)

let parse_nm s = if s = "-" then None else Some (nat_of_int (int_of_string s))

(* prefix expression; returns (expr, remaining tokens) *)
let rec parse_expr toks =
  match toks with
  | [] -> (EConst Z0, [])
  | t :: rest ->
    let arg = String.sub t 1 (String.length t - 1) in
    let bin f = let (a, r1) = parse_expr rest in let (b, r2) = parse_expr r1 in (f a b, r2) in
    let un f = let (a, r1) = parse_expr rest in (f a, r1) in
    let sh f = let (a, r1) = parse_expr rest in
      (match r1 with k :: r2 -> (f a (z_of_int (int_of_string k)), r2) | [] -> (f a Z0, [])) in
    match t with
    | "+" -> bin (fun a b -> EAdd (a, b)) | "-" -> bin (fun a b -> ESub (a, b))
    | "*" -> bin (fun a b -> EMul (a, b)) | "&" -> bin (fun a b -> EAnd (a, b))
    | "|" -> bin (fun a b -> EOr (a, b)) | "^" -> bin (fun a b -> EXor (a, b))
    | "n" -> un (fun a -> ENeg a)
    | "m" -> un (fun a -> ELoad a)
    | "<" -> sh (fun a k -> EShl (a, k)) | ">" -> sh (fun a k -> EShr (a, k)) | "]" -> sh (fun a k -> ESar (a, k))
    | _ ->
      (match t.[0] with
       | 'c' -> (EConst (z_of_hex arg), rest)
       | 'a' -> (EAddr (nat_of_int (int_of_string arg)), rest)
       | 'f' -> (EFlt (z_of_hex arg), rest)
       | 's' -> un (fun a -> EExt (z_of_int (int_of_string arg), a))
       | 'u' -> un (fun a -> EUext (z_of_int (int_of_string arg), a))
       | _ -> failwith ("bad expr token " ^ t))

let parse_item s =
  match words s with
  | [] -> None
  | "D" :: nm :: ty :: els :: _ ->
    let els = if els = "-" then [] else List.map z_of_hex (String.split_on_char ',' els) in
    Some (IData (parse_nm nm, parse_ty ty, els))
  | "B" :: nm :: len :: _ -> Some (IBss (parse_nm nm, nat_of_int (int_of_string len)))
  | "R" :: nm :: t :: d :: _ -> Some (IRef (parse_nm nm, nat_of_int (int_of_string t), z_of_hex d))
  | "L" :: nm :: l1 :: l2 :: d :: _ | "M" :: nm :: l1 :: l2 :: d :: _ ->   (* M: lref to the labels of the H function *)
    Some (ILref (parse_nm nm, nat_of_int (int_of_string l1),
                 (if l2 = "-" then None else Some (nat_of_int (int_of_string l2))), z_of_hex d))
  | "E" :: nm :: f :: _ -> Some (IExpr (parse_nm nm, nat_of_int (int_of_string f)))
  | "F" :: ty :: e -> Some (IFunc (parse_ty ty, fst (parse_expr e)))
  | "G" :: _ | "H" :: _ -> Some IGFunc
  | "Oi" :: _ | "Oe" :: _ -> Some (IOther OImport)   (* Oe: import of a function linked in an earlier round *)
  | "Op" :: _ -> Some (IOther OProto)
  | "Of" :: d :: _ | "Ox" :: d :: _ -> Some (IOther (OAlias (nat_of_int (int_of_string d))))
  | _ -> failwith ("bad item: " ^ s)

let run_case line =
  let case, oracle = match String.index_opt line '@' with
    | Some i -> String.sub line 0 i, String.sub line (i + 1) (String.length line - i - 1)
    | None -> line, "" in
  let colon = String.index case ':' in
  let body = String.sub case (colon + 1) (String.length case - colon - 1) in
  let raw = List.filter (fun s -> String.trim s <> "") (String.split_on_char ';' body) in
  let items = List.filter_map parse_item raw in
  let has_g = List.exists (fun s -> match words s with "G" :: _ -> true | _ -> false) raw in
  let is_lab w = String.length w > 0 && (w.[0] = 'L' || w.[0] = 'K' || w.[0] = 'W') in
  let addrs = List.filter_map (fun w ->
      match String.split_on_char ':' w with
      | [i; a] when not (is_lab i) -> Some (int_of_string i, z_of_hex a)
      | _ -> None) (words oracle) in
  let labs = List.filter_map (fun w ->
      match String.split_on_char ':' w with
      | [i; a] when is_lab i && i.[0] = 'L' -> Some (int_of_string (String.sub i 1 (String.length i - 1)), z_of_hex a)
      | _ -> None) (words oracle) in
  (* K<idx>:a1:a2 = the label addresses of lref item idx (labels of one place may carry different addresses: the
     harness names the pair that is meant); the item's labels are renamed to 1000+2*idx, 1001+2*idx *)
  let kaddrs = List.filter_map (fun w ->
      match String.split_on_char ':' w with
      | [i; a1; a2] when String.length i > 1 && i.[0] = 'K' ->
        Some (int_of_string (String.sub i 1 (String.length i - 1)), (z_of_hex a1, z_of_hex a2))
      | _ -> None) (words oracle) in
  let items = List.mapi (fun i it -> match it with
      | ILref (nm, _, l2, d) when List.mem_assoc i kaddrs ->
        ILref (nm, nat_of_int (1000 + 2 * i), (match l2 with None -> None | Some _ -> Some (nat_of_int (1001 + 2 * i))), d)
      | _ -> it) items in
  let base n = try List.assoc (int_of_nat n) addrs with Not_found -> Z0 in
  let lab n =
    let n = int_of_nat n in
    if n >= 1000 then (try let (a1, a2) = List.assoc ((n - 1000) / 2) kaddrs in if n land 1 = 0 then a1 else a2 with Not_found -> Z0)
    else (try List.assoc n labs with Not_found -> Z0) in
  let lay = layout items in
  let b = Buffer.create 1024 in
  (* two functions with labels (G, H): the model's rule "an lref needs a function holding its labels" per function:
     L names labels of G, M labels of H *)
  let has w = List.exists (fun s -> match words s with x :: _ -> x = w | _ -> false) raw in
  let orphan = (has "M" && not (has "H")) || (has "L" && has "H" && not (has "G")) in
  match (if orphan then Some EWrongLref else load_check items) with
  | Some EBinaryIO -> print_endline "E:binary_io"
  | Some EWrongLref -> print_endline "E:wrong_lref"
  | None ->
  Buffer.add_string b "ok P";
  List.iteri (fun i p -> match p with
      | Some pl -> Buffer.add_string b (Printf.sprintf " %d@%d+%d" i (int_of_nat pl.p_head) (int_of_nat pl.p_off))
      | None -> ()) lay;
  Buffer.add_string b " S";
  List.iteri (fun i p -> match p with
      | Some pl when int_of_nat pl.p_head = i ->
        let h = nat_of_int i in
        let alloc = int_of_nat (sec_alloc items h) in
        let img = image base lab items h in
        Buffer.add_string b (Printf.sprintf " %d:%d/%d:" i alloc (List.length img));
        let n = ref 0 in
        List.iter (fun c -> incr n; match c with
            | Some z -> Buffer.add_string b (Printf.sprintf "%02x" (int_of_z z))
            | None -> Buffer.add_string b "??") img;
        for _ = !n + 1 to alloc do Buffer.add_string b "??" done
      | _ -> ()) lay;
  if has_g then begin
    Buffer.add_string b " J:ok LR";
    List.iteri (fun i it -> match it with
        | ILref _ -> Buffer.add_string b (Printf.sprintf " %d:ok" i)
        | _ -> ()) items;
    (* label addresses: the body of G's label part in the model of C14/Labels.v (a label emits no code); labels the
       model gives one address -- in particular a label and its last_label -- must have got one address from laddr.
       Only for engines that emit no alignment padding between labels: interpreter, generator at -O0, lazy-BB stubs. *)
    let gtoks = List.concat_map (fun s -> match words s with "G" :: t -> [t] | _ -> []) raw in
    let shape = match gtoks with [] :: _ | [] -> ["r"; "r"; "r"] | t :: _ -> t in
    let body = List.concat (List.mapi (fun k t ->
        let tgt () = nat_of_int (Char.code t.[1] - 48) in
        LLabel (nat_of_int k) :: (match t.[0] with
            | 'r' | 'n' | 'b' | 's' -> [LCode (nat_of_int 1)]
            | 'i' -> [LCode (nat_of_int 2)]
            | 'j' -> [LJmp (tgt ())]
            | _ -> [])) shape) @ [LCode (nat_of_int 1)] in
    let raws = List.filter_map (fun w ->
        match String.split_on_char ':' w with
        | [i; a] when String.length i > 1 && i.[0] = 'W' -> Some (int_of_string (String.sub i 1 (String.length i - 1)), a)
        | _ -> None) (words oracle) in
    let engine = String.trim (String.sub case 0 colon) in
    let exact = engine = "i" || engine = "g0" || engine = "l0" || (String.length engine > 0 && engine.[0] = 'b') in
    let n = List.length shape in
    let bad = ref "" in
    if exact && List.length raws = n then
      for k = 0 to n - 1 do
        let ll = int_of_nat (last_label body (nat_of_int k)) in
        let same_model = label_addr body (nat_of_int ll) = label_addr body (nat_of_int k) in
        (* the theorem last_label_same_address, re-checked on the extracted functions, and the implementation *)
        if not same_model then bad := Printf.sprintf "model(%d)" k
        else if List.assoc ll raws <> List.assoc k raws && !bad = "" then bad := Printf.sprintf "%d<>%d" k ll
      done;
    Buffer.add_string b (if !bad = "" then " LA:ok" else " LA:bad(" ^ !bad ^ ")")
  end;
  print_endline (Buffer.contents b)

let () =
  try
    while true do
      let line = input_line stdin in
      if String.trim line = "" || line.[0] = '#' then print_endline ""
      else if line.[0] = 'T' then
        print_endline ("sizes " ^ String.concat " " (List.map (fun t -> string_of_int (int_of_nat (tsize t)))
                                                        [TI8; TU8; TI16; TU16; TI32; TU32; TI64; TU64; TF; TD; TLD; TP]))
      else (try run_case line with Failure m -> print_endline ("modelerror " ^ m))
    done
  with End_of_file -> ()

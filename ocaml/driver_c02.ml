(* C02/C20 oracle driver: evaluates the extracted DocSpec (and the regenerated table rows) on request.
   Numbers cross as hexadecimal strings (two's complement is the caller's business: all values are
   non-negative patterns).  One request per line, one answer per line. *)
open C02x

let rec pos_of_bits = function   (* little-endian bit list, last bit is 1 *)
  | [] -> failwith "pos"
  | [true] -> XH
  | b :: r -> if b then XI (pos_of_bits r) else XO (pos_of_bits r)

let z_of_hex s : z =
  let bits = ref [] in
  String.iter (fun c ->
    let d = match c with
      | '0'..'9' -> Char.code c - 48 | 'a'..'f' -> Char.code c - 87 | 'A'..'F' -> Char.code c - 55
      | _ -> failwith ("bad hex " ^ s) in
    bits := ((d land 1) <> 0) :: ((d land 2) <> 0) :: ((d land 4) <> 0) :: ((d land 8) <> 0) :: !bits) s;
  (* !bits is little-endian now (we consed most significant digits first, each digit lsb first) *)
  let rec strip l = match l with [] -> [] | x :: r -> (match strip r with [] -> if x then [true] else [] | r' -> x :: r') in
  match strip !bits with [] -> Z0 | l -> Zpos (pos_of_bits l)

let rec bits_of_pos = function XH -> [true] | XO p -> false :: bits_of_pos p | XI p -> true :: bits_of_pos p

let hex_of_z (v : z) =
  match v with
  | Z0 -> "0"
  | Zneg _ -> "NEG"
  | Zpos p ->
    let bits = Array.of_list (bits_of_pos p) in
    let n = Array.length bits in
    let nd = (n + 3) / 4 in
    let b = Buffer.create nd in
    for i = nd - 1 downto 0 do
      let d = ref 0 in
      for j = 3 downto 0 do
        let k = 4 * i + j in
        d := !d * 2 + (if k < n && bits.(k) then 1 else 0)
      done;
      Buffer.add_char b "0123456789abcdef".[!d]
    done;
    Buffer.contents b

let rec n_of_int i = if i = 0 then N0 else Npos (match z_of_hex (Printf.sprintf "%x" i) with Zpos p -> p | _ -> XH)
let opcode_of_int i = match opcode_of_num (n_of_int i) with Some o -> o | None -> failwith "opcode"

let kind_char = function Some KI -> "i" | Some KF -> "f" | Some KD -> "d" | Some KLD -> "l" | None -> "-"
let mtype_of = function
  | "i8" -> T_I8 | "u8" -> T_U8 | "i16" -> T_I16 | "u16" -> T_U16 | "i32" -> T_I32 | "u32" -> T_U32
  | "i64" -> T_I64 | "u64" -> T_U64 | "f" -> T_F | "d" -> T_D | "ld" -> T_LD | "p" -> T_P
  | s -> failwith ("mtype " ^ s)

let bool01 b = if b then "1" else "0"
let opt_flag = function None -> "-" | Some b -> bool01 b

let rec find_row op = function
  | [] -> None
  | (o, s) :: r -> if opcode_num o = opcode_num op then Some s else find_row op r

let words s = List.filter (fun x -> x <> "") (String.split_on_char ' ' (String.trim s))

let answer line =
  match words line with
  | ["info"; o] ->
    let op = opcode_of_int (int_of_string o) in
    let (sd, ud) = ovf_defined op in
    Printf.sprintf "res=%s args=%s mask=%s doc=%s ovfdef=%s%s"
      (kind_char (res_kind op)) (String.concat "" (List.map (fun k -> kind_char (Some k)) (arg_kinds op)))
      (hex_of_z (res_mask op)) (bool01 (has_doc_sem op)) (bool01 sd) (bool01 ud)
  | "sem" :: o :: args ->
    (match doc_sem (opcode_of_int (int_of_string o)) (List.map z_of_hex args) with
     | Some v -> "S " ^ hex_of_z v | None -> "N")
  | "ldsem" :: o :: args ->     (* conversions from / to long double (Mir/DocSpecLD.v); Q = the documented result is a NaN *)
    (match doc_sem_ld (opcode_of_int (int_of_string o)) (List.map z_of_hex args) with
     | Some v -> "S " ^ hex_of_z v | None -> "N")
  | ["ldnan"; a] -> bool01 (ld_is_nan (z_of_hex a))
  | "br" :: o :: args ->
    (match doc_branch (opcode_of_int (int_of_string o)) (List.map z_of_hex args) with
     | Some b -> "B " ^ bool01 b | None -> "N")
  | "ovf" :: o :: args ->
    (match doc_ovf (opcode_of_int (int_of_string o)) (List.map z_of_hex args) with
     | Some ((v, s), u) -> Printf.sprintf "O %s %s %s" (hex_of_z v) (bool01 s) (bool01 u) | None -> "N")
  | ["obr"; o; s; u] ->
    (match doc_ovf_branch (opcode_of_int (int_of_string o)) (s = "1") (u = "1") with
     | Some b -> "B " ^ bool01 b | None -> "N")
  | ["eqv"; o; a; b] -> bool01 (eqv (opcode_of_int (int_of_string o)) (z_of_hex a) (z_of_hex b))
  | ["ld"; ty; pat] ->
    (* pat = the cell contents as a little-endian number *)
    let t = mtype_of ty in
    let v = z_of_hex pat in
    let rec bytes n v = if n = 0 then [] else
        (match z_of_hex (let h = hex_of_z v in let l = String.length h in if l <= 2 then h else String.sub h (l - 2) 2) with b ->
           b :: bytes (n - 1) (z_of_hex (let h = hex_of_z v in let l = String.length h in if l <= 2 then "0" else String.sub h 0 (l - 2)))) in
    "V " ^ hex_of_z (load_ext t (bytes 16 v))
  | ["st"; ty; v] ->
    let bs = store_trunc (mtype_of ty) (z_of_hex v) in
    "Y " ^ String.concat "" (List.map (fun b -> let h = hex_of_z b in if String.length h = 1 then "0" ^ h else h) bs)
  | "irow" :: o :: args ->
    let op = opcode_of_int (int_of_string o) in
    (match find_row op interp_table with
     | None -> "NOROW"
     | Some s ->
       let env = env_of (List.map z_of_hex args) in
       (match stmt_value env s, stmt_branch env s with
        | Some v, _ -> "S " ^ hex_of_z v
        | None, Some b -> "B " ^ bool01 b
        | None, None -> "N"))
  | "grow" :: o :: args ->
    let op = opcode_of_int (int_of_string o) in
    let rec find = function [] -> None | ((o', _), s) :: r -> if opcode_num o' = opcode_num op then Some s else find r in
    (match find gvn_table with
     | None -> "NOROW"
     | Some s ->
       let env = env_of (List.map z_of_hex args) in
       (match stmt_value env s, stmt_branch env s with
        | Some v, _ -> "S " ^ hex_of_z v
        | None, Some b -> "B " ^ bool01 b
        | None, None -> "N"))
  | ["irowok"; o] ->
    let op = opcode_of_int (int_of_string o) in
    (match find_row op interp_table with None -> "NOROW" | Some s -> bool01 (row_ok op s))
  | [] -> ""
  | _ -> "?"

let () =
  try
    while true do
      let line = input_line stdin in
      print_endline (try answer line with Failure m -> "ERR " ^ m)
    done
  with End_of_file -> ()

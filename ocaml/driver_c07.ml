(* Runs C07 queries on the models extracted from Coq (c07x.ml): c2mir's conversions / constant
   folder (CConv, CFold; "c2m" columns) and the C11 specification (C11Conv, C11Fold; "c11" columns).
   Numbers are hex (possibly negative).  Lines:
     conv <ta> <tb>                 -> c2m <t> c11 <t>
     prom <t>                       -> c2m <t> c11 <t>
     lit <d|x|o> <sfx|-> <hex>      -> c2m <t> c11 <t|none>
     bin <op> <ta> <va> <tb> <vb>   -> c2m <t> <v> | err     c11 <t> <v> | undef
     un <op> <ta> <va>              -> c2m <t> <v>           c11 <t> <v> | undef
     cast <t> <ta> <va>             -> c2m <t> <v>           c11 <t> <v>
     cond <tc> <vc> <ta> <va> <tb> <vb>
     land|lor <ta> <va> <tb> <vb>
     bf <ubits> <usigned 0|1> <boff> <bwid> <bsigned 0|1> <bool 0|1> <unit> <value>
                                    -> bf <new unit> <assignment value> <read back> <c11 conversion> | bf illformed
     bfcode <ubits> <usigned> <boff> <bwid> <bsigned>
                                    -> store: <insn>|<insn>... ; result rN ; load: <insn>|...
     fbin <op> <ta> <va> <tb> <vb> | fun <op> <ta> <va> | fcast <t> <ta> <va> | fcond <tc> <vc> <ta> <va> <tb> <vb>
     fland|flor <ta> <va> <tb> <vb>   (FFold: floating and mixed operands)
                                    -> c2m <t> <v> | err     c11 <t> <v> | undef
       a floating operand value is <+|-><hex mantissa>p<decimal exponent> | <+|->inf | nan; a floating result is
       fin:<0|1>:<hex mantissa>:<decimal exponent> | zero:<0|1> | inf:<0|1> | nan
   A leading word "old" selects the pre-fix model (q_conv_old, q_boolcast; for the f-queries q_ext). *)
open C07x

let rec pos_of_bits (s : string) (i : int) (acc : positive option) : positive option =
  if i >= String.length s then acc
  else
    let b = s.[i] = '1' in
    let acc' = match acc with
      | None -> if b then Some XH else None
      | Some p -> Some (if b then XI p else XO p) in
    pos_of_bits s (i + 1) acc'

let bits_of_hex (h : string) : string =
  let b = Buffer.create 64 in
  String.iter (fun c ->
    let v = match c with
      | '0'..'9' -> Char.code c - 48
      | 'a'..'f' -> Char.code c - 87
      | 'A'..'F' -> Char.code c - 55
      | _ -> failwith ("bad hex digit in " ^ h) in
    for k = 3 downto 0 do Buffer.add_char b (if (v lsr k) land 1 = 1 then '1' else '0') done) h;
  Buffer.contents b

let z_of_hex (s : string) : z =
  let neg = String.length s > 0 && s.[0] = '-' in
  let h = if neg then String.sub s 1 (String.length s - 1) else s in
  match pos_of_bits (bits_of_hex h) 0 None with
  | None -> Z0
  | Some p -> if neg then Zneg p else Zpos p

let hex_of_pos (p : positive) : string =
  let rec lsb_first p = match p with
    | XH -> [1]
    | XO q -> 0 :: lsb_first q
    | XI q -> 1 :: lsb_first q in
  let bits = Array.of_list (lsb_first p) in
  let n = Array.length bits in
  let nd = (n + 3) / 4 in
  let b = Buffer.create nd in
  for d = nd - 1 downto 0 do
    let v = ref 0 in
    for k = 3 downto 0 do
      let i = d * 4 + k in
      v := !v * 2 + (if i < n then bits.(i) else 0)
    done;
    Buffer.add_char b "0123456789abcdef".[!v]
  done;
  Buffer.contents b

let hex_of_z = function
  | Z0 -> "0"
  | Zpos p -> hex_of_pos p
  | Zneg p -> "-" ^ hex_of_pos p

let names = [ ("bool", TBool); ("char", TChar); ("schar", TSChar); ("uchar", TUChar); ("short", TShort);
              ("ushort", TUShort); ("int", TInt); ("uint", TUInt); ("long", TLong); ("ulong", TULong);
              ("llong", TLLong); ("ullong", TULLong); ("float", TFloat); ("double", TDouble);
              ("ldouble", TLDouble) ]
let ty s = try List.assoc s names with Not_found -> failwith ("type " ^ s)
let tn t = fst (List.find (fun (_, u) -> u = t) names)

let binop = function
  | "+" -> CAdd | "-" -> CSub | "*" -> CMul | "/" -> CDiv | "%" -> CMod | "&" -> CAnd | "|" -> COr
  | "^" -> CXor | "<<" -> CShl | ">>" -> CShr | "==" -> CEq | "!=" -> CNe | "<" -> CLt | "<=" -> CLe
  | ">" -> CGt | ">=" -> CGe | s -> failwith ("binop " ^ s)
let unop = function "+" -> CPlus | "-" -> CNeg | "~" -> CBnot | "!" -> CLnot | s -> failwith ("unop " ^ s)

let rec int_of_nat = function O -> 0 | S n -> 1 + int_of_nat n
let dec_of_z z =   (* decimal text of a non-negative z < 2^64, as c2m -S prints immediates *)
  let h = hex_of_z z in
  if String.length h > 0 && h.[0] = '-' then "-" ^ h else Printf.sprintf "%Lu" (Int64.of_string ("0x" ^ h))
let bfield s us o w sg = { ubits = z_of_hex s; usigned = (us = "1"); boff = z_of_hex o; bwid = z_of_hex w; bsigned = (sg = "1") }
let opnd = function R n -> Printf.sprintf "r%d" (int_of_nat n) | Imm z -> dec_of_z z | Val -> "val"
let opname = function OAnd -> "and" | OOr -> "or" | OLsh -> "lsh" | ORsh -> "rsh" | OUrsh -> "ursh"
let insn_text = function
  | ILoad d -> Printf.sprintf "mov r%d unit" (int_of_nat d)
  | IMov (d, a) -> Printf.sprintf "mov r%d %s" (int_of_nat d) (opnd a)
  | IBin (o, d, a, b) -> Printf.sprintf "%s r%d %s %s" (opname o) (int_of_nat d) (opnd a) (opnd b)
  | IBinSt (o, a, b) -> Printf.sprintf "%s unit %s %s" (opname o) (opnd a) (opnd b)

let cv t v = { ct = ty t; cv = z_of_hex v }
let show c = Printf.sprintf "%s %s" (tn c.ct) (hex_of_z c.cv)

let is_fp t = (t = "float" || t = "double" || t = "ldouble")
let dec_z (s : string) : z =      (* decimal exponent, possibly negative *)
  let n = int_of_string s in
  z_of_hex (if n < 0 then Printf.sprintf "-%x" (-n) else Printf.sprintf "%x" n)
let rec dec_of_zint (z : z) : int = match z with
  | Z0 -> 0
  | Zpos p -> int_of_string ("0x" ^ hex_of_pos p)
  | Zneg p -> - (int_of_string ("0x" ^ hex_of_pos p))
let av t v : acv =
  if not (is_fp t) then { aty = ty t; avl = AI (z_of_hex v) }
  else begin
    let neg = v.[0] = '-' in
    let body = if v.[0] = '-' || v.[0] = '+' then String.sub v 1 (String.length v - 1) else v in
    let x =
      if body = "nan" then fp_nan (ty t)
      else if body = "inf" then fp_inf (ty t) neg
      else match String.split_on_char 'p' body with
        | [m; e] -> fp_make (ty t) neg (z_of_hex m) (dec_z e)
        | _ -> failwith ("bad floating value " ^ v) in
    { aty = ty t; avl = AF x }
  end
let b01 b = if b then "1" else "0"
let ashow (c : acv) =
  match c.avl with
  | AI z -> Printf.sprintf "%s %s" (tn c.aty) (hex_of_z z)
  | AF x ->
    let v = match fp_view x with
      | VZero s -> "zero:" ^ b01 s
      | VInf s -> "inf:" ^ b01 s
      | VNan -> "nan"
      | VFin (s, m, e) -> Printf.sprintf "fin:%s:%s:%d" (b01 s) (hex_of_pos m) (dec_of_zint e) in
    (* the value's own format must be the format of the type *)
    if tn (fp_type x) <> tn c.aty then failwith "floating value of another format than its type"
    else Printf.sprintf "%s %s" (tn c.aty) v
let oshow none = function Some c -> ashow c | None -> none

let () =
  try
    while true do
      let line = input_line stdin in
      let ws = List.filter (fun x -> x <> "") (String.split_on_char ' ' (String.trim line)) in
      let old, ws = match ws with "old" :: r -> (true, r) | _ -> (false, ws) in
      let out = match ws with
        | [] -> ""
        | ["conv"; a; b] ->
          Printf.sprintf "c2m %s c11 %s" (tn (arithmetic_conversion old (ty a) (ty b))) (tn (c11_conv (ty a) (ty b)))
        | ["prom"; a] ->
          Printf.sprintf "c2m %s c11 %s" (tn (integer_promotion (ty a))) (tn (c11_promote (ty a)))
        | ["lit"; r; sfx; v] ->
          let has c = String.contains sfx c in
          let nl = String.fold_left (fun n c -> if c = 'l' || c = 'L' then n + 1 else n) 0 sfx in
          let dec = (r = "d") and uns = has 'u' || has 'U' in
          let lc = z_of_hex (string_of_int nl) in
          let z = z_of_hex v in
          Printf.sprintf "c2m %s c11 %s" (tn (const_type dec uns lc z))
            (match c11_const_type dec uns lc z with Some t -> tn t | None -> "none")
        | ["bin"; o; ta; va; tb; vb] ->
          let a = cv ta va and b = cv tb vb in
          let f = match fold_bin old old (binop o) a b with Some c -> show c | None -> "err" in
          let r = match rt_bin (binop o) a b with Some c -> show c | None -> "undef" in
          Printf.sprintf "c2m %s c11 %s" f r
        | ["un"; o; ta; va] ->
          let a = cv ta va in
          let r = match rt_un (unop o) a with Some c -> show c | None -> "undef" in
          Printf.sprintf "c2m %s c11 %s" (show (fold_un old (unop o) a)) r
        | ["cast"; t; ta; va] ->
          let a = cv ta va in
          Printf.sprintf "c2m %s c11 %s" (show (fold_cast old (ty t) a)) (show (rt_cast (ty t) a))
        | ["cond"; tc; vc; ta; va; tb; vb] ->
          let c = cv tc vc and a = cv ta va and b = cv tb vb in
          Printf.sprintf "c2m %s c11 %s" (show (fold_cond old old c a b)) (show (rt_cond c a b))
        | ["land"; ta; va; tb; vb] ->
          let a = cv ta va and b = cv tb vb in
          Printf.sprintf "c2m %s c11 %s" (show (fold_andand old a b)) (show (rt_andand a b))
        | ["lor"; ta; va; tb; vb] ->
          let a = cv ta va and b = cv tb vb in
          Printf.sprintf "c2m %s c11 %s" (show (fold_oror old a b)) (show (rt_oror a b))
        | ["fbin"; o; ta; va; tb; vb] ->
          let a = av ta va and b = av tb vb in
          Printf.sprintf "c2m %s c11 %s" (oshow "err" (ffold_bin old (binop o) a b)) (oshow "undef" (rt_fbin (binop o) a b))
        | ["fun"; o; ta; va] ->
          let a = av ta va in
          Printf.sprintf "c2m %s c11 %s" (oshow "err" (ffold_un (unop o) a)) (oshow "undef" (rt_fun (unop o) a))
        | ["fcast"; t; ta; va] ->
          let a = av ta va in
          Printf.sprintf "c2m %s c11 %s" (oshow "err" (ffold_cast (ty t) a)) (oshow "undef" (rt_fcast (ty t) a))
        | ["fcond"; tc; vc; ta; va; tb; vb] ->
          let c = av tc vc and a = av ta va and b = av tb vb in
          Printf.sprintf "c2m %s c11 %s" (oshow "err" (ffold_cond c a b)) (oshow "undef" (rt_fcond c a b))
        | ["fland"; ta; va; tb; vb] ->
          let a = av ta va and b = av tb vb in
          Printf.sprintf "c2m %s c11 %s" (oshow "err" (ffold_andand a b)) (ashow (rt_fandand a b))
        | ["flor"; ta; va; tb; vb] ->
          let a = av ta va and b = av tb vb in
          Printf.sprintf "c2m %s c11 %s" (oshow "err" (ffold_oror a b)) (ashow (rt_foror a b))
        | ["bf"; s; us; o; w; sg; bl; u; v] ->
          let f = bfield s us o w sg in
          if not (wf_bf f) then "bf illformed" else begin
            let v = z_of_hex v in
            let v = if bl = "1" then m_ne0 v else v in
            let (nu, av) = bf_store f (z_of_hex u) v in
            Printf.sprintf "bf %s %s %s %s" (hex_of_z nu) (hex_of_z av) (hex_of_z (bf_load f nu)) (hex_of_z (c11_conv_bf f v))
          end
        | ["bfcode"; s; us; o; w; sg] ->
          let f = bfield s us o w sg in
          Printf.sprintf "store: %s ; result r%d ; load: %s"
            (String.concat "|" (List.map insn_text (store_code f))) (int_of_nat (store_result f))
            (String.concat "|" (List.map insn_text (load_code f)))
        | w :: _ -> failwith ("bad query " ^ w) in
      print_endline out
    done
  with End_of_file -> ()

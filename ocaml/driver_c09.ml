(* Runs #if expressions on the models extracted from Coq (c09x.ml): PpIf.eval fixed (c2mir's
   evaluator) and C11If.c11_if (the C11 specification).  One expression per input line in prefix
   form (numbers in hex):
     L <d|o|x> <suffix|-> <hexvalue>    integer constant (radix, suffix as spelled, value)
     P e                                parenthesised expression
     C <hex, may be negative>           character constant
     I                                  identifier
     U <+|-|~|!> e      B <op> e e      A e e (&&)     O e e (||)     Q c a b (?:)
   Output: "c2m <uns> <hex> <err> <static-uns> | c11 <uns> <hex>" or "... | c11 undef". *)
open C09x

let rec pos_of_bits (s : string) (i : int) (acc : positive option) : positive option =
  (* s: binary digits, most significant first *)
  if i >= String.length s then acc
  else
    let b = s.[i] = '1' in
    let acc' = match acc with
      | None -> if b then Some XH else None
      | Some p -> Some (if b then XI p else XO p) in
    pos_of_bits s (i + 1) acc'

let bits_of_hex (h : string) : string =
  let b = Buffer.create 64 in
  String.iter (fun c ->
    let v = match c with
      | '0'..'9' -> Char.code c - 48
      | 'a'..'f' -> Char.code c - 87
      | 'A'..'F' -> Char.code c - 55
      | _ -> failwith ("bad hex digit in " ^ h) in
    for k = 3 downto 0 do Buffer.add_char b (if (v lsr k) land 1 = 1 then '1' else '0') done) h;
  Buffer.contents b

let z_of_hex (s : string) : z =
  let neg = String.length s > 0 && s.[0] = '-' in
  let h = if neg then String.sub s 1 (String.length s - 1) else s in
  match pos_of_bits (bits_of_hex h) 0 None with
  | None -> Z0
  | Some p -> if neg then Zneg p else Zpos p

let hex_of_pos (p : positive) : string =
  let rec lsb_first p = match p with
    | XH -> [1]
    | XO q -> 0 :: lsb_first q
    | XI q -> 1 :: lsb_first q in
  let bits = Array.of_list (lsb_first p) in
  let n = Array.length bits in
  let nd = (n + 3) / 4 in
  let b = Buffer.create nd in
  for d = nd - 1 downto 0 do
    let v = ref 0 in
    for k = 3 downto 0 do
      let i = d * 4 + k in
      v := !v * 2 + (if i < n then bits.(i) else 0)
    done;
    Buffer.add_char b "0123456789abcdef".[!v]
  done;
  Buffer.contents b

let hex_of_z = function
  | Z0 -> "0"
  | Zpos p -> hex_of_pos p
  | Zneg p -> "-" ^ hex_of_pos p

let unop = function "+" -> UPlus | "-" -> UNeg | "~" -> UBnot | "!" -> ULnot | s -> failwith ("unop " ^ s)
let binop = function
  | "+" -> BAdd | "-" -> BSub | "*" -> BMul | "/" -> BDiv | "%" -> BMod | "&" -> BAnd | "|" -> BOr
  | "^" -> BXor | "<<" -> BShl | ">>" -> BShr | "==" -> BEq | "!=" -> BNe | "<" -> BLt | "<=" -> BLe
  | ">" -> BGt | ">=" -> BGe | s -> failwith ("binop " ^ s)

let rec parse (ws : string list) : expr * string list =
  match ws with
  | "L" :: r :: sfx :: v :: rest ->
    (* radix d|o|x, suffix spelling (or "-"), value *)
    let has c = String.contains sfx c in
    let nl = String.fold_left (fun n c -> if c = 'l' || c = 'L' then n + 1 else n) 0 sfx in
    (ELit { l_dec = (r = "d"); l_u = has 'u' || has 'U';
            l_long = z_of_hex (string_of_int nl); l_val = z_of_hex v }, rest)
  | "P" :: rest -> parse rest
  | "C" :: v :: rest -> (EChr (z_of_hex v), rest)
  | "I" :: rest -> (EId, rest)
  | "U" :: o :: rest -> let (a, r) = parse rest in (EUn (unop o, a), r)
  | "B" :: o :: rest -> let (a, r) = parse rest in let (b, r) = parse r in (EBin (binop o, a, b), r)
  | "A" :: rest -> let (a, r) = parse rest in let (b, r) = parse r in (EAndAnd (a, b), r)
  | "O" :: rest -> let (a, r) = parse rest in let (b, r) = parse r in (EOrOr (a, b), r)
  | "Q" :: rest ->
    let (c, r) = parse rest in let (a, r) = parse r in let (b, r) = parse r in (ECond (c, a, b), r)
  | w :: _ -> failwith ("bad token " ^ w)
  | [] -> failwith "unexpected end"

let b2s b = if b then "1" else "0"

(* expansion model: "X <nmacros> ; <body of macro 0> ; ... ; <input>" with tokens i<n> (identifier n; the
   macros are identifiers 0..nmacros-1) and o<k> (other token k); output tokens i<n>, p<n> (painted), o<k> *)
let rec nat_of_int n = if n <= 0 then O else S (nat_of_int (n - 1))
let rec int_of_nat = function O -> 0 | S n -> 1 + int_of_nat n

let tok_of_string w =
  let n = int_of_string (String.sub w 1 (String.length w - 1)) in
  match w.[0] with
  | 'i' -> TId (nat_of_int n)
  | 'o' -> TOther (nat_of_int n)
  | _ -> failwith ("bad token " ^ w)

let string_of_tok = function
  | TId n -> "i" ^ string_of_int (int_of_nat n)
  | TPainted n -> "p" ^ string_of_int (int_of_nat n)
  | TOther n -> "o" ^ string_of_int (int_of_nat n)

let run_expand ws =
  match ws with
  | nm :: rest ->
    let nm = int_of_string nm in
    let groups = ref [] and cur = ref [] in
    List.iter (fun w -> if w = ";" then (groups := List.rev !cur :: !groups; cur := []) else cur := w :: !cur) rest;
    groups := List.rev !cur :: !groups;
    let groups = List.rev !groups in
    (* first group is empty (text before the first ';'), then nm bodies, then the input *)
    let groups = match groups with [] :: g -> g | g -> g in
    let bodies = Array.of_list (List.filteri (fun i _ -> i < nm) groups) in
    let input = List.nth groups nm in
    let d n = let i = int_of_nat n in if i < nm then Some (List.map tok_of_string bodies.(i)) else None in
    (match expand d (nat_of_int nm) (List.map tok_of_string input) with
     | Some out -> String.concat " " (List.map string_of_tok out)
     | None -> "OUT-OF-FUEL")
  | [] -> failwith "X needs the macro count"

let () =
  try
    while true do
      let line = input_line stdin in
      let ws = List.filter (fun x -> x <> "") (String.split_on_char ' ' (String.trim line)) in
      if ws = [] then print_endline ""
      else if List.hd ws = "X" then print_endline (run_expand (List.tl ws))
      else begin
        let q, ws = match ws with
          | "prefix" :: r -> (prefix, r)
          | "fixed" :: r -> (fixed, r)
          | _ -> (fixed, ws) in
        let (e, rest) = parse ws in
        if rest <> [] then failwith "trailing tokens";
        let (v, er) = eval q e in
        let s1 = Printf.sprintf "c2m %s %s %s %s" (b2s v.uns_p) (hex_of_z v.bits) (b2s er) (b2s (pre_unsigned_p q e)) in
        let s2 = match c11_if e with
          | Some (t, z) -> Printf.sprintf "c11 %s %s" (b2s t) (hex_of_z z)
          | None -> "c11 undef" in
        print_endline (s1 ^ " | " ^ s2)
      end
    done
  with End_of_file -> ()

(* C15: runs case lines (format: see harness/c15_api.c) on the checker model extracted from Coq
   (c15x.ml).  Only parsing, the name->register / name->prototype tables the harness also keeps,
   and printing live here. *)
open C15x

exception Bad of string

let explode s = List.init (String.length s) (String.get s)
let n_of_int i = n_of_digits (List.map (fun c -> n_of_digits [ (* one digit *) (if c = '0' then N0 else Npos (let rec p k = if k = 1 then XH else if k land 1 = 0 then XO (p (k lsr 1)) else XI (p (k lsr 1)) in p (Char.code c - 48))) ]) (explode (string_of_int i)))
let digit c = if c = '0' then N0 else
  Npos (let rec p k = if k = 1 then XH else if k land 1 = 0 then XO (p (k lsr 1)) else XI (p (k lsr 1)) in p (Char.code c - 48))
let rec pos_of_int k = if k = 1 then XH else if k land 1 = 0 then XO (pos_of_int (k lsr 1)) else XI (pos_of_int (k lsr 1))
let n_of_small i = if i = 0 then N0 else Npos (pos_of_int i)
let name_of_string s = List.map (fun c -> n_of_small (Char.code c)) (explode s)
let rec int_of_pos = function XH -> 1 | XO p -> 2 * int_of_pos p | XI p -> 2 * int_of_pos p + 1
let int_of_n = function N0 -> 0 | Npos p -> int_of_pos p
let string_of_name l = String.concat "" (List.map (fun n -> String.make 1 (Char.chr (int_of_n n))) l)

let all_digits s = s <> "" && List.for_all (fun c -> c >= '0' && c <= '9') (explode s)
let z_of_string s =
  let neg = String.length s > 0 && s.[0] = '-' in
  let body = if neg || (String.length s > 0 && s.[0] = '+') then String.sub s 1 (String.length s - 1) else s in
  if not (all_digits body) then raise (Bad "bad number");
  z_of_digits neg (List.map digit (explode body))
let n_of_string s =
  if not (all_digits s) then raise (Bad "bad number");
  n_of_digits (List.map digit (explode s))

let type_of = function
  | "i8" -> T_I8 | "u8" -> T_U8 | "i16" -> T_I16 | "u16" -> T_U16 | "i32" -> T_I32 | "u32" -> T_U32
  | "i64" -> T_I64 | "u64" -> T_U64 | "f" -> T_F | "d" -> T_D | "ld" -> T_LD | "p" -> T_P
  | "blk0" -> T_BLK0 | "blk1" -> T_BLK1 | "blk2" -> T_BLK2 | "blk3" -> T_BLK3 | "blk4" -> T_BLK4
  | "rblk" -> T_RBLK | "undef" -> T_UNDEF | "bound" -> T_BOUND
  | _ -> raise (Bad "bad type")

let kind_of = function
  | "func" -> I_func | "proto" -> I_proto | "import" -> I_import | "export" -> I_export
  | "forward" -> I_forward | "data" -> I_data | "refdata" -> I_ref_data | "lrefdata" -> I_lref_data
  | "exprdata" -> I_expr_data | "bss" -> I_bss
  | _ -> raise (Bad "bad ref kind")

(* instruction name -> code, through the names of the regenerated table (row i = code i) *)
let insn_names : (string, int) Hashtbl.t =
  let h = Hashtbl.create 256 in
  List.iteri (fun i r -> let nm = string_of_name (row_name r) in if not (Hashtbl.mem h nm) then Hashtbl.add h nm i) insn_descs;
  h
let insn_bound = List.length all_opcodes - 1

let code_of s =
  if String.length s > 0 && s.[0] = '#' then
    let body = String.sub s 1 (String.length s - 1) in
    (if String.length body > 0 && body.[0] = '-' then raise (Bad "negative code")); n_of_string body
  else match Hashtbl.find_opt insn_names s with
    | Some i when i < insn_bound -> n_of_small i
    | _ -> raise (Bad "unknown insn name")

let err_name e =
  let i = int_of_n (error_num e) in
  match List.nth_opt error_names i with Some n -> string_of_name n | None -> "unknown-error-code"

let words s = List.filter (fun x -> x <> "") (String.split_on_char ' ' (String.trim s))

(* split on the literal " ; " *)
let split_steps line =
  let res = ref [] and cur = Buffer.create 64 in
  let n = String.length line in
  let i = ref 0 in
  while !i < n do
    if !i + 2 < n && line.[!i] = ' ' && line.[!i + 1] = ';' && line.[!i + 2] = ' ' then begin
      res := Buffer.contents cur :: !res; Buffer.clear cur; i := !i + 3 end
    else begin Buffer.add_char cur line.[!i]; incr i end
  done;
  res := Buffer.contents cur :: !res;
  List.rev !res

let run_case line =
  let regs : (string * n) list ref = ref [] in
  let protos : (string * proto) list ref = ref [] in
  let st = ref init_state in
  let find_reg nm = match List.assoc_opt nm !regs with Some r -> r | None -> raise (Bad "unknown reg name in case") in
  let reg_ref s =
    if s = "-" then N0
    else if String.length s > 0 && s.[0] = '#' then n_of_string (String.sub s 1 (String.length s - 1))
    else find_reg s in
  let parse_operand tok =
    match List.filter (fun x -> x <> "") (String.split_on_char ':' tok) with
    | ["r"; nm] -> OReg (find_reg nm)
    | ["rx"; n] -> OReg (n_of_string n)
    | ["i"; v] -> OInt (z_of_string v)
    | ["u"; v] -> OUint (z_of_string v)
    | ["f"] -> OFloat | ["d"] -> ODouble | ["ld"] -> OLdouble
    | ["m"; t; disp; b; x] ->
      let t = type_of t in
      let b = reg_ref b in let x = reg_ref x in
      OMem (t, z_of_string disp, b, x)
    | ["L"] -> OLabel
    | ["s"] -> OStr
    | "ref" :: "proto" :: rest ->
      (match rest with
       | [nm] -> (match List.assoc_opt nm !protos with
           | Some p -> ORef (I_proto, Some p)
           | None -> raise (Bad "unknown proto in case"))
       | _ -> raise (Bad "ref:proto needs a name"))
    | ["ref"; k] -> ORef (kind_of k, None)
    | _ -> raise (Bad "bad operand") in
  let parse_sig ws isproto =
    (* V NRES T* NARGS T[:X]* *)
    match ws with
    | v :: nres :: rest ->
      let v = int_of_string v <> 0 in
      let nres = int_of_string nres in
      if nres > 16 || List.length rest < nres + 1 then raise (Bad "bad nres");
      let res = List.map type_of (List.filteri (fun i _ -> i < nres) rest) in
      let rest = List.filteri (fun i _ -> i >= nres) rest in
      (match rest with
       | nargs :: args ->
         let nargs = int_of_string nargs in
         if nargs > 16 || List.length args <> nargs then raise (Bad "bad nargs");
         let args = List.map (fun a ->
             match String.index_opt a ':' with
             | None -> (type_of a, "a", "0")
             | Some i -> (type_of (String.sub a 0 i), String.sub a (i + 1) (String.length a - i - 1),
                          String.sub a (i + 1) (String.length a - i - 1))) args in
         ignore isproto;
         (v, res, args)
       | [] -> raise (Bad "short proto/func"))
    | _ -> raise (Bad "short proto/func") in
  (* after the first error the model result is fixed; later steps still run (silently) so that the
     documentation verdict can be computed over all the instructions of the case *)
  let doc_insns : insn list ref = ref [] in
  let doc_na = ref false in
  let doc_verdict = ref "na" in
  let exec c =
    (match c with
     | CInsn (code, ops) ->
       (match opcode_of_num code with
        | Some oc -> doc_insns := { i_code = oc; i_ops = ops } :: !doc_insns
        | None -> doc_na := true)
     | CNew _ | CUnspecProto _ -> doc_na := true
     | CFinish ->
       (match !st.s_func with
        | Some fc when not !doc_na ->
          let insns = List.rev !doc_insns in
          if List.for_all insn_in_domain insns && res_types_ok fc then
            doc_verdict := (if doc_func_ok fc insns then "ok" else "rej")
        | _ -> ())
     | _ -> ());
    match step !st c with
    | Ok (s', r) -> st := s'; Ok r
    | Err e ->
      (match c with CInsn _ | CFinish -> () | _ -> doc_na := true);
      Err e in
  let do_step s : (n option, mir_error) result option =
    match words s with
    | [] -> None
    | "proto" :: nm :: ws ->
      let (v, res, args) = parse_sig ws true in
      let p = { p_res = res; p_args = List.map (fun (t, _, sz) -> (t, z_of_string sz)) args; p_vararg = v } in
      (match exec (CProto res) with
       | Ok _ -> protos := (nm, p) :: !protos; Some (Ok None)
       | Err e -> Some (Error e))
    | "unspec" :: code :: ws ->
      let (v, res, args) = parse_sig ws true in
      let p = { p_res = res; p_args = List.map (fun (t, _, sz) -> (t, z_of_string sz)) args; p_vararg = v } in
      if int_of_string code <> List.length !st.s_unspec then raise (Bad "unspec codes must be consecutive");
      (match exec (CUnspecProto p) with Ok _ -> Some (Ok None) | Err e -> Some (Error e))
    | "func" :: ws ->
      let (v, res, args) = parse_sig ws false in
      (match exec (CFunc (v, res, List.map (fun (t, nm, _) -> (t, name_of_string nm)) args)) with
       | Ok _ -> List.iteri (fun i (_, nm, _) -> regs := (nm, n_of_small (i + 1)) :: !regs) args; Some (Ok None)
       | Err e -> Some (Error e))
    | ["reg"; t; nm] ->
      (match exec (CReg (type_of t, name_of_string nm)) with
       | Ok (Some r) -> regs := (nm, r) :: !regs; Some (Ok None)
       | Ok None -> raise (Bad "no register returned")
       | Err e -> Some (Error e))
    | ["greg"; t; nm; hr] ->
      let hard = if hr = "-" then None else Some (name_of_string hr) in
      (match exec (CGreg (type_of t, name_of_string nm, hard)) with
       | Ok (Some r) -> if not (List.exists (fun (_, r') -> r' = r) !regs) then regs := (nm, r) :: !regs; Some (Ok None)
       | Ok None -> raise (Bad "no register returned")
       | Err e -> Some (Error e))
    | ["lookup"; nm] ->
      if !st.s_func = None then raise (Bad "lookup outside func");
      (match exec (CLookup (name_of_string nm)) with
       | Ok (Some r) ->
         (match List.assoc_opt nm !regs with
          | Some mine when mine <> r -> raise (Bad "MIR_reg returned a different register")
          | _ -> Some (Ok None))
       | Ok None -> raise (Bad "no register returned")
       | Err e -> Some (Error e))
    | ["regtype"; r] ->
      if !st.s_func = None then raise (Bad "regtype outside func");
      (match exec (CRegType (reg_ref r)) with Ok _ -> Some (Ok None) | Err e -> Some (Error e))
    | ("insn" | "new" as w) :: code :: ops ->
      let code = code_of code in
      let ops = List.map parse_operand ops in
      if w = "new" && List.length ops > 5 then raise (Bad "too many operands for new");
      (match exec (if w = "insn" then CInsn (code, ops) else CNew (code, ops)) with
       | Ok _ -> if !st.s_func = None then raise (Bad "insn outside func"); Some (Ok None)
       | Err e -> Some (Error e))
    | ["finish"] ->
      (match exec CFinish with Ok _ -> Some (Ok None) | Err e -> Some (Error e))
    | _ -> raise (Bad "unknown step") in
  let steps = split_steps line in
  let result = ref None in
  let rec go k = function
    | [] -> ()
    | s :: rest ->
      (match (try `R (do_step s) with Bad w -> `B w | Failure w -> `B w) with
       | `B w -> if !result = None then result := Some (Printf.sprintf "bad-case %s (step %d)" w k); doc_na := true
       | `R (Some (Error e)) ->
         if !result = None then result := Some (Printf.sprintf "err %s %d" (err_name e) k);
         go (k + 1) rest
       | `R _ -> go (k + 1) rest) in
  go 0 steps;
  let r = match !result with Some r -> r | None -> "ok" in
  Printf.printf "%s | doc=%s\n" r (if !doc_na then "na" else !doc_verdict)

let () =
  try
    while true do
      let line = input_line stdin in
      if String.length line = 0 || line.[0] = '#' then print_endline "skip" else run_case line
    done
  with End_of_file -> ()

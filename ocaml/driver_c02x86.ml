(* prints the pattern rows of the regenerated x86-64 table that the verified recogniser rejects:
   one line per row: <opcode number> <operand pattern in the notation of mir-gen-x86_64.c> *)
open C02x86

let rec int_of_pos = function XH -> 1 | XO p -> 2 * int_of_pos p | XI p -> 2 * int_of_pos p + 1
let int_of_n = function N0 -> 0 | Npos p -> int_of_pos p
let int_of_z = function Z0 -> 0 | Zpos p -> int_of_pos p | Zneg p -> - (int_of_pos p)
let rec int_of_nat = function O -> 0 | S n -> 1 + int_of_nat n

let pel_text = function
  | PR -> "r"
  | PH n -> Printf.sprintf "h%d" (int_of_nat n)
  | PZ -> "z"
  | PI k -> Printf.sprintf "i%d" (int_of_nat k)
  | PS -> "s"
  | PC z -> Printf.sprintf "c%d" (int_of_z z)
  | PM (None, k) -> Printf.sprintf "m%d" (int_of_nat k)
  | PM (Some true, k) -> Printf.sprintf "ms%d" (int_of_nat k)
  | PM (Some false, k) -> Printf.sprintf "mu%d" (int_of_nat k)
  | PLab true -> "l"
  | PLab false -> "L"
  | PSame n -> string_of_int (int_of_nat n)
  | Pother _ -> "?"

let () =
  List.iter (fun ((code, pat), _) ->
      Printf.printf "bad %d %s\n" (int_of_n (opcode_num code)) (String.concat " " (List.map pel_text pat))) x86_bad;
  List.iter (fun op -> Printf.printf "norow %d\n" (int_of_n (opcode_num op))) x86_uncovered

(* C17: runs the allocator-contract monitor extracted from Coq (c17x.ml: step / accepts /
   first_reject) on allocator-call traces.  One trace per input line, events separated by ';':
     M p n | C p k n | R p old new q | F p | U p | A a n (map) | Z a n (unmap) | PW a n | PX a n |
     W a n (code write) | D (direct libc/OS call) | FIN
   numbers are decimal strings, converted digit by digit (no OCaml int arithmetic on values).
   Output per line: "ACCEPT <#events>" or "REJECT <index of first rejected event>".  Parsing and
   printing only; every decision is made by the extracted functions. *)
open C17x

let rec pos_of_int n = if n = 1 then XH else if n land 1 = 0 then XO (pos_of_int (n lsr 1)) else XI (pos_of_int (n lsr 1))
let n_of_small n = if n = 0 then N0 else Npos (pos_of_int n)
let ten = n_of_small 10
let n_of_string s =
  let acc = ref N0 in
  String.iter (fun c ->
    if c < '0' || c > '9' then failwith ("bad number: " ^ s);
    acc := N.add (N.mul !acc ten) (n_of_small (Char.code c - 48))) s;
  if s = "" then failwith "empty number"; !acc

let rec int_of_pos = function XH -> 1 | XO p -> 2 * int_of_pos p | XI p -> 2 * int_of_pos p + 1
let int_of_n = function N0 -> 0 | Npos p -> int_of_pos p

let words s = List.filter (fun x -> x <> "") (String.split_on_char ' ' (String.trim s))

let parse_event s =
  let n = n_of_string in
  match words s with
  | ["M"; p; sz] -> Some (Malloc (n p, n sz))
  | ["C"; p; k; sz] -> Some (Calloc (n p, n k, n sz))
  | ["R"; p; o; nw; q] -> Some (Realloc (n p, n o, n nw, n q))
  | ["F"; p] -> Some (Free (n p))
  | ["U"; p] -> Some (Use (n p))
  | ["A"; a; l] -> Some (Map (n a, n l))
  | ["Z"; a; l] -> Some (Unmap (n a, n l))
  | ["PW"; a; l] -> Some (Protect (n a, n l, PW))
  | ["PX"; a; l] -> Some (Protect (n a, n l, PX))
  | ["W"; a; l] -> Some (CodeWrite (n a, n l))
  | ["D"] -> Some Direct
  | ["FIN"] -> Some Finish
  | [] -> None
  | _ -> failwith ("bad event: " ^ s)

(* ---- code-holder correspondence: "CH <start> <free> <bound> : op ; op ; ..." with ops
   pub L | new S | puba L (address = result of the last new) | pubax L (a wrong address) | chg K OFF LEN |
   upd K off... | fin ;  K = index of an earlier successful publish.  One output line: per op
   "<result>: ev, ev, ..." separated by " | ".  The driver only resolves K to the address the MODEL
   returned for that publish; everything else is chstep. *)
let rec string_of_pos p =
  (* decimal printing without OCaml int arithmetic on values: repeated division by 10 *)
  let n = Npos p in
  let rec go n acc =
    match n with
    | N0 -> acc
    | _ -> let (q, r) = N.div_eucl n ten in go q (string_of_int (int_of_n r) ^ acc) in
  go n ""
let string_of_n = function N0 -> "0" | Npos p -> string_of_pos p

let show_event = function
  | Map (a, l) -> "A " ^ string_of_n a ^ " " ^ string_of_n l
  | Unmap (a, l) -> "Z " ^ string_of_n a ^ " " ^ string_of_n l
  | Protect (a, l, PW) -> "PW " ^ string_of_n a ^ " " ^ string_of_n l
  | Protect (a, l, PX) -> "PX " ^ string_of_n a ^ " " ^ string_of_n l
  | CodeWrite (a, l) -> "W " ^ string_of_n a ^ " " ^ string_of_n l
  | _ -> "?"

let run_ch line =
  match String.index_opt line ':' with
  | None -> print_endline "BAD"
  | Some i ->
    let hd = words (String.sub line 0 i) and ops = String.sub line (i + 1) (String.length line - i - 1) in
    (match hd with
     | "CH" :: triples when triples <> [] && List.length triples mod 3 = 0 ->
       (* holders, current one first, as (start, free, bound) triples *)
       let rec hs = function
         | st :: fr :: bd :: r -> { h_start = n_of_string st; h_free = n_of_string fr; h_bound = n_of_string bd } :: hs r
         | _ -> [] in
       let s = ref { holders = hs triples; nreg = n_of_small (List.length triples / 3) } in
       let blobs = ref [] and last_new = ref N0 and outs = ref [] in
       let blob k = List.nth (List.rev !blobs) (int_of_string k) in
       List.iter (fun o ->
         let op = match words o with
           | ["pub"; l] -> Some (Publish (n_of_string l))
           | ["new"; z] -> Some (NewAddr (n_of_string z))
           | ["puba"; l] -> Some (PublishByAddr (!last_new, n_of_string l))
           | ["pubax"; l] -> Some (PublishByAddr (N.add !last_new (n_of_small 16), n_of_string l))
           | ["chg"; k; off; l] -> Some (Change (N.add (blob k) (n_of_string off), n_of_string l))
           | "upd" :: k :: offs -> Some (Update (blob k, List.map n_of_string offs))
           | ["fin"] -> Some FinishAll
           | [] -> None
           | _ -> failwith ("bad ch op: " ^ o) in
         match op with
         | None -> ()
         | Some op ->
           let ((s', res), evs) = chstep !s op in
           s := s';
           (match op with
            | Publish _ -> blobs := res :: !blobs
            | PublishByAddr _ -> if res <> N0 then blobs := res :: !blobs
            | NewAddr _ -> last_new := res
            | _ -> ());
           outs := (string_of_n res ^ ": " ^ String.concat ", " (List.map show_event evs)) :: !outs)
         (String.split_on_char ';' ops);
       print_endline (String.concat " | " (List.rev !outs))
     | _ -> print_endline "BAD")

let () =
  try
    while true do
      let line = input_line stdin in
      if String.length line > 3 && String.sub line 0 3 = "CH " then run_ch line else
      let evs = List.rev (List.fold_left (fun acc s -> match parse_event s with Some e -> e :: acc | None -> acc)
                            [] (String.split_on_char ';' line)) in
      if accepts evs then Printf.printf "ACCEPT %d\n" (List.length evs)
      else (match first_reject st0 evs N0 with
            | Some i -> Printf.printf "REJECT %d\n" (int_of_n i)
            | None -> print_endline "INCONSISTENT")
    done
  with End_of_file -> ()

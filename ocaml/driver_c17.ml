(* C17: runs the allocator-contract monitor extracted from Coq (c17x.ml: step / accepts /
   first_reject) on allocator-call traces.  One trace per input line, events separated by ';':
     M p n | C p k n | R p old new q | F p | U p | A a n (map) | Z a n (unmap) | PW a n | PX a n |
     W a n (code write) | D (direct libc/OS call) | FIN
   numbers are decimal strings, converted digit by digit (no OCaml int arithmetic on values).
   Output per line: "ACCEPT <#events>" or "REJECT <index of first rejected event>".  Parsing and
   printing only; every decision is made by the extracted functions. *)
open C17x

let rec pos_of_int n = if n = 1 then XH else if n land 1 = 0 then XO (pos_of_int (n lsr 1)) else XI (pos_of_int (n lsr 1))
let n_of_small n = if n = 0 then N0 else Npos (pos_of_int n)
let ten = n_of_small 10
let n_of_string s =
  let acc = ref N0 in
  String.iter (fun c ->
    if c < '0' || c > '9' then failwith ("bad number: " ^ s);
    acc := N.add (N.mul !acc ten) (n_of_small (Char.code c - 48))) s;
  if s = "" then failwith "empty number"; !acc

let rec int_of_pos = function XH -> 1 | XO p -> 2 * int_of_pos p | XI p -> 2 * int_of_pos p + 1
let int_of_n = function N0 -> 0 | Npos p -> int_of_pos p

let words s = List.filter (fun x -> x <> "") (String.split_on_char ' ' (String.trim s))

let parse_event s =
  let n = n_of_string in
  match words s with
  | ["M"; p; sz] -> Some (Malloc (n p, n sz))
  | ["C"; p; k; sz] -> Some (Calloc (n p, n k, n sz))
  | ["R"; p; o; nw; q] -> Some (Realloc (n p, n o, n nw, n q))
  | ["F"; p] -> Some (Free (n p))
  | ["U"; p] -> Some (Use (n p))
  | ["A"; a; l] -> Some (Map (n a, n l))
  | ["Z"; a; l] -> Some (Unmap (n a, n l))
  | ["PW"; a; l] -> Some (Protect (n a, n l, PW))
  | ["PX"; a; l] -> Some (Protect (n a, n l, PX))
  | ["W"; a; l] -> Some (CodeWrite (n a, n l))
  | ["D"] -> Some Direct
  | ["FIN"] -> Some Finish
  | [] -> None
  | _ -> failwith ("bad event: " ^ s)

let () =
  try
    while true do
      let line = input_line stdin in
      let evs = List.rev (List.fold_left (fun acc s -> match parse_event s with Some e -> e :: acc | None -> acc)
                            [] (String.split_on_char ';' line)) in
      if accepts evs then Printf.printf "ACCEPT %d\n" (List.length evs)
      else (match first_reject st0 evs N0 with
            | Some i -> Printf.printf "REJECT %d\n" (int_of_n i)
            | None -> print_endline "INCONSISTENT")
    done
  with End_of_file -> ()

(* Runs the extracted C05 SysV model (c05x.ml) on prototype lines.
   input : <id> <vararg 0|1> args <tok>* res <rtok>* ret <rax> <rdx> <xmm0> <xmm1>
           arg tok  = ty=word[,word...]     ty in i8 u8 i16 u16 i32 u32 i64 u64 p f d ld blk:N blk1:N .. blk4:N rblk:N
                      words are 16-hex-digit 64-bit patterns, one per eightbyte MIR holds for the argument
           res rtok = i8 .. u64 p f d ld
   output: <id> wf=<0|1> img <loc>=<hex>/<obsbytes>* stack=<n> nsse=<n> alhead=<n> al=<n> ffsub=<n> mcsub=<n>
                 agree=<ff><ffhead><mc><mchead><in><inhead> res <rloc|->* rv <hex|->*
   Parsing and printing only; every decision comes from the extracted functions. *)
open C05x

let rec pos_of_bits = function   (* lsb first, last bit must be 1 *)
  | [] -> failwith "pos"
  | [true] -> XH
  | b :: r -> if b then XI (pos_of_bits r) else XO (pos_of_bits r)

let z_of_hex s =
  let bits = ref [] in
  String.iter (fun c ->
    let v = int_of_string ("0x" ^ String.make 1 c) in
    bits := [v land 1 = 1; v land 2 = 2; v land 4 = 4; v land 8 = 8] @ !bits) s;
  (* !bits is lsb first now *)
  let rec strip = function [] -> [] | l -> (match List.rev l with false :: r -> strip (List.rev r) | _ -> l) in
  match strip !bits with [] -> Z0 | l -> Zpos (pos_of_bits l)

let rec bits_of_pos = function XH -> [true] | XO p -> false :: bits_of_pos p | XI p -> true :: bits_of_pos p
let hex_of_z z =
  let bits = match z with Z0 -> [] | Zpos p -> bits_of_pos p | Zneg _ -> failwith "neg" in
  let a = Array.make 64 false in
  List.iteri (fun i b -> if i < 64 then a.(i) <- b) bits;
  let b = Buffer.create 16 in
  for d = 15 downto 0 do
    let v = (if a.(4*d) then 1 else 0) + (if a.(4*d+1) then 2 else 0) + (if a.(4*d+2) then 4 else 0) + (if a.(4*d+3) then 8 else 0) in
    Buffer.add_char b "0123456789abcdef".[v]
  done; Buffer.contents b

let z_of_int n = z_of_hex (Printf.sprintf "%x" n)
let rec int_of_pos = function XH -> 1 | XO p -> 2 * int_of_pos p | XI p -> 2 * int_of_pos p + 1
let int_of_z = function Z0 -> 0 | Zpos p -> int_of_pos p | Zneg p -> - (int_of_pos p)
let rec nat_of_int n = if n <= 0 then O else S (nat_of_int (n - 1))

let ity_of = function
  | "i8" -> I8 | "u8" -> U8 | "i16" -> I16 | "u16" -> U16 | "i32" -> I32 | "u32" -> U32
  | "i64" -> I64 | "u64" -> U64 | "p" -> Pt | s -> failwith ("ity " ^ s)

let aty_of s =
  match String.split_on_char ':' s with
  | ["f"] -> AF | ["d"] -> AD | ["ld"] -> ALD
  | ["blk"; n] -> ABlk (O, z_of_int (int_of_string n))
  | ["rblk"; n] -> ARblk (z_of_int (int_of_string n))
  | [b; n] when String.length b = 4 && String.sub b 0 3 = "blk" ->
      ABlk (nat_of_int (Char.code b.[3] - 48), z_of_int (int_of_string n))
  | [t] -> AInt (ity_of t)
  | _ -> failwith ("aty " ^ s)

let rty_of = function "f" -> RF | "d" -> RD | "ld" -> RLD | t -> RInt (ity_of t)

let show_loc = function
  | GPR n -> "G" ^ string_of_int (int_of_z n)
  | SSE n -> "X" ^ string_of_int (int_of_z n)
  | Stk o -> "S" ^ string_of_int (int_of_z o)
let show_rloc = function RAX -> "RAX" | RDX -> "RDX" | XMM0 -> "XMM0" | XMM1 -> "XMM1" | ST0 -> "ST0" | ST1 -> "ST1"

let words s = List.filter (fun x -> x <> "") (String.split_on_char ' ' (String.trim s))

let rec split_at key = function
  | [] -> ([], [])
  | x :: r when x = key -> ([], r)
  | x :: r -> let (a, b) = split_at key r in (x :: a, b)

let () =
  try
    while true do
      let line = input_line stdin in
      match words line with
      | id :: _va :: "args" :: rest ->
        let (atoks, rest) = split_at "res" rest in
        let (rtoks, rets) = split_at "ret" rest in
        let parsed = List.map (fun t ->
          match String.index_opt t '=' with
          | Some i ->
            let ty = String.sub t 0 i and ws = String.sub t (i + 1) (String.length t - i - 1) in
            (aty_of ty, if ws = "" then [] else List.map z_of_hex (String.split_on_char ',' ws))
          | None -> (aty_of t, [])) atoks in
        let args = List.map fst parsed in
        let (locs, st) = assign args in
        let vals = List.map (fun (a, ws) -> arg_words a ws) parsed in
        let obs = List.concat (List.map arg_obs args) in
        let img = image locs vals in
        let b = Buffer.create 256 in
        Buffer.add_string b (id ^ " wf=" ^ (if wf_args args then "1" else "0") ^ " img");
        List.iteri (fun i (l, v) ->
          let o = try int_of_z (List.nth obs i) with _ -> 8 in
          Buffer.add_string b (Printf.sprintf " %s=%s/%d" (show_loc l) (hex_of_z v) o)) img;
        (* locations without values (when no values were given) *)
        if img = [] then List.iter (fun ls -> List.iter (fun l -> Buffer.add_string b (" " ^ show_loc l ^ "=-/0")) ls) locs;
        let agree f = if f args = (locs, st) then "1" else "0" in
        let agree_locs f = if fst (f args) = locs && (C05x.snd (f args)).so = st.so then "1" else "0" in
        Buffer.add_string b (Printf.sprintf " stack=%d nsse=%d alhead=%d al=%d ffsub=%d mcsub=%d agree=%s%s%s%s%s%s"
          (int_of_z (stack_area args)) (int_of_z st.nx) (int_of_z (mc_al_head args)) (int_of_z (mc_al args))
          (int_of_z (ff_sub_rsp args)) (int_of_z (mc_sub_rsp args))
          (agree ff_assign) (agree ff_assign_head) (agree_locs mc_assign) (agree_locs mc_assign_head)
          (agree_locs in_assign) (agree_locs in_assign_head));
        let rs = List.map rty_of rtoks in
        let rl = result_locs rs in
        Buffer.add_string b " res";
        (match rl with
         | None -> Buffer.add_string b " illegal"
         | Some l -> List.iter (fun r -> Buffer.add_string b (" " ^ show_rloc r)) l);
        Buffer.add_string b (" mcres=" ^ (if mc_results rs = rl then "1" else "0") ^ " ffres=" ^ (if ff_results rs = rl then "1" else "0"));
        Buffer.add_string b " rv";
        (match rl, rets with
         | Some l, [rax; rdx; _; _] ->
           List.iter2 (fun r t ->
             match r, t with
             | RAX, RInt it -> Buffer.add_string b (" " ^ hex_of_z (widen_result it (z_of_hex rax)))
             | RDX, RInt it -> Buffer.add_string b (" " ^ hex_of_z (widen_result it (z_of_hex rdx)))
             | _, _ -> Buffer.add_string b " -") l rs
         | _, _ -> ());
        print_endline (Buffer.contents b)
      | _ -> ()
    done
  with End_of_file -> ()

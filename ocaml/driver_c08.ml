(* C08: runs declarations (text form of tools/gen_c08_decls.py) on the two layout models extracted
   from Coq (c08x.ml).  One declaration per input line; one output line
     L <size> <align> <leaf>... | L <size> <align> <leaf>...
   (c2mir model | SysV model); leaves print as m<byte offset>:<size> or b<absolute bit>:<width>. *)
open C08x

let rec pos_of_int n = if n = 1 then XH else if n land 1 = 0 then XO (pos_of_int (n lsr 1)) else XI (pos_of_int (n lsr 1))
let z_of_int n = if n = 0 then Z0 else if n > 0 then Zpos (pos_of_int n) else Zneg (pos_of_int (-n))
let rec int_of_pos = function XH -> 1 | XO p -> 2 * int_of_pos p | XI p -> 2 * int_of_pos p + 1
let int_of_z = function Z0 -> 0 | Zpos p -> int_of_pos p | Zneg p -> - (int_of_pos p)
let z_of_string s =
  let neg = String.length s > 0 && s.[0] = '-' in
  let acc = ref Z0 in
  String.iteri (fun i c -> if not (neg && i = 0) then
    acc := Z.add (Z.mul !acc (z_of_int 10)) (z_of_int (Char.code c - 48))) s;
  if neg then Z.opp !acc else !acc

let kind_of = function
  | "bool" -> KBool | "char" -> KChar | "schar" -> KSChar | "uchar" -> KUChar | "short" -> KShort
  | "ushort" -> KUShort | "int" -> KInt | "uint" -> KUInt | "long" -> KLong | "ulong" -> KULong
  | "llong" -> KLLong | "ullong" -> KULLong | "float" -> KFloat | "double" -> KDouble
  | "ldouble" -> KLDouble | s -> failwith ("bad kind " ^ s)

(* least / greatest enumerator of the generator's four enum shapes (tools/gen_c08_decls.py ENUM_BODY) *)
let enum_range = function
  | "int" -> ("-1", "7") | "uint" -> ("0", "2147483648") | "long" -> ("-1", "4294967296")
  | "ulong" -> ("0", "9223372036854775808")
  | "pos" -> ("0", "3") | "one" -> ("0", "0") | "neg8" -> ("-128", "127") | "imin" -> ("-2147483648", "0")
  | "umax" -> ("0", "4294967295") | "imax" -> ("0", "2147483647") | "lneg" -> ("-2147483649", "1")
  | "lpos" -> ("0", "9223372036854775807") | s -> failwith ("bad enum kind " ^ s)

let tokens s = List.filter (fun x -> x <> "") (String.split_on_char ' ' (String.trim s))

let sub s i = String.sub s i (String.length s - i)

let rec parse_ty = function
  | "p" :: r -> (TPtr, r)
  | "x" :: r -> let (t, r) = parse_ty r in (TFlex t, r)
  | ("s{" | "u{" as k) :: r ->
    let rec mems acc = function
      | "}" :: r -> (List.rev acc, r)
      | ";" :: r -> mems acc r
      | r -> let (m, r) = parse_mem r in mems (m :: acc) r in
    let (ms, r) = mems [] r in (TAgg ((k = "u{"), ms), r)
  | t :: r when t.[0] = 'b' -> (TBasic (kind_of (sub t 1)), r)
  | t :: r when t.[0] = 'e' ->
    (match String.split_on_char ':' (sub t 1) with
     | [k] -> let (lo, hi) = enum_range k in (TEnum (z_of_string lo, z_of_string hi), r)
     | [lo; hi] -> (TEnum (z_of_string lo, z_of_string hi), r)
     | _ -> failwith "bad enum")
  | t :: r when t.[0] = 'a' -> let (e, r) = parse_ty r in (TArr (z_of_string (sub t 1), e), r)
  | t :: _ -> failwith ("bad type token " ^ t)
  | [] -> failwith "unexpected end"
and parse_mem = function
  | "n" :: r -> let (t, r) = parse_ty r in ((MNamed, t), r)
  | "o" :: r -> let (t, r) = parse_ty r in ((MAnon, t), r)
  | t :: r when t.[0] = 'f' || t.[0] = 'g' ->
    let (ty, r) = parse_ty r in ((MBits (z_of_string (sub t 1), t.[0] = 'f'), ty), r)
  | t :: _ -> failwith ("bad member token " ^ t)
  | [] -> failwith "unexpected end"

let show_leaf b l =
  if int_of_z l.l_bit < 0 then Buffer.add_string b (Printf.sprintf " m%d:%d" (int_of_z l.l_off) (int_of_z l.l_sz))
  else Buffer.add_string b (Printf.sprintf " b%d:%d" (8 * int_of_z l.l_off + int_of_z l.l_bit) (int_of_z l.l_sz))

let do_layout b t =
  let c = c2m_layout t in
  Buffer.add_string b (Printf.sprintf "L %d %d" (int_of_z (type_size c)) (int_of_z c.align));
  List.iter (show_leaf b) c.leaves;
  let s = sysv_layout t in
  Buffer.add_string b (Printf.sprintf " | L %d %d" (int_of_z s.sv_size) (int_of_z s.sv_align));
  List.iter (show_leaf b) s.sv_leaves;
  (* is the declaration inside the quantifier of layout_eq_sysv? *)
  Buffer.add_string b (if wf_ty t then " | wf" else " | not-wf")

(* classification: "K <nl>,<nd> <nl>,<nd> ... | <decl>"  ->
   "K ret=<r> args=<a>;<a>... | ret=<r> args=<a>;<a>..."   (c2mir model | SysV model)
   c2mir: r = M or letters I/S/X of the MIR result types, a = blk<k>:<size>;
   SysV:  r = M or letters I/S/X, a = M or letters I/S/n per eightbyte *)
let do_classify b pres t =
  let letter = function MI8 | MI16 | MI32 | MI64 -> "I" | MF | MD -> "S" | MLD -> "X" | MX87UP -> "?" in
  let size = int_of_z (type_size (c2m_layout t)) in
  Buffer.add_string b "K ret=";
  (match process_ret_type t with
   | None -> Buffer.add_string b "M"
   | Some l -> List.iter (fun m -> Buffer.add_string b (letter m)) l);
  (* the accesses that move a value returned in registers: <mir type>@<byte offset>,... (ret_pieces); M = hidden pointer *)
  Buffer.add_string b " racc=";
  (match ret_pieces t with
   | None -> Buffer.add_string b "M"
   | Some l -> List.iteri (fun i (o, m) ->
       Buffer.add_string b (Printf.sprintf "%s%s@%d" (if i > 0 then "," else "")
         (match m with MI8 -> "i8" | MI16 -> "i16" | MI32 -> "i32" | MI64 -> "i64" | MF -> "f" | MD -> "d" | MLD -> "ld" | MX87UP -> "?")
         (int_of_z o))) l);
  Buffer.add_string b " args=";
  let tl = TAgg (false, [(MNamed, TBasic KLong)]) and td = TAgg (false, [(MNamed, TBasic KDouble)]) in
  List.iteri (fun i (nl, nd) ->
    (* the aggregate, then struct{long} and struct{double}, threading the register counters *)
    let ((k, ni), nf) = pass_aggregate_arg t (z_of_int nl) (z_of_int nd) in
    let ((k1, ni), nf) = pass_aggregate_arg tl ni nf in
    let ((k2, _), _) = pass_aggregate_arg td ni nf in
    Buffer.add_string b (Printf.sprintf "%sblk%d:%d+blk%d:8+blk%d:8" (if i > 0 then ";" else "")
                           (int_of_z k) size (int_of_z k1) (int_of_z k2))) pres;
  Buffer.add_string b " | ret=";
  (match sysv_return t with
   | None -> Buffer.add_string b "M"
   | Some l -> List.iter (fun r -> Buffer.add_string b (match r with RInt -> "I" | RSse -> "S" | RX87 -> "X")) l);
  Buffer.add_string b " args=";
  let show r = match r with
    | None -> Buffer.add_string b "M"
    | Some l -> List.iter (fun p -> Buffer.add_string b (match p with InInt -> "I" | InSse -> "S" | InNone -> "n")) l in
  List.iteri (fun i (nl, nd) ->
    let ((r, ni), nf) = sysv_pass_arg t (z_of_int nl) (z_of_int nd) in
    let ((r1, ni), nf) = sysv_pass_arg tl ni nf in
    let ((r2, _), _) = sysv_pass_arg td ni nf in
    if i > 0 then Buffer.add_string b ";";
    show r; Buffer.add_string b "+"; show r1; Buffer.add_string b "+"; show r2) pres;
  Buffer.add_string b (Printf.sprintf " align=%d" (int_of_z (sysv_layout t).sv_align));
  (* does an (unnamed) bit-field touch two eightbytes?  (distribution only; coq/C08/SpanClassify.v) and the
     argument classes of the rule c2mir had before /repo 21222098 (classify_arg_head) *)
  Buffer.add_string b (if no_straddle t then " straddle=0" else " straddle=1");
  Buffer.add_string b " head=";
  (match classify_arg_head t with
   | None -> Buffer.add_string b "M"
   | Some l -> if List.exists (fun c -> c = CX87 || c = CX87up) l then Buffer.add_string b "M" else
       List.iter (fun c -> Buffer.add_string b (match c with CInt -> "I" | CSse -> "S" | _ -> "?")) l);
  (* inside the quantifier of the classification theorems? *)
  Buffer.add_string b (if wf_ty t then " wf=1" else " wf=0")

(* "B <decl>" -> per named bit-field (DFS order of the probes, array elements once) three letters:
   c2mir model without / with fixes/C08-7, gcc model; s = sign-extended, u = zero-extended *)
let do_bfsign b t =
  let l x = if x then "s" else "u" in
  let rec of_ty t = match t with
    | TAgg (_, ms) -> List.iter (fun (mk, mt) -> match mk with
        | MNamed | MAnon -> of_ty mt
        | MBits (w, true) ->
          Buffer.add_string b (" " ^ l (c2m_bf_signed false mt w) ^ l (c2m_bf_signed true mt w) ^ l (sv_bf_signed mt w))
        | MBits (_, false) -> ()) ms
    | TArr (_, el) -> of_ty el
    | _ -> () in
  Buffer.add_string b "B"; of_ty t

(* "G <0|1> <kinds|-> | <decl>": a whole signature - result through the hidden pointer or not, scalar
   parameters (l i c p: INTEGER, f d: SSE, x: long double), then the aggregate, struct{long}, struct{double}
   -> "G c2m=blk<k>+blk<k>+blk<k> sv=<p>+<p>+<p> nopad=<0|1>" (c2m_signature | sv_signature) *)
let do_signature b big kinds t =
  let tl = TAgg (false, [(MNamed, TBasic KLong)]) and td = TAgg (false, [(MNamed, TBasic KDouble)]) in
  let res = if big then RAgg (TAgg (false, [(MNamed, TArr (z_of_int 4, TBasic KLong))])) else RScalar in
  let ps = ref [] in
  String.iter (fun c -> ps := (match c with
    | 'l' | 'i' | 'c' | 'p' -> PInt | 'f' | 'd' -> PSse | 'x' -> PX87 | '-' -> PX87
    | _ -> failwith "bad scalar kind") :: !ps) (if kinds = "-" then "" else kinds);
  let n = List.length !ps in
  let ps = List.rev !ps @ [PAgg t; PAgg tl; PAgg td] in
  let rec drop k l = if k = 0 then l else drop (k - 1) (List.tl l) in
  Buffer.add_string b "G c2m=";
  List.iteri (fun i o -> Buffer.add_string b ((if i > 0 then "+" else "") ^
    (match o with Some k -> Printf.sprintf "blk%d" (int_of_z k) | None -> "?"))) (drop n (c2m_signature res ps));
  Buffer.add_string b " sv=";
  List.iteri (fun i o -> if i > 0 then Buffer.add_string b "+";
    match o with
    | Some None -> Buffer.add_string b "M"
    | Some (Some l) -> List.iter (fun p -> Buffer.add_string b (match p with InInt -> "I" | InSse -> "S" | InNone -> "n")) l
    | None -> Buffer.add_string b "?") (drop n (sv_signature res ps));
  Buffer.add_string b (if no_pad t then " nopad=1" else " nopad=0")

(* "S <0|1> <type> <type> ...": a whole signature from the declared parameter types (round 3): result through the
   hidden pointer or not; every parameter a scalar type (bint, bldouble, p, eint ...) or a struct/union; "." (start of
   a variadic tail) is skipped.  -> "S c2m=<blkK|->,... sv=<I/S/n letters|M|->,... ctr=<ni>,<nf> svctr=<ni>,<nf> ok=<0|1>"
   (c2m_csignature | sv_csignature, c2m_counters | sv_counters; ok = every aggregate inside the theorems' quantifier) *)
let do_csignature b big toks =
  let res = if big then RAgg (TAgg (false, [(MNamed, TArr (z_of_int 4, TBasic KLong))])) else RScalar in
  let rec params acc = function
    | [] -> List.rev acc
    | "." :: r -> params acc r
    | r -> let (t, r) = parse_ty r in params ((match t with TAgg _ -> CAgg t | _ -> CScalar t) :: acc) r in
  let ps = params [] toks in
  Buffer.add_string b "S c2m=";
  List.iteri (fun i o -> Buffer.add_string b ((if i > 0 then "," else "") ^
    (match o with Some k -> Printf.sprintf "blk%d" (int_of_z k) | None -> "-"))) (c2m_csignature res ps);
  Buffer.add_string b " sv=";
  List.iteri (fun i o -> if i > 0 then Buffer.add_string b ",";
    match o with
    | Some None -> Buffer.add_string b "M"
    | Some (Some l) -> List.iter (fun p -> Buffer.add_string b (match p with InInt -> "I" | InSse -> "S" | InNone -> "n")) l
    | None -> Buffer.add_string b "-") (sv_csignature res ps);
  let (ci, cf) = c2m_counters res ps and (si, sf) = sv_counters res ps in
  Buffer.add_string b (Printf.sprintf " ctr=%d,%d svctr=%d,%d" (int_of_z ci) (int_of_z cf) (int_of_z si) (int_of_z sf));
  Buffer.add_string b (if List.for_all (function CAgg t -> wf_ty t && no_pad t | CScalar _ -> true) ps then " ok=1" else " ok=0")

let () =
  try
    while true do
      let line = input_line stdin in
      if String.trim line <> "" then begin
        let b = Buffer.create 256 in
        (match tokens line with
         | "K" :: rest ->
           let rec split acc = function
             | "|" :: r -> (List.rev acc, r)
             | x :: r -> split (x :: acc) r
             | [] -> failwith "K line without |" in
           let (pres, decl) = split [] rest in
           let pres = List.map (fun s -> match String.split_on_char ',' s with
             | [a; c] -> (int_of_string a, int_of_string c) | _ -> failwith "bad pre") pres in
           let (t, _) = parse_ty decl in
           do_classify b pres t
         | "B" :: rest -> let (t, _) = parse_ty rest in do_bfsign b t
         | "G" :: big :: kinds :: "|" :: decl -> let (t, _) = parse_ty decl in do_signature b (big = "1") kinds t
         | "S" :: big :: rest -> do_csignature b (big = "1") rest
         | "L" :: rest -> let (t, _) = parse_ty rest in do_layout b t
         | toks -> let (t, _) = parse_ty toks in do_layout b t);
        print_endline (Buffer.contents b)
      end
    done
  with End_of_file -> ()

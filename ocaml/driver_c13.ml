(* Runs C13 histories on the model extracted from Coq (c13x.ml).  Same line format and output as
   harness/c13_link.c. *)
open C13x

let rec nat_of_int n = if n <= 0 then O else S (nat_of_int (n - 1))
let rec int_of_nat = function O -> 0 | S n -> 1 + int_of_nat n

let words s = List.filter (fun x -> x <> "") (String.split_on_char ' ' (String.trim s))

let parse_decl w =
  let n = nat_of_int (int_of_string (String.sub w 1 (String.length w - 1))) in
  match w.[0] with
  | 'i' -> Some (KImport, n) | 'e' -> Some (KExport, n) | 'f' -> Some (KForward, n)
  | 'F' | 'B' -> Some (KFunc, n) | 'D' -> Some (KData, n) | 'P' -> Some (KProto, n)
  | _ -> None

let parse_op s =
  match words s with
  | [] -> None
  | "L" :: ds -> Some (Load (List.filter_map parse_decl ds))
  | ["X"; n; a] -> Some (LoadExternal (nat_of_int (int_of_string n), nat_of_int (int_of_string a)))
  | ["R"; b] -> Some (SetRedef (int_of_string b <> 0))
  | "K" :: mask :: _ ->
    let m = int_of_string mask in
    Some (Link (fun n -> let i = int_of_nat n in
                 if i < 8 && (m lsr i) land 1 = 1 then Some (nat_of_int (100 + i)) else None))
  | _ -> failwith ("bad op: " ^ s)

let err_name = function
  | ERepeatedDecl -> "repeated_decl" | EImportExport -> "import_export"
  | EUndeclaredOpRef -> "undeclared_op_ref" | EInternal -> "internal"

let show_binding ((k, n), d) =
  let kc = match k with KImport -> "i" | KExport -> "e" | KForward -> "f" | _ -> "?" in
  let n = int_of_nat n in
  let tag, v = match d with
    | None -> "null", None
    | Some (DExt a) -> Printf.sprintf "X%d" (int_of_nat a), Some (9000 + int_of_nat a)
    | Some (DMod (id, idx, k)) ->
      (match k with
       | KFunc -> Printf.sprintf "M%d.%d" (int_of_nat id) (int_of_nat idx), Some (1000 + 16 * int_of_nat id + n)
       | KData -> Printf.sprintf "M%d.%d" (int_of_nat id) (int_of_nat idx), Some (5000 + 16 * int_of_nat id + n)
       | _ -> "null", None) in
  match k, v with
  | KImport, Some v -> Printf.sprintf "%s%d=%s/%d" kc n tag v
  | _ -> Printf.sprintf "%s%d=%s" kc n tag

(* for a Load that the model rejects with repeated_decl: is the definition it clashes with an
   exported MIR FUNCTION (the case the property text names) or something else (external, resolver
   address, data, proto)?  "*" marks the latter. *)
let clash_mark st o =
  match o with
  | Load ds ->
    (match build ds with
     | Inl m ->
       let ex = exported st.nloads m in
       let rec go = function
         | [] -> ""
         | (n, DMod (_, _, KFunc)) :: rest ->
           (match assoc st.env n with
            | Some (DMod (_, _, KFunc)) -> ""
            | Some _ -> "*"
            | None -> go rest)
         | _ :: rest -> go rest in
       go ex
     | Inr _ -> "")
  | _ -> ""

let run_history line =
  let ops = List.filter_map parse_op (String.split_on_char ';' line) in
  let b = Buffer.create 256 in
  let st = ref init in
  let first = ref true in
  (try
     List.iter (fun o ->
         let before = !st in
         let (s', out) = step !st o in
         st := s';
         (match out with
          | OSkipped -> raise Exit
          | _ -> ());
         if not !first then Buffer.add_string b " | ";
         first := false;
         match out with
         | OOk -> Buffer.add_string b "ok"
         | OErr ERepeatedDecl -> Buffer.add_string b ("E:repeated_decl" ^ clash_mark before o)
         | OErr e -> Buffer.add_string b ("E:" ^ err_name e)
         | OLinked (_, res) ->
           Buffer.add_string b "ok res=[";
           Buffer.add_string b (String.concat "," (List.map (fun (n, a) ->
               Printf.sprintf "n%d:%d" (int_of_nat n) (int_of_nat a)) res));
           Buffer.add_string b "]";
           List.iter (fun (id, bs) ->
               Buffer.add_string b (Printf.sprintf " m%d{%s}" (int_of_nat id)
                                      (String.concat " " (List.map show_binding bs))))
             s'.linked
         | OSkipped -> ()) ops
   with Exit -> ());
  print_endline (Buffer.contents b)

let () =
  try
    while true do
      let line = input_line stdin in
      if String.trim line = "" || line.[0] = '#' then print_endline "" else run_history line
    done
  with End_of_file -> ()

(* Runs C13 histories on the model extracted from Coq (c13x.ml).  Same line format and output as
   harness/c13_link.c.  Environment variable C13_MODE: letter 'p' = the pinned tree's variant of a
   rejected load (step false), letter 's' = a rejected load ends the history. *)
open C13x

let mode = try Sys.getenv "C13_MODE" with Not_found -> ""
let pinned = String.contains mode 'p'
let stop_at_rejection = String.contains mode 's'

let rec nat_of_int n = if n <= 0 then O else S (nat_of_int (n - 1))
let rec int_of_nat = function O -> 0 | S n -> 1 + int_of_nat n

let words s = List.filter (fun x -> x <> "") (String.split_on_char ' ' (String.trim s))

let parse_decl w =
  let n = nat_of_int (int_of_string (String.sub w 1 (String.length w - 1))) in
  match w.[0] with
  | 'i' -> Some (KImport, n) | 'e' -> Some (KExport, n) | 'f' -> Some (KForward, n)
  | 'F' | 'B' -> Some (KFunc, n) | 'D' | 'S' -> Some (KData, n) | 'P' -> Some (KProto, n)
  | _ -> None

let is_quiet s = match words s with "K" :: _ :: ["q"] -> true | "J" :: _ :: "q" :: _ -> true | _ -> false

(* an operation of a history: one of the model's [op]s, or a link with a scripted resolver that loads
   modules itself (C13/Reent.v [step_re]) *)
type hop = Op of op | LinkRe of (nat * (((ikind * nat) list) list * ransw)) list * (nat -> nat option)

let mask_resolver m = (fun n -> let i = int_of_nat n in
                        if i < 8 && (m lsr i) land 1 = 1 then Some (nat_of_int (100 + i)) else None)

(* J mask iface { @ n ans { + decl* } } *)
let parse_script ws =
  let entries = ref [] in
  let cur = ref None in      (* (n, ans, modules (reversed), current module (reversed) option) *)
  let flush_mod (n, a, ms, m) = match m with Some d -> (n, a, List.rev d :: ms, None) | None -> (n, a, ms, None) in
  let flush_entry () = match !cur with
    | Some c -> let (n, a, ms, _) = flush_mod c in entries := (n, (List.rev ms, a)) :: !entries; cur := None
    | None -> () in
  let rec go = function
    | [] -> flush_entry ()
    | "@" :: n :: a :: rest ->
      flush_entry ();
      let ans = match a.[0] with
        | 'x' -> RExt (nat_of_int (int_of_string (String.sub a 1 (String.length a - 1))))
        | 'm' -> RLast
        | _ -> RNull in
      cur := Some (nat_of_int (int_of_string n), ans, [], None); go rest
    | "+" :: rest ->
      (match !cur with Some c -> let (n, a, ms, _) = flush_mod c in cur := Some (n, a, ms, Some []) | None -> ());
      go rest
    | w :: rest ->
      (match !cur with
       | Some (n, a, ms, Some d) ->
         (match parse_decl w with Some x -> cur := Some (n, a, ms, Some (x :: d)) | None -> ())
       | _ -> ());
      go rest in
  go ws; List.rev !entries

let parse_op s =
  match words s with
  | [] -> None
  | "L" :: ds -> Some (Op (Load (List.filter_map parse_decl ds)))
  | ["X"; n; a] -> Some (Op (LoadExternal (nat_of_int (int_of_string n), nat_of_int (int_of_string a))))
  | ["R"; b] -> Some (Op (SetRedef (int_of_string b <> 0)))
  | "K" :: mask :: rest ->
    let r = mask_resolver (int_of_string mask) in
    if rest = ["n"] then Some (Op (LinkNoIface r)) else Some (Op (Link r))
  | "J" :: mask :: _ :: rest -> Some (LinkRe (parse_script rest, mask_resolver (int_of_string mask)))
  | _ -> failwith ("bad op: " ^ s)

let err_name = function
  | ERepeatedDecl -> "repeated_decl" | EImportExport -> "import_export"
  | EUndeclaredOpRef -> "undeclared_op_ref" | EInternal -> "internal"

(* [live id]: the module's interface has been set (its functions can be called); [values]: print
   what calling/reading through an import yields *)
let show_binding ?(nulled=false) ?(unsure=(fun _ -> None)) live values ((k, n), d) =
  let kc = match k with KImport -> "i" | KExport -> "e" | KForward -> "f" | _ -> "?" in
  let n = int_of_nat n in
  let tag, v = match d with
    | None -> "null", None
    | Some (DExt a) -> Printf.sprintf "X%d" (int_of_nat a),
                       if nulled then None else Some (string_of_int (9000 + int_of_nat a))
    | Some (DMod (id, idx, k)) ->
      (match k with
       | KFunc -> Printf.sprintf "M%d.%d" (int_of_nat id) (int_of_nat idx),
                  if not (live (int_of_nat id)) then Some "dead"
                  else if nulled then None
                  else Some (string_of_int (1000 + 16 * int_of_nat id + n))
       | KData -> Printf.sprintf "M%d.%d" (int_of_nat id) (int_of_nat idx), Some (string_of_int (5000 + 16 * int_of_nat id + n))
       | _ -> "null", None) in
  let v = match v, d, unsure n with
    | Some vold, Some (DMod (_, _, KFunc) | DExt _), Some vnew when vold <> "dead" && vnew <> vold ->
      Some (Printf.sprintf "?%s|%s" vold vnew)
    | _ -> v in
  match k, v with
  | KImport, Some v when values -> Printf.sprintf "%s%d=%s/%s" kc n tag v
  | _ -> Printf.sprintf "%s%d=%s" kc n tag

(* for a Load that the model rejects with repeated_decl: does the module export a function whose name
   was exported as a MIR FUNCTION by an earlier successful load (the case the property text names and
   theorem second_function_export_rejected states: ANY earlier function export in the log [pubs] of the
   trace counts, also when an external address, a resolver answer, data or a proto of that name was
   registered in between and is what the table of globals holds now), or does it clash only with
   such other definitions?  "*" marks the latter.  [log] is [pubs] of the trace so far. *)
let clash_mark st log o =
  match o with
  | Load ds ->
    (match build ds with
     | Inl m ->
       let fs = List.filter_map (function (n, DMod (_, _, KFunc)) -> Some n | _ -> None) (exported st.nloads m) in
       let func_before n = List.exists (function (n', DMod (_, _, KFunc)) -> n' = n | _ -> false) log in
       if List.exists func_before fs then ""
       else if List.exists (fun n -> assoc st.env n <> None) fs then "*"
       else ""
     | Inr _ -> "")
  | _ -> ""

let show_res res =
  "res=[" ^ String.concat "," (List.map (fun (n, a) ->
      Printf.sprintf "n%d:%d" (int_of_nat n) (int_of_nat a)) res) ^ "]"

let show_ref = function
  | DExt a -> Printf.sprintf "X%d" (int_of_nat a)
  | DMod (id, idx, (KFunc | KData)) -> Printf.sprintf "M%d.%d" (int_of_nat id) (int_of_nat idx)
  | DMod (_, _, _) -> "null"

let show_rlog res =
  "res=[" ^ String.concat "," (List.map (fun (n, d) -> Printf.sprintf "n%d:%s" (int_of_nat n) (show_ref d)) res) ^ "]"

(* what a link with a scripted resolver made visible (for [clash_mark]'s log): the exported items of
   the script modules that were loaded (they are queued or linked afterwards) and the answers *)
let pubs_of_re before sc (s' : state) res =
  let loaded id = List.exists (fun (i, _) -> i = id) s'.linked || List.exists (fun m -> m.lid = id) s'.to_link in
  let id = ref before.nloads in
  let out = ref [] in
  List.iter (fun (_, (dss, _)) ->
      List.iter (fun ds ->
          (match build ds with
           | Inl m -> if loaded !id then out := !out @ exported !id m
           | Inr _ -> ());
          id := S !id) dss) sc;
  !out @ res

(* the harness prints the linked modules in module-number order *)
let by_id l = List.stable_sort (fun (a, _) (b, _) -> compare (int_of_nat a) (int_of_nat b)) l

let run_history line =
  let ops = List.filter_map (fun s -> match parse_op s with Some o -> Some (o, is_quiet s) | None -> None)
      (String.split_on_char ';' line) in
  let b = Buffer.create 256 in
  let st = ref init in
  let nulled = ref [] in   (* modules that went through a NULL-interface link *)
  (* known finding reent-load-redef-inline.  ((module, name), value of the newer function): an import bound
     (to a function or an external) by a link step DURING which, after the binding, a load performed by the
     resolver REDEFINED the name with a MIR function: the address stays the older definition's, but
     process_inlines follows the table entry (updated in place) and may inline the NEWER body.  The call
     value is printed as `?<older>|<newer>`: the check accepts exactly these two values and reports the
     newer one as the known finding (design/C13.md, Round 3 wave 5) *)
  let unsure = ref [] in
  let log = ref [] in      (* pubs of the trace so far: every definition made visible, oldest first *)
  let first = ref true in
  (try
     List.iter (fun (ho, quiet) ->
         let before = !st in
         let log_before = !log in
         let show_linked (s' : state) =
           let live id = List.exists (fun (i, _) -> int_of_nat i = id) s'.linked in
           if not quiet then List.iter (fun (id, bs) ->
               Buffer.add_string b (Printf.sprintf " m%d{%s}" (int_of_nat id)
                                      (String.concat " " (List.map (show_binding ~nulled:(List.mem id !nulled)
                                                                      ~unsure:(fun n -> List.assoc_opt (id, n) !unsure) live true) bs))))
               (by_id s'.linked) in
         match ho with
         | LinkRe (sc, fb) ->
           let (s', out) = step_re !st sc fb in
           st := s';
           (match out with RSkipped -> raise Exit | _ -> ());
           if not !first then Buffer.add_string b " | ";
           first := false;
           (match out with
            | RLinked (bs, res) ->
              List.iter (fun (id, l) -> List.iter (fun ((k, n), d) ->
                  match k, d with
                  | KImport, Some (DMod (_, _, KFunc) | DExt _) when assoc s'.env n <> d ->
                    (match assoc s'.env n with
                     | Some (DMod (id', _, KFunc)) ->
                       unsure := ((id, int_of_nat n), string_of_int (1000 + 16 * int_of_nat id' + int_of_nat n)) :: !unsure
                     | _ -> ())
                  | _ -> ()) l) bs;
              log := !log @ pubs_of_re before sc s' res;
              Buffer.add_string b ("ok " ^ show_rlog res);
              show_linked s'
            | RFailed (e, res) ->
              log := !log @ pubs_of_re before sc s' res;
              Buffer.add_string b ("E:" ^ err_name e ^ " " ^ show_rlog res)
            | RBuildErr e -> Buffer.add_string b ("E:" ^ err_name e)
            | RSkipped -> ())
         | Op o ->
         let (s', out) = step (not pinned) !st o in
         st := s';
         log := !log @ pubs_of_step before.nloads o out;
         (match out with
          | OSkipped -> raise Exit
          | _ -> ());
         if not !first then Buffer.add_string b " | ";
         first := false;
         let live id = List.exists (fun (i, _) -> int_of_nat i = id) s'.linked in
         match out with
         | OOk -> Buffer.add_string b "ok"
         | OErr ERepeatedDecl ->
           Buffer.add_string b ("E:repeated_decl" ^ clash_mark before log_before o);
           if stop_at_rejection && not s'.dead then raise Exit
         | OErr e -> Buffer.add_string b ("E:" ^ err_name e)
         | OLinkFailed res -> Buffer.add_string b ("E:undeclared_op_ref " ^ show_res res)
         | OLinked (_, res) ->
           Buffer.add_string b ("ok " ^ show_res res);
           if not quiet then List.iter (fun (id, bs) ->
               Buffer.add_string b (Printf.sprintf " m%d{%s}" (int_of_nat id)
                                      (String.concat " " (List.map (show_binding ~nulled:(List.mem id !nulled)
                                                                      ~unsure:(fun n -> List.assoc_opt (id, n) !unsure) live true) bs))))
             (by_id s'.linked)
         | OBound (bs, res) ->
           Buffer.add_string b ("ok " ^ show_res res);
           List.iter (fun (id, _) -> if not (List.mem id !nulled) then nulled := id :: !nulled) bs;
           List.iter (fun (id, bs) ->
               Buffer.add_string b (Printf.sprintf " p%d{%s}" (int_of_nat id)
                                      (String.concat " " (List.map (show_binding live false) bs))))
             (by_id bs)
         | OSkipped -> ()) ops
   with Exit -> ());
  print_endline (Buffer.contents b)

let () =
  try
    while true do
      let line = input_line stdin in
      if String.trim line = "" || line.[0] = '#' then print_endline "" else run_history line
    done
  with End_of_file -> ()

#!/bin/sh
# Offline setup: build the whole Coq development (full .vo), the extracted OCaml drivers and warm
# the cache of /repo objects.  Everything is rebuilt on demand by ./check as well.
set -e
cd "$(dirname "$0")"
python3 tools/setup.py

# C05: calls from MIR code to native functions follow the x86-64 SysV ABI for every prototype.
# Proofs: coq/Properties_C05.v (assignment loops of _MIR_get_ff_call / machinize_call = psABI algorithm,
# stack alignment, result registers, %al).  Tie: the extracted model's predicted register/stack image
# vs. the image captured by an assembly probe callee called from interpreted and generated MIR code,
# plus gcc-compiled callers/callees generated from the same prototypes (validates the model itself).
import os, sys, json, binascii
import vlib
sys.path.insert(0, os.path.join(vlib.VERIF, 'tools'))
import gen_c05_cases as G
import tr_c05_abi

LEVEL = 'proof'
ENGINES_QUICK = ['interp', 'gen0', 'gen1', 'gen2', 'gen3']
VALS_ADDR = 0x20000000


def build(chk):
    impl = vlib.build_harness('c05_probe', ['c05_probe.c', 'c05_asm.S'])
    model = vlib.ocaml_build('c05', 'Extract_C05', ['c05x'], 'driver_c05.ml')
    return impl, model


def write_gen_file(protos):
    import gen_c05_cfile as C
    import hashlib
    text, ok = C.gen_cfile(protos)
    d = os.path.join(vlib.BUILD, 'c05gen')
    os.makedirs(d, exist_ok=True)
    path = os.path.join(d, 'gen_%s.c' % hashlib.sha1(text.encode()).hexdigest()[:12])
    if not os.path.exists(path):
        with open(path + '.tmp%d' % os.getpid(), 'w') as f:
            f.write(text)
        os.rename(path + '.tmp%d' % os.getpid(), path)
    for old in sorted(os.listdir(d), key=lambda x: os.path.getmtime(os.path.join(d, x)))[:-24]:
        try:
            os.remove(os.path.join(d, old))
        except OSError:
            pass
    return path, ok


def build_gen(chk, protos):
    """harness variant that also contains gcc-compiled callers/callees for the expressible prototypes"""
    path, ok = write_gen_file(protos)
    impl = vlib.build_harness('c05_probe_g', ['c05_probe.c', 'c05_asm.S', path], extra_flags=['-fno-strict-aliasing'])
    return impl, ok


def drop_build(exe):
    """one-off harness builds (shrinking, replay) are not worth keeping in the shared build cache"""
    try:
        os.remove(exe)
    except OSError:
        pass


def build_c2m(chk, protos):
    """harness variant linked with the c2mir unit of the checked tree (mode c2m: C source compiled by c2mir inside the
    harness) plus the gcc-compiled callers/callees of the same prototypes"""
    path, ok = write_gen_file(protos)
    impl = vlib.build_harness('c05_probe_c2m', ['c05_probe.c', 'c05_asm.S', path], units=('mir', 'mir-gen', 'c2mir'),
                              extra_flags=['-fno-strict-aliasing', '-DC05_C2M=1'])
    return impl, ok


def three_way(chk, impl_g, model, protos, ok, rng, engines):
    """(1) gcc-compiled caller -> assembly probe must produce the model's image (validates SysV.v against
    the platform compiler; a mismatch is a defect of the MODEL, reported as an internal error);
    (2) MIR caller -> gcc-compiled callee: the callee must see every argument value, MIR every result."""
    lines, meta = [], []
    for k in ok:
        p = protos[k]
        vals, rets = G.gen_values(rng, p)
        vals = G.fix_values(p, vals, rng)
        meta.append((k, p, vals, rets))
        lines.append(case_line('g%d' % k, 'gcc', '-', 'gcaller%d' % k, None, G.vals_bytes(p, vals), G.ret_bytes_n(p, rets)))
        for e in engines:
            lines.append(case_line('m%d.%s' % (k, e), 'c05', e, 'callee%d' % k, G.c05_mir(p), G.vals_bytes(p, vals),
                                   G.ret_bytes_n(p, rets)))
    rows, err = G.run_harness(vlib, impl_g, lines)
    mlines = [G.model_line('g%d' % k, p, vals, rets, VALS_ADDR) for k, p, vals, rets in meta]
    rc2, mout, merr = vlib.run_lines(model, mlines, timeout=600)
    if rc2 != 0 or len(mout) != len(mlines):
        raise vlib.BuildError('model driver failed rc=%d: %s' % (rc2, merr[-800:]))
    model_bad, found = [], []
    for (k, p, vals, rets), ml in zip(meta, mout):
        m = G.parse_model(ml)
        r = rows.get('g%d' % k, dict(status='missing'))
        chk.count(('gcc', G.proto_sig(p)), nontrivial=len(p['args']) >= 2)
        chk.dist('threeway', 'gcc-caller->probe')
        # (1) only the argument image / alignment / %al are compared for the gcc caller
        pm = dict(m, res=[], rv=[])
        if p['args'] and p['args'][0].startswith('rblk'):
            pm['img'] = m['img'][1:]  # the hidden return-block pointer is the C caller's own temporary
        b = G.compare_c05(dict(p, res=[]), pm, r, rets)
        if b:
            model_bad.append('%s: %s' % (G.proto_sig(p), '; '.join(b[:3])))
            continue
        offs, _ = G.layout(p)
        for e in engines:
            r = rows.get('m%d.%s' % (k, e), dict(status='missing', detail=''))
            chk.count(('callee', G.proto_sig(p), e), nontrivial=len(p['args']) >= 2)
            chk.dist('threeway', 'mir->gcc-callee')
            bad = []
            if r['status'] != 'ok':
                bad.append('%s %s' % (r['status'], r.get('detail', '')))
            else:
                seen = r['seen']
                for i, (t, v, o) in enumerate(zip(p['args'], vals, offs)):
                    if t.startswith('rblk'):
                        continue
                    n = {'i8': 1, 'u8': 1, 'i16': 2, 'u16': 2, 'i32': 4, 'u32': 4}.get(t, len(v))
                    if seen[o:o + n] != v[:n]:
                        bad.append('gcc-compiled callee sees argument %d (%s) = %s, MIR passed %s' % (i, t, seen[o:o + n].hex(), v[:n].hex()))
                if not p['args'] or not p['args'][0].startswith('rblk'):
                    bad += [x for x in G.compare_c05(dict(p, args=[], nfixed=0, vararg=False), dict(m, img=[]), dict(r, img=None), rets, results_only=True)]
            if bad:
                found.append((dict(calls=[dict(proto=p, vals=vals)], rets=rets, engine=e, target='callee%d' % k), bad, m))
    if model_bad:
        raise vlib.BuildError('INTERNAL: the SysV model (coq/C05/SysV.v) disagrees with the platform compiler (gcc caller -> '
                              'assembly probe); this is a defect of the verification model, not of /repo: ' + ' | '.join(model_bad[:4]))
    return found


def c2m_protos(chk, quick):
    import gen_c05_cfile as C
    rng = chk.rng('c2m')
    protos = G.aggregate_core()
    corpus = os.path.join(vlib.VERIF, 'corpus', 'c05_c2m.jsonl')
    if os.path.exists(corpus):
        for l in open(corpus):
            l = l.strip()
            if l and not l.startswith('#'):
                protos.append(json.loads(l))
    protos += G.shaped_core()   # aggregates given as C type trees: nested members sharing eightbytes with siblings
    ncore = len(protos)
    want = ncore + (110 if quick else 2400)
    tries = 0
    while len(protos) < want and tries < 20 * want:
        tries += 1
        r = rng.random()
        p = G.gen_shaped_proto(rng) if r < 0.4 else G.gen_aggregate_proto(rng) if r < 0.85 else G.gen_proto(rng, min_fixed=1, cf=True)
        if C.c2m_expressible(p) is not None:
            protos.append(p)
    protos = [p for p in protos if C.c2m_expressible(p) is not None]
    return protos, ncore


def c2m_seen_mismatches(p, vals, rets, r, who_sees, who_passed, check_args=True):
    """argument values as the callee stored them into c05_seen / result as the caller stored it at c05_seen+2048"""
    import gen_c05_cfile as C
    bad = []
    seen = r['seen']
    offs, _ = G.layout(p)
    if check_args:
        for i, (t, v, o) in enumerate(zip(p['args'], vals, offs)):
            if t.startswith('rblk'):
                continue
            n = {'i8': 1, 'u8': 1, 'i16': 2, 'u16': 2, 'i32': 4, 'u32': 4}.get(t, len(v))
            cv = (p.get('cval') or [None] * len(vals))[i]   # C shapes: padding bytes carry no value
            if (seen[o:o + n] != v[:n]) if cv is None else any(seen[o + b] != v[b] for b in cv):
                bad.append('%s sees argument %d (%s%s) = %s, %s passed %s' % (who_sees, i, t, ' variadic' if i >= p['nfixed'] else '',
                                                                          seen[o:o + n].hex(), who_passed, v[:n].hex()))
    for off, want in C.c_result_bytes(p, rets):
        got = seen[2048 + off:2048 + off + len(want)]
        if p.get('rval') is not None:
            keep = [b - off for b in p['rval'] if off <= b < off + len(want)]
            got, want = bytes(got[b] for b in keep), bytes(want[b] for b in keep)
        if got != want:
            bad.append('%s receives result bytes %s at +%d, %s returned %s' % (who_passed, got.hex(), off, who_sees, want.hex()))
    return bad


def c2m_run(impl, model, items, engines_of):
    """items: [(k, proto, vals, rets)] with k = index into the harness' generated table.
    Three directions per prototype and engine:
      a: c2m-compiled caller -> assembly probe   (image must equal the SysV model's, result bytes as preset)
      b: c2m-compiled caller -> gcc-compiled callee (callee must see every value, caller the result)
      r: gcc-compiled caller -> c2m-compiled callee (same, other direction)
    plus g: gcc-compiled caller -> assembly probe (validates the model; a mismatch is an INTERNAL error).
    Returns [(direction, k, proto, vals, rets, engine, mismatches, model row)]"""
    import gen_c05_cfile as C
    lines = []
    for k, p, vals, rets in items:
        vb, io = G.vals_bytes(p, vals), G.ret_bytes_n(p, rets)
        lines.append(case_line('g%d' % k, 'gcc', '-', 'gcaller%d' % k, None, vb, io))
        cs, es = C.c2m_caller_source(p), C.c2m_callee_source(p)
        for e in engines_of(k, 'a'):
            lines.append(case_line('a%d.%s' % (k, e), 'c2m', e, 'probe', cs, vb, io))
        for e in engines_of(k, 'b'):
            lines.append(case_line('b%d.%s' % (k, e), 'c2m', e, 'callee%d' % k, cs, vb, io))
        for e in engines_of(k, 'r'):
            lines.append(case_line('r%d.%s' % (k, e), 'c2m', e, 'gcaller%d' % k, es, vb, io))
    rows, err = G.run_harness(vlib, impl, lines)
    mlines = [G.model_line('g%d' % k, p, vals, rets, VALS_ADDR) for k, p, vals, rets in items]
    rc2, mout, merr = vlib.run_lines(model, mlines, timeout=600)
    if rc2 != 0 or len(mout) != len(mlines):
        raise vlib.BuildError('model driver failed rc=%d: %s' % (rc2, merr[-800:]))
    out, model_bad = [], []
    for (k, p, vals, rets), ml in zip(items, mout):
        m = G.parse_model(ml)
        pm = dict(m, res=[], rv=[])
        if p['args'] and p['args'][0].startswith('rblk'):
            pm['img'] = m['img'][1:]  # the hidden return-block pointer is the C caller's own temporary
        pa = dict(p, res=[])
        b = G.compare_c05(pa, pm, rows.get('g%d' % k, dict(status='missing')), rets)
        if b:
            model_bad.append('%s: %s' % (G.proto_sig(p), '; '.join(b[:3])))
            continue
        missing = dict(status='missing', detail=err[-200:])
        for e in engines_of(k, 'a'):
            r = rows.get('a%d.%s' % (k, e), missing)
            bad = G.compare_c05(pa, pm, r, rets)
            if r['status'] == 'ok':
                bad += c2m_seen_mismatches(p, vals, rets, r, 'the probe', 'the c2m-compiled caller', check_args=False)
            out.append(('a', k, p, vals, rets, e, bad, m))
        for e in engines_of(k, 'b'):
            r = rows.get('b%d.%s' % (k, e), missing)
            bad = ['%s %s' % (r['status'], r.get('detail', ''))] if r['status'] != 'ok' else \
                c2m_seen_mismatches(p, vals, rets, r, 'the gcc-compiled callee', 'the c2m-compiled caller')
            out.append(('b', k, p, vals, rets, e, bad, m))
        for e in engines_of(k, 'r'):
            r = rows.get('r%d.%s' % (k, e), missing)
            bad = ['%s %s' % (r['status'], r.get('detail', ''))] if r['status'] != 'ok' else \
                c2m_seen_mismatches(p, vals, rets, r, 'the c2m-compiled callee', 'the gcc-compiled caller')
            out.append(('r', k, p, vals, rets, e, bad, m))
    if model_bad:
        raise vlib.BuildError('INTERNAL: the SysV model (coq/C05/SysV.v) disagrees with the platform compiler (gcc caller -> '
                              'assembly probe); this is a defect of the verification model, not of /repo: ' + ' | '.join(model_bad[:4]))
    return out


C2M_DIR = {'a': 'c2m-compiled caller -> assembly probe', 'b': 'c2m-compiled caller -> gcc-compiled callee',
           'r': 'gcc-compiled caller -> c2m-compiled callee'}


def c2m_shrink(model, p, vals, rets, dirn, engine):
    """drop arguments while the (rebuilt) case still fails in the same direction; each candidate needs its own
    gcc-compiled counterpart, so the number of rebuilds is bounded"""
    import gen_c05_cfile as C
    budget = [14]

    def fails(p2, v2):
        if budget[0] <= 0 or C.c2m_expressible(p2) is None:
            return False
        budget[0] -= 1
        impl, ok = build_c2m(None, [p2])
        try:
            if not ok:
                return False
            res = c2m_run(impl, model, [(0, p2, v2, rets)], lambda k, d: [engine] if d == dirn else [])
        finally:
            drop_build(impl)
        return any(bad for _, _, _, _, _, _, bad, _ in res)
    changed = True
    while changed and budget[0] > 0:
        changed = False
        for i in range(len(p['args']) - 1, -1, -1):
            if p['vararg'] and i < p['nfixed'] and p['nfixed'] <= 1:
                continue
            p2 = dict(p, args=p['args'][:i] + p['args'][i + 1:], nfixed=p['nfixed'] - (1 if i < p['nfixed'] else 0))
            if p.get('cty'):
                p2['cty'] = p['cty'][:i] + p['cty'][i + 1:]
                p2['cval'] = p['cval'][:i] + p['cval'][i + 1:]
            v2 = vals[:i] + vals[i + 1:]
            if fails(p2, v2):
                p, vals, changed = p2, v2, True
                break
    return p, vals


def c2m_stage(chk, model, quick):
    """C sources with aggregate-passing prototypes compiled by c2mir (inside the harness, checked tree's c2mir unit)
    against the assembly probe and gcc-compiled counterparts"""
    import gen_c05_cfile as C
    protos, ncore = c2m_protos(chk, quick)
    impl, ok = build_c2m(chk, protos)
    rng = chk.rng('c2m-vals')
    items = []
    for k in ok:
        vals, rets = G.gen_values(rng, protos[k])
        items.append((k, protos[k], G.zero_padding(protos[k], G.fix_values(protos[k], vals, rng)), rets))
    pick = {k: rng.choice(ENGINES_QUICK[1:]) for k in ok}
    def engines_of(k, d):
        if not quick:
            es = ENGINES_QUICK
        elif k < ncore:
            es = ENGINES_QUICK if d == 'a' else ['interp', pick[k]]
        else:
            es = ['interp', pick[k]] if d == 'a' else [pick[k]]
        return es
    res = c2m_run(impl, model, items, engines_of)
    found = {}
    for d, k, p, vals, rets, e, bad, m in res:
        chk.count(('c2m', d, G.proto_sig(p), e), nontrivial=sum(1 for a in p['args'] if a.startswith('blk')) >= 2)
        chk.dist('c2m_direction', C2M_DIR[d])
        chk.dist('c2m_aggregates_per_prototype', min(sum(1 for a in p['args'] if a.startswith('blk')), 6))
        if bad:
            found.setdefault((d, 'interp' if e == 'interp' else 'gen', G.proto_sig(p)), (d, k, p, vals, rets, e, bad, m))
    nshape = sum(1 for _, p, _, _ in items if p.get('cty') or p.get('rcty'))
    for _, p, _, _ in items:
        chk.dist('c2m_aggregate_types', 'C type trees (nested struct/union/array members sharing eightbytes)' if p.get('cty') or p.get('rcty')
                 else 'one flat struct per class')
    chk.cov['c2m_stage'] = ('%d prototypes with by-value aggregates (C structs of every psABI class; %d core: fit test of aggregate '
                            'arguments + every aimed nested shape of gen_c05_ctypes.aimed_shapes, the rest generated; %d pass/return '
                            'aggregates given as C type trees) compiled by c2mir inside the harness x {interp, gen -O0..-O3}: '
                            'c2m caller -> assembly probe (SysV model image), c2m caller -> gcc callee, gcc caller -> c2m callee'
                            % (len(items), ncore, nshape))
    return [found[k] for k in sorted(found)]


def case_line(cid, mode, engine, target, mir, vals, io):
    return ' '.join([cid, mode, engine, target, G.hexs(mir.encode()) if mir else '-', G.hexs(vals), G.hexs(io)])


def norm(c):
    """a case is a session: calls = [(proto, vals), ...] made one after the other in one context"""
    if 'calls' not in c:
        c = dict(c, calls=[dict(proto=c['proto'], vals=c['vals'])])
    return c


def run_cases(impl, model, cases):
    """cases: list of dict(calls=[dict(proto, vals)], rets, engine, target).
    Returns list of (case, mismatches, modelrow of the first failing (or first) call)"""
    cases = [norm(c) for c in cases]
    lines = []
    for i, c in enumerate(cases):
        protos = [x['proto'] for x in c['calls']]
        lines.append(case_line('c%d' % i, 'c05', c['engine'], c.get('target', 'probe'), G.c05_mir(protos),
                               G.session_vals(protos, [x['vals'] for x in c['calls']]),
                               G.ret_bytes_n(protos[0], c['rets'])))
    rows, err = G.run_harness(vlib, impl, lines)
    mlines = []
    for i, c in enumerate(cases):
        for k, x in enumerate(c['calls']):
            mlines.append(G.model_line('c%d.%d' % (i, k), x['proto'], x['vals'], c['rets'], VALS_ADDR + G.VBASE * k))
    rc2, mout, merr = vlib.run_lines(model, mlines, timeout=600)
    if rc2 != 0 or len(mout) != len(mlines):
        raise vlib.BuildError('model driver failed rc=%d: %s' % (rc2, merr[-800:]))
    ms = {}
    for l in mout:
        m = G.parse_model(l)
        ms[m['id']] = m
    res = []
    for i, c in enumerate(cases):
        r = rows.get('c%d' % i, dict(status='missing', detail='no output from harness: ' + err[-200:]))
        bad, mfirst = [], ms['c%d.0' % i]
        for k, x in enumerate(c['calls']):
            m = ms['c%d.%d' % (i, k)]
            if r['status'] == 'ok':
                key = 'img' if k == 0 else 'img%d' % k
                rk = dict(r, img=r.get(key, b''), outs=r['outs'][G.OBASE * k:G.OBASE * (k + 1)])
                if not rk['img']:
                    rk = dict(status='missing', detail='call %d of the session did not run' % k)
            else:
                rk = r
            bk = G.compare_c05(x['proto'], m, rk, c['rets'])
            if bk:
                if len(c['calls']) > 1:
                    bk = ['call %d (%s): %s' % (k, G.proto_sig(x['proto']), b) for b in bk]
                if not bad:
                    mfirst = m
                bad += bk
            if r['status'] != 'ok':
                break
        res.append((c, bad, mfirst))
    return res


def shrink_case(impl, model, c):
    """drop calls, then arguments / results, while the case still fails"""
    c = norm(c)

    def fails(cc):
        bad = run_cases(impl, model, [cc])[0][1]
        return bool(bad)
    calls = list(c['calls'])
    k = 0
    while len(calls) > 1 and k < len(calls):
        cand = calls[:k] + calls[k + 1:]
        nld = lambda p: sum(1 for t in p['res'] if t == 'ld')
        if nld(cand[0]['proto']) == nld(calls[0]['proto']) and fails(dict(c, calls=cand)):
            calls = cand
        else:
            k += 1
    changed = True
    while changed:
        changed = False
        for k in range(len(calls)):
            proto, vals = calls[k]['proto'], calls[k]['vals']
            for i in range(len(proto['args']) - 1, -1, -1):
                p2 = dict(proto)
                p2['args'] = proto['args'][:i] + proto['args'][i + 1:]
                p2['nfixed'] = proto['nfixed'] - (1 if i < proto['nfixed'] else 0)
                v2 = vals[:i] + vals[i + 1:]
                cand = calls[:k] + [dict(proto=p2, vals=v2)] + calls[k + 1:]
                if fails(dict(c, calls=cand)):
                    calls, proto, vals, changed = cand, p2, v2, True
            for i in range(len(proto['res']) - 1, -1, -1):
                if proto['res'][i] == 'ld' and len(calls) > 1:
                    continue
                p2 = dict(proto)
                p2['res'] = proto['res'][:i] + proto['res'][i + 1:]
                cand = calls[:k] + [dict(proto=p2, vals=vals)] + calls[k + 1:]
                if fails(dict(c, calls=cand)):
                    calls, proto, changed = cand, p2, True
    return dict(c, calls=calls)


def replay_obj(c, bad, m):
    c = norm(c)
    return dict(calls=[dict(proto=x['proto'], vals=[v.hex() for v in x['vals']]) for x in c['calls']],
                engine=c['engine'], target=c.get('target', 'probe'),
                rets={k: (v.hex() if isinstance(v, (bytes, bytearray)) else v) for k, v in c['rets'].items()},
                mismatches=bad, model_image=['%s=%s/%d' % x for x in m['img']], model_agree=m.get('agree'),
                mir=G.c05_mir([x['proto'] for x in c['calls']]))


def signature(c, bad=None, m=None):
    """stable id of a failing call shape: engine class + prototype(s)"""
    c = norm(c)
    eng = 'interp' if c['engine'] == 'interp' else 'gen'
    return 'c05:%s:%s' % (eng, ' ; '.join(G.proto_sig(x['proto']) for x in c['calls']))


def gen_cases(chk, quick):
    rng = chk.rng('protos')
    protos = G.boundary_protos()
    corpus = os.path.join(vlib.VERIF, 'corpus', 'c05.jsonl')
    if os.path.exists(corpus):
        for l in open(corpus):
            l = l.strip()
            if l and not l.startswith('#'):
                protos.append(json.loads(l))
    n = 160 if quick else 3000
    for _ in range(n):
        protos.append(G.gen_proto(rng))
    cases = []
    engines = ENGINES_QUICK
    for k, p in enumerate(protos):
        vals, rets = G.gen_values(rng, p)
        vals = G.fix_values(p, vals, rng)
        for e in (engines if (not quick or k < 60) else ['interp', rng.choice(engines[1:])]):
            cases.append(dict(calls=[dict(proto=p, vals=vals)], rets=rets, engine=e))
    # sessions: several calls in one context through related prototypes (per-signature caches,
    # lazily created trampolines): p, a one-aspect variant q, then p again / another variant
    ns = 60 if quick else 1200
    for k in range(ns):
        p = G.gen_proto(rng, maxargs=10) if k % 3 else rng.choice(G.session_seeds())
        seq = [p, G.related_proto(rng, p)]
        seq.append(rng.choice([p, G.related_proto(rng, seq[1]), G.related_proto(rng, p)]))
        calls = []
        for q in seq:
            v, rets = G.gen_values(rng, q)
            calls.append(dict(proto=q, vals=G.fix_values(q, v, rng)))
        for e in ['interp', rng.choice(engines[1:])]:
            cases.append(dict(calls=calls, rets=rets, engine=e))
    for seq in G.result_class_sessions():
        calls = []
        for q in seq:
            v, rets = G.gen_values(rng, q)
            calls.append(dict(proto=q, vals=G.fix_values(q, v, rng)))
        for e in ['interp', rng.choice(engines[1:])]:
            cases.append(dict(calls=calls, rets=rets, engine=e))
    return cases


def coqchk(chk):
    """thorough tier: re-check the compiled property file and everything it depends on with Coq's
    independent checker and record the axioms it reports"""
    rc, out, err = vlib.sh(['timeout', '1500', 'coqchk', '-o', '-silent', '-Q', '.', 'MirV', 'MirV.Properties_%s' % chk.prop],
                           cwd=vlib.COQDIR)
    txt = out + err
    ok = rc == 0 and 'Axioms: <none>' in txt.replace('\n  ', ' ').replace('* Axioms:\n', '* Axioms: ')
    import re
    m = re.search(r'\* Axioms:(.*?)\* Constants', txt, re.S)
    chk.cov['coqchk'] = dict(rc=rc, axioms=(m.group(1).strip() if m else '?'))
    if rc != 0:
        chk.notes.append('coqchk failed: ' + txt[-400:])
    return rc == 0


def run(chk):
    quick = chk.tier == 'quick'
    # conversion tables, register tables, call-used test, ALLOCA templates, pattern table and stub bytes are
    # regenerated from the checked tree (coq/gen/C05Abi.v) before the proofs are re-checked
    _, tnotes = tr_c05_abi.generate()
    for n in tnotes:
        chk.log('note: ' + n)
        chk.notes.append(n)
    chk.cov['trusted_base'] += ['translator tools/tr_c05_abi.py (gcc -E -P -U_WIN32 + regular expressions over get_ext_code, '
                                'get_int/fp_arg_reg, target_call_used_hard_reg_p, patterns[], out_insn, the ext switches of mir.c, the '
                                'conversion switches of mir-interp.c, the byte arrays of mir-x86_64.c; finite tables by executing the generator\'s '
                                'own functions: harness/c05_tables.c); a part that is not recognised falls back to the reviewed '
                                'model and is reported as a note']
    r = chk.prove()
    if not quick and r['ok'] and not coqchk(chk):
        r = dict(r, ok=False, log=r['log'] + '\ncoqchk rejected the compiled proofs')
    impl, model = build(chk)
    G.anchor_drift(vlib, chk)
    chk.cov['trusted_base'] += ['extraction: ExtrOcamlBasic only, no Extract Constant/Inductive of our own',
                                'ocaml/driver_c05.ml (parse + print), harness/c05_probe.c + c05_asm.S (assembly probe), '
                                'tools/gen_c05_cases.py (MIR text generation, image comparison), GNU as, gcc 12']
    cases = gen_cases(chk, quick)
    # size-0 blocks (empty struct by value; fix C05-6 is in /repo): always generated
    rng0 = chk.rng('size0')
    w0 = dict(args=['i64'] * 7 + ['blk:0'], nfixed=8, vararg=False, res=['i64'], style='boundary')
    protos0 = [w0, dict(args=['blk:0', 'i64'], nfixed=2, vararg=False, res=[], style='boundary'),
               dict(args=['i64'] * 6 + ['blk:0', 'i64', 'blk:0', 'd', 'i64'], nfixed=11, vararg=False, res=['d'], style='boundary'),
               dict(args=['p', 'i64', 'blk:0', 'd'], nfixed=1, vararg=True, res=[], style='boundary'),
               dict(args=['d'] * 9 + ['blk:0', 'd', 'ld'], nfixed=12, vararg=False, res=['ld'], style='boundary')]
    for p0 in protos0:
        vv, rr = G.gen_values(rng0, p0)
        vv = G.fix_values(p0, vv, rng0)
        for e in ENGINES_QUICK:
            cases.append(dict(calls=[dict(proto=p0, vals=vv)], rets=rr, engine=e))
    chk.cov['size0_blocks'] = 'generated'
    for c in cases:
        chk.dist('engine', c['engine'])
        chk.dist('calls_per_context', len(c['calls']))
        for x in c['calls']:
            p = x['proto']
            chk.count((G.proto_sig(p), c['engine'], [v.hex() for v in x['vals']], len(c['calls'])),
                      nontrivial=len(p['args']) + len(p['res']) >= 2)
            chk.dist('nargs', min(len(p['args']), 20) // 4 * 4)
            chk.dist('vararg', p['vararg'])
            chk.dist('nres', len(p['res']))
            for a in p['args']:
                chk.dist('argkind', a.split(':')[0])
            for a in p['res']:
                chk.dist('reskind', a)
    chk.cov['rule'] = ('seeded + boundary + corpus prototypes x random bit patterns x {interp FFI, gen -O0..-O3}: the '
                       'register/stack image captured by the assembly probe callee must equal the image predicted by the '
                       'extracted SysV model; a case is non-trivial when it has >= 2 arguments+results; distinct by '
                       'prototype+engine+values')
    for c in cases[:2] + cases[-2:]:
        chk.sample(dict(calls=[G.proto_sig(x['proto']) for x in c['calls']], engine=c['engine']))
    res = run_cases(impl, model, cases)
    seen = set()
    nbad = 0
    for c, bad, m in res:
        chk.dist('model_agree', m.get('agree'))
        if not bad:
            continue
        sig = signature(c, bad, m)
        if sig in seen:
            continue
        seen.add(sig)
        nbad += 1
        if nbad > 12:
            continue
        small = shrink_case(impl, model, c)
        (c2, bad2, m2), = run_cases(impl, model, [small])
        if not bad2:
            c2, bad2, m2 = c, bad, m
        if signature(c2, bad2, m2) in seen and signature(c2, bad2, m2) != sig:
            continue
        seen.add(signature(c2, bad2, m2))
        chk.finding(signature(c2, bad2, m2), replay_obj(c2, bad2, m2),
                    'native callee does not receive the ABI image for %s via %s: %s' % (
                        signature(c2).split(':', 2)[2], c2['engine'], '; '.join(bad2[:3])))
    if not quick:
        # the same calls against a build of /repo with its assertions enabled
        impl_dbg = vlib.build_harness('c05_probe', ['c05_probe.c', 'c05_asm.S'], variant='dbg')
        sub = cases[:len(cases) // 4]
        chk.dist('variant', 'asserts-on', len(sub))
        for c, bad, m in run_cases(impl_dbg, model, sub):
            if bad and ('dbg:' + signature(c)) not in seen:
                seen.add('dbg:' + signature(c))
                nbad += 1
                if nbad <= 14:
                    chk.finding(signature(c), replay_obj(c, bad, m), 'assert-enabled build: native callee does not receive the '
                                'ABI image for %s via %s: %s' % (signature(c).split(':', 2)[2], c['engine'], '; '.join(bad[:3])))
    for n, e, bad in nested_cases(chk, impl):
        sig = 'c05:nested:%s:%d' % ('interp' if e == 'interp' else 'gen', n)
        if sig in seen:
            continue
        seen.add(sig)
        nbad += 1
        chk.finding(sig, dict(kind='nested', n=n, engine=e, mismatches=bad, mir=nested_mir(n)),
                    'MIR caller -> native reenter -> MIR inner -> native callee with %d arguments, via %s: %s' % (n, e, '; '.join(bad[:2])))
    # three-way: gcc-compiled callers and callees generated from the same prototypes
    trng = chk.rng('threeway')
    singles = []
    for c in cases:
        if len(c['calls']) == 1 and c['calls'][0]['proto'] not in singles:
            singles.append(c['calls'][0]['proto'])
    singles = singles[:(100 if quick else 1000)]
    for _ in range(100 if quick else 1500):  # prototypes whose types all have a C spelling
        singles.append(G.gen_proto(trng, min_fixed=1, cf=True))
    impl_g, ok = build_gen(chk, singles)
    chk.cov['gcc_expressible_prototypes'] = '%d of %d' % (len(ok), len(singles))
    for c2, bad2, m2 in three_way(chk, impl_g, model, singles, ok, trng, ['interp', 'gen2'] if quick else ENGINES_QUICK):
        sig = 'c05:callee:' + signature(c2)
        if sig in seen:
            continue
        seen.add(sig)
        nbad += 1
        if nbad <= 14:
            ro = replay_obj(c2, bad2, m2)
            ro['c_prototypes'] = [x['proto'] for x in c2['calls']]
            chk.finding(signature(c2), ro, 'gcc-compiled callee %s called from MIR via %s: %s' % (
                signature(c2).split(':', 2)[2], c2['engine'], '; '.join(bad2[:3])))
    # c2m -> native: c2mir's own classification of by-value aggregates (c2mir/x86_64/cx86_64-ABI-code.c)
    import gen_c05_cfile as CF
    nshown = 0
    for d, k, p, vals, rets, e, bad, m in c2m_stage(chk, model, quick):
        sig = 'c05:c2m:%s:%s:%s' % (d, 'interp' if e == 'interp' else 'gen', G.proto_sig(p))
        if sig in seen:
            continue
        nbad += 1
        nshown += 1
        if nshown > 4:
            continue
        p2, v2 = c2m_shrink(model, p, vals, rets, d, e)
        if p2 is not p:
            impl1, ok1 = build_c2m(chk, [p2])
            res1 = c2m_run(impl1, model, [(0, p2, v2, rets)], lambda kk, dd: [e] if dd == d else [])
            drop_build(impl1)
            b1 = [x for x in res1 if x[6]]
            if b1:
                p, vals, bad, m = p2, v2, b1[0][6], b1[0][7]
        sig = 'c05:c2m:%s:%s:%s' % (d, 'interp' if e == 'interp' else 'gen', G.proto_sig(p))
        if sig in seen:
            continue
        seen.add(sig)
        chk.finding(sig, dict(kind='c2m', direction=d, proto=p, vals=[v.hex() for v in vals], engine=e,
                              rets={kk: (vv.hex() if isinstance(vv, (bytes, bytearray)) else vv) for kk, vv in rets.items()},
                              mismatches=bad, model_image=['%s=%s/%d' % x for x in m['img']],
                              c_source=CF.c2m_callee_source(p) if d == 'r' else CF.c2m_caller_source(p)),
                    '%s for the C prototype of %s via %s: %s' % (C2M_DIR[d], G.proto_sig(p), e, '; '.join(bad[:3])))
    if not r['ok'] and not nbad:
        chk.proof_broken(r, searched='%d calls agreed with the SysV model image' % len(cases))


def nested_mir(n):
    """caller (MIR) -> reenter (native) -> inner (MIR, through its public address) -> probe (native, n arguments)"""
    L = ['m: module', 'import probe, vals, outs, reenter', 'rp: proto i64, i64:a',
         'bp: proto i64, ' + ', '.join('i64:a%d' % k for k in range(n)), 'export caller, inner',
         'inner: func i64, i64:x', 'local i64:r',
         'call bp, probe, r, x' + ''.join(', %d' % k for k in range(1, n)), 'add r, x, 1', 'ret r', 'endfunc',
         'caller: func', 'local i64:r, i64:o', 'mov o, outs', 'call rp, reenter, r, 5', 'mov i64:0(o), r', 'ret', 'endfunc',
         'endmodule']
    return '\n'.join(L) + '\n'


def nested_cases(chk, impl):
    """re-entrant calls: the result of the outer MIR->native call must survive whatever the nested MIR code calls"""
    lines, meta = [], []
    for n in (2, 40, 70, 80, 100):
        for e in ENGINES_QUICK + ['lazy']:
            meta.append((n, e))
            lines.append(case_line('n%d.%s' % (n, e), 'c05', e, 'probe', nested_mir(n), bytes(16), bytes(80)))
    rows, err = G.run_harness(vlib, impl, lines)
    found = []
    for n, e in meta:
        r = rows.get('n%d.%s' % (n, e), dict(status='missing', detail=err[-200:]))
        chk.count(('nested', n, e))
        chk.dist('nested_reentrant_calls', '%d-arg inner call' % n)
        bad = []
        if r['status'] != 'ok':
            bad.append('%s %s' % (r['status'], r.get('detail', '')))
        else:
            got = int.from_bytes(r['outs'][0:8], 'little')
            if got != 1006:
                bad.append('MIR caller receives %d from the native function, which returned 1006' % got)
            f = G.img_fields(r['img'])
            if f['count'] != 1:
                bad.append('probe entered %d times' % f['count'])
            elif int.from_bytes(r['img'][0:8], 'little') != 5 or (n > 7 and int.from_bytes(r['img'][256 + 8:256 + 16], 'little') != 7):
                bad.append('nested call: probe does not see its arguments (rdi=%x)' % int.from_bytes(r['img'][0:8], 'little'))
        if bad:
            found.append((n, e, bad))
    return found


def replay(chk, path):
    j = json.load(open(path))['replay']
    impl, model = build(chk)
    if j.get('kind') == 'nested':
        line = case_line('n', 'c05', j['engine'], 'probe', nested_mir(j['n']), bytes(16), bytes(80))
        rows, err = G.run_harness(vlib, impl, [line])
        r = rows.get('n', dict(status='missing'))
        got = int.from_bytes(r['outs'][0:8], 'little') if r['status'] == 'ok' else None
        print('nested call chain, inner call with %d arguments via %s: MIR caller receives %s (1006 expected)' % (j['n'], j['engine'], got if got is not None else r['status']))
        return 0 if got == 1006 else 1
    if j.get('kind') == 'c2m':
        p, d, e = j['proto'], j['direction'], j['engine']
        rets = {k: (bytes.fromhex(v) if isinstance(v, str) else v) for k, v in j['rets'].items()}
        implc, ok = build_c2m(chk, [p])
        res = c2m_run(implc, model, [(0, p, [bytes.fromhex(v) for v in j['vals']], rets)], lambda kk, dd: [e] if dd == d else [])
        drop_build(implc)
        print('%s, C prototype of %s, engine %s' % (C2M_DIR[d], G.proto_sig(p), e))
        print('mismatches:', [x[6] for x in res if x[6]])
        return 1 if any(x[6] for x in res) else 0
    calls = j.get('calls') or [dict(proto=j['proto'], vals=j['vals'])]
    c = dict(calls=[dict(proto=x['proto'], vals=[bytes.fromhex(v) for v in x['vals']]) for x in calls],
             engine=j['engine'], target=j.get('target', 'probe'),
             rets={k: (bytes.fromhex(v) if isinstance(v, str) else v) for k, v in j['rets'].items()})
    if c['target'].startswith('callee'):
        # a gcc-compiled callee generated from the prototype: regenerate it (index 0)
        impl, ok = build_gen(chk, [c['calls'][0]['proto']])
        found = three_way(chk, impl, model, [c['calls'][0]['proto']], ok, chk.rng('replay'), [c['engine']])
        print('calls:', signature(c), 'engine:', c['engine'], 'target: gcc-compiled callee')
        print('mismatches:', [b for _, b, _ in found])
        return 1 if found else 0
    (c, bad, m), = run_cases(impl, model, [c])
    print('calls:', signature(c), 'engine:', c['engine'])
    print('model image:', ' '.join('%s=%s/%d' % x for x in m['img']))
    print('mismatches:', bad)
    return 1 if bad else 0

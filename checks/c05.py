# C05: calls from MIR code to native functions follow the x86-64 SysV ABI for every prototype.
# Proofs: coq/Properties_C05.v (assignment loops of _MIR_get_ff_call / machinize_call = psABI algorithm,
# stack alignment, result registers, %al).  Tie: the extracted model's predicted register/stack image
# vs. the image captured by an assembly probe callee called from interpreted and generated MIR code,
# plus gcc-compiled callers/callees generated from the same prototypes (validates the model itself).
import os, sys, json, binascii
import vlib
sys.path.insert(0, os.path.join(vlib.VERIF, 'tools'))
import gen_c05_cases as G

LEVEL = 'proof'
ENGINES_QUICK = ['interp', 'gen0', 'gen1', 'gen2', 'gen3']


def build(chk):
    impl = vlib.build_harness('c05_probe', ['c05_probe.c', 'c05_asm.S'])
    model = vlib.ocaml_build('c05', 'Extract_C05', ['c05x'], 'driver_c05.ml')
    return impl, model


def case_line(cid, mode, engine, target, mir, vals, io):
    return ' '.join([cid, mode, engine, target, G.hexs(mir.encode()) if mir else '-', G.hexs(vals), G.hexs(io)])


def run_cases(impl, model, cases):
    """cases: list of dict(proto, vals, rets, engine, target).  Returns list of (case, mismatches, modelrow)"""
    lines = []
    for i, c in enumerate(cases):
        lines.append(case_line('c%d' % i, 'c05', c['engine'], c.get('target', 'probe'), G.c05_mir(c['proto']),
                               G.vals_bytes(c['proto'], c['vals']), G.ret_bytes_n(c['proto'], c['rets'])))
    rc, out, err = vlib.run_lines(impl, lines, timeout=1800)
    rows = {}
    for l in out:
        if l.strip():
            r = G.parse_impl(l)
            rows.setdefault(r['id'], r)
    vals_addr = 0
    for r in rows.values():
        if r.get('vals'):
            vals_addr = r['vals']
            break
    mlines = [G.model_line('c%d' % i, c['proto'], c['vals'], c['rets'], vals_addr) for i, c in enumerate(cases)]
    rc2, mout, merr = vlib.run_lines(model, mlines, timeout=600)
    if rc2 != 0 or len(mout) != len(cases):
        raise vlib.BuildError('model driver failed rc=%d: %s' % (rc2, merr[-800:]))
    res = []
    for i, c in enumerate(cases):
        m = G.parse_model(mout[i])
        r = rows.get('c%d' % i, dict(status='missing', detail='no output from harness: ' + err[-200:]))
        res.append((c, G.compare_c05(c['proto'], m, r, c['rets']), m))
    return res


def shrink_case(impl, model, c):
    """drop arguments / results while the case still fails"""
    def fails(proto):
        cc = dict(c)
        cc['proto'] = proto
        cc['vals'] = [v for v, keep in zip(c['vals'], proto['_keep'])if keep] if '_keep' in proto else c['vals']
        return bool(run_cases(impl, model, [cc])[0][1])
    proto = dict(c['proto'])
    vals = list(c['vals'])
    changed = True
    while changed:
        changed = False
        for i in range(len(proto['args']) - 1, -1, -1):
            p2 = dict(proto)
            p2['args'] = proto['args'][:i] + proto['args'][i + 1:]
            p2['nfixed'] = proto['nfixed'] - (1 if i < proto['nfixed'] else 0)
            v2 = vals[:i] + vals[i + 1:]
            cc = dict(c, proto=p2, vals=v2)
            if run_cases(impl, model, [cc])[0][1]:
                proto, vals, changed = p2, v2, True
        for i in range(len(proto['res']) - 1, -1, -1):
            p2 = dict(proto)
            p2['res'] = proto['res'][:i] + proto['res'][i + 1:]
            cc = dict(c, proto=p2, vals=vals)
            if run_cases(impl, model, [cc])[0][1]:
                proto, changed = p2, True
    return dict(c, proto=proto, vals=vals)


def replay_obj(c, bad, m):
    return dict(proto=c['proto'], engine=c['engine'], target=c.get('target', 'probe'),
                vals=[v.hex() for v in c['vals']],
                rets={k: (v.hex() if isinstance(v, (bytes, bytearray)) else v) for k, v in c['rets'].items()},
                mismatches=bad, model_image=['%s=%s/%d' % x for x in m['img']], model_agree=m.get('agree'),
                mir=G.c05_mir(c['proto']))


def signature(c, bad, m):
    """stable id of a failing call shape: engine class + prototype"""
    eng = 'interp' if c['engine'] == 'interp' else 'gen'
    return 'c05:%s:%s' % (eng, G.proto_sig(c['proto']))


def gen_cases(chk, quick):
    rng = chk.rng('protos')
    protos = G.boundary_protos()
    corpus = os.path.join(vlib.VERIF, 'corpus', 'c05.jsonl')
    if os.path.exists(corpus):
        for l in open(corpus):
            l = l.strip()
            if l and not l.startswith('#'):
                protos.append(json.loads(l))
    n = 160 if quick else 3000
    for _ in range(n):
        protos.append(G.gen_proto(rng))
    cases = []
    engines = ENGINES_QUICK
    for k, p in enumerate(protos):
        vals, rets = G.gen_values(rng, p)
        vals = G.fix_values(p, vals, rng)
        for e in (engines if (not quick or k < 60) else ['interp', rng.choice(engines[1:])]):
            cases.append(dict(proto=p, vals=vals, rets=rets, engine=e))
    return cases


def run(chk):
    quick = chk.tier == 'quick'
    r = chk.prove()
    impl, model = build(chk)
    chk.cov['trusted_base'] += ['extraction: ExtrOcamlBasic only, no Extract Constant/Inductive of our own',
                                'ocaml/driver_c05.ml (parse + print), harness/c05_probe.c + c05_asm.S (assembly probe), '
                                'tools/gen_c05_cases.py (MIR text generation, image comparison), GNU as, gcc 12']
    cases = gen_cases(chk, quick)
    for c in cases:
        p = c['proto']
        chk.count((G.proto_sig(p), c['engine'], [v.hex() for v in c['vals']]), nontrivial=len(p['args']) + len(p['res']) >= 2)
        chk.dist('engine', c['engine'])
        chk.dist('nargs', min(len(p['args']), 20) // 4 * 4)
        chk.dist('vararg', p['vararg'])
        chk.dist('nres', len(p['res']))
        for a in p['args']:
            chk.dist('argkind', a.split(':')[0])
    chk.cov['rule'] = ('seeded + boundary + corpus prototypes x random bit patterns x {interp FFI, gen -O0..-O3}: the '
                       'register/stack image captured by the assembly probe callee must equal the image predicted by the '
                       'extracted SysV model; a case is non-trivial when it has >= 2 arguments+results; distinct by '
                       'prototype+engine+values')
    for c in cases[:3]:
        chk.sample(dict(proto=G.proto_sig(c['proto']), engine=c['engine']))
    res = run_cases(impl, model, cases)
    seen = set()
    nbad = 0
    for c, bad, m in res:
        chk.dist('model_agree', m.get('agree'))
        if not bad:
            continue
        sig = signature(c, bad, m)
        if sig in seen:
            continue
        seen.add(sig)
        nbad += 1
        if nbad > 12:
            continue
        small = shrink_case(impl, model, c)
        (c2, bad2, m2), = run_cases(impl, model, [small])
        if not bad2:
            c2, bad2, m2 = c, bad, m
        if signature(c2, bad2, m2) in seen and signature(c2, bad2, m2) != sig:
            continue
        seen.add(signature(c2, bad2, m2))
        chk.finding(signature(c2, bad2, m2), replay_obj(c2, bad2, m2),
                    'native callee does not receive the ABI image for %s via %s: %s' % (
                        G.proto_sig(c2['proto']), c2['engine'], '; '.join(bad2[:3])))
    if not r['ok'] and not nbad:
        chk.proof_broken(r, searched='%d calls agreed with the SysV model image' % len(cases))


def replay(chk, path):
    j = json.load(open(path))['replay']
    impl, model = build(chk)
    c = dict(proto=j['proto'], engine=j['engine'], target=j.get('target', 'probe'),
             vals=[bytes.fromhex(v) for v in j['vals']],
             rets={k: (bytes.fromhex(v) if isinstance(v, str) else v) for k, v in j['rets'].items()})
    (c, bad, m), = run_cases(impl, model, [c])
    print('prototype:', G.proto_sig(c['proto']), 'engine:', c['engine'])
    print('model image:', ' '.join('%s=%s/%d' % x for x in m['img']))
    print('mismatches:', bad)
    return 1 if bad else 0

# C03: behaviour independent of the execution interface (partial).
#  * proofs: coq/Properties_C03.v (byte-level thunk + redirection state machine)
#  * tie 1 (bytes): real _MIR_get_thunk/_MIR_redirect_thunk/_MIR_get_thunk_addr vs the extracted model,
#    at the +-2 GiB boundaries and on random targets; both encodings are also *executed*
#  * tie 2 (state machine): random load/link/set-interface/MIR_gen/call histories on the real API vs the model
#  * tie 3 (argument locations): which register / stack slot every eightbyte of every argument travels in, for the
#    interpreter's two ends (_MIR_get_ff_call, shim + va_block_arg_builtin) and generated code's two ends, vs the
#    three walkers proved equal in coq/C03/ArgPassProofs.v (checks/c03_argpass.py, harness/c03_argpass.c)
#  * differential run (harness/c03_ifaces.c): generated multi-module programs under the five interfaces
import os, sys, json, hashlib
import vlib

LEVEL = 'proof'
IFACES = ['interp', 'gen', 'lazy', 'bb']


def build(chk):
    impl = vlib.build_harness('c03_thunk', ['c03_thunk.c'])
    model = vlib.ocaml_build('c03', 'Extract_C03', ['c03x'], 'driver_c03.ml')
    return impl, model


# ---------------------------------------------------------------- tie 1: bytes

def gen_byte_cases(rng, n):
    cases = []
    for k in range(4):
        for off in (2 ** 31 - 1, 2 ** 31, 2 ** 31 - 2, 2 ** 31 + 1, -2 ** 31, -2 ** 31 - 1, -2 ** 31 + 1, -2 ** 31 - 2,
                    0, -5, -6, 1, -1, 255, 256, 2 ** 32, -2 ** 32, 2 ** 40, -2 ** 40):
            cases.append('R %d rel %d' % (k, off))
        for a in (0, 1, 0xffffffffffffffff, 0x7fffffffffffffff, 0x8000000000000000, 0xffffffff, 0x100000000,
                  0x7fffffff, 0x80000000, 0x00007fffffffffff):
            cases.append('R %d abs %x' % (k, a))
    for _ in range(n):
        k = rng.randrange(4)
        r = rng.random()
        if r < 0.35:
            cases.append('R %d rel %d' % (k, rng.choice([1, -1]) * (2 ** 31 + rng.randint(-40, 40))))
        elif r < 0.55:
            cases.append('R %d rel %d' % (k, rng.randint(-2 ** 31, 2 ** 31 - 1)))
        elif r < 0.75:
            cases.append('R %d rel %d' % (k, rng.choice([1, -1]) * rng.randint(2 ** 31, 2 ** 62)))
        else:
            cases.append('R %d abs %x' % (k, rng.getrandbits(rng.choice([16, 32, 47, 48, 63, 64]))))
    for k in range(4):
        cases.append('X %d near' % k)
        cases.append('X %d far' % k)
    # bb thunks (_MIR_get_bb_thunk / _MIR_replace_bb_thunk): displacement boundaries on both sides and random ones
    edge = [2 ** 31 - 1, 2 ** 31, -2 ** 31, -2 ** 31 - 1, 0, -15, -5, 1, -1, 2 ** 32, -2 ** 40]
    for d1 in edge:
        cases.append('B %x %d %d' % (rng.getrandbits(rng.choice([16, 47, 64])), d1, rng.choice(edge)))
    for _ in range(n // 3):
        pick = lambda: rng.choice([rng.randint(-2 ** 31, 2 ** 31 - 1), rng.choice([1, -1]) * (2 ** 31 + rng.randint(-40, 40)),
                                   rng.choice([1, -1]) * rng.randint(2 ** 31, 2 ** 46)])
        cases.append('B %x %d %d' % (rng.getrandbits(rng.choice([16, 47, 64])), pick(), pick()))
    return cases


def kv(line):
    d = {}
    for w in line.split()[1:]:
        if '=' in w:
            a, b = w.split('=', 1)
            d[a] = b
    return d


def check_bytes(chk, impl, model, cases):
    rc, out, err = vlib.run_lines(impl, cases, timeout=180)
    if rc == 124:   # the harness does not come back: name the hanging request (each alone, short limit) -> a finding
        for c in cases:
            if vlib.run_lines(impl, [c], timeout=10)[0] == 124:
                return [(c, 'HANG: the library does not return within 10 s', '')]
        return [(cases[0], 'HANG: %d requests do not finish within 180 s (each alone does)' % len(cases), '')]
    if len(out) != len(cases):
        raise vlib.BuildError('c03_thunk: %d answers for %d requests: %s' % (len(out), len(cases), err[-300:]))
    mlines, idx = [], []
    for i, (c, o) in enumerate(zip(cases, out)):
        d = kv(o)
        if c.startswith('B'):
            if all(k in d for k in ('thunk', 'bbv', 'handler', 'to')):
                mlines.append('B %s %s %s %s' % (d['thunk'], d['bbv'], d['handler'], d['to']))
                idx.append(i)
        elif 'thunk' in d and 'to' in d:
            mlines.append('R %s %s' % (d['thunk'], d['to']))
            idx.append(i)
    rc2, mout, merr = vlib.run_lines(model, mlines)
    if rc2 != 0 or len(mout) != len(mlines):
        raise vlib.BuildError('model driver failed: %s' % merr[-300:])
    mo = dict(zip(idx, mout))
    bad = []
    for i, (c, o) in enumerate(zip(cases, out)):
        d = kv(o)
        if i not in mo:
            if o.strip() == 'X nofar':
                chk.dist('bytes', 'nofar')
                continue
            bad.append((c, o, '(no model answer)'))
            continue
        m = kv('M ' + mo[i])
        if c.startswith('B'):
            # bytes must agree with the model always (it has the C code's truncation); within +-2 GiB the thunk must
            # really hand over the bb version and reach the handler / the new target
            near1 = -2 ** 31 <= int(c.split()[2]) <= 2 ** 31 - 1
            near2 = -2 ** 31 <= int(c.split()[3]) <= 2 ** 31 - 1
            chk.dist('bytes', 'B:%s/%s' % ('near' if near1 else 'far', 'near' if near2 else 'far'))
            ok = d.get('bytes') == m.get('bytes') and d.get('bytes2') == m.get('bytes2')
            if near1:
                ok = ok and m.get('r10') == d.get('bbv') and m.get('tgt') == d.get('handler')
            if near2:
                ok = ok and m.get('tgt2') == d.get('to')
            if not ok:
                bad.append((c, o, mo[i]))
            continue
        form = 'short' if d.get('bytes', '').startswith('e9') else 'long'
        chk.dist('bytes', c.split()[0] + ':' + form)
        ok = d.get('bytes') == m.get('bytes') and d.get('get') == m.get('get') == d.get('to') and m.get('tgt') == d.get('to')
        if c.startswith('X'):
            ok = ok and d.get('reached') == d.get('to')
        if not ok:
            bad.append((c, o, mo[i]))
    return bad


# ---------------------------------------------------------------- tie 2: histories

def gen_history(rng):
    n = rng.randint(2, 7)
    callees = {}
    for i in range(n):
        cs = []
        for j in range(i + 1, n):
            if rng.random() < 0.45:
                cs.append(j)
                if rng.random() < 0.2:
                    cs.append(j)
        rng.shuffle(cs)
        callees[i] = cs[:4]
    # load order: callees before callers, cut into link groups
    order = list(range(n - 1, -1, -1))
    groups = []
    while order:
        k = rng.randint(1, len(order))
        g = order[:k]
        order = order[k:]
        rng.shuffle(g)
        groups.append(g)
    ops = []
    loaded, linked = [], set()

    def extras(m):
        # MIR_gen / MIR_set_*_interface need a linked (simplified) function; a call does not need
        # one to be *attempted*: before the link it must end in undefined_interface
        for _ in range(m):
            if not loaded:
                return
            f = rng.choice(loaded)
            r = rng.random()
            if r < 0.5 or f not in linked:
                ops.append('call %d %d' % (f, rng.randint(-50, 50)))
            elif r < 0.65:
                ops.append('gen %d' % f)
            elif r < 0.75:
                ops.append('set interp %d' % f)
            elif r < 0.87:
                ops.append('set lazy %d' % f)
            else:
                ops.append('set gen %d' % f)
    for g in groups:
        for f in g:
            ops.append('load %d' % f)
            loaded.append(f)
        if rng.random() < 0.08:
            extras(1)  # a call before the link: undefined interface
        iface = rng.choice(IFACES) if rng.random() < 0.93 else 'none'
        ops.append('link %s' % iface)
        if iface != 'none':
            linked.update(loaded)
        extras(rng.randint(0, 4))
    extras(rng.randint(1, 5))
    cs = ' '.join('%d:%s' % (i, ','.join(map(str, callees[i]))) for i in range(n) if callees[i])
    return n, cs, ops, callees


def expand(n, ops, dumps=None, gens=None):
    """user ops -> model ops.  dumps[i] = {f: (addr, bytes, mc, ca, data, kind)} after user op i (None: use fake
    fresh addresses).  Returns (model_ops, owner) where owner[j] = index of the user op."""
    mops, owner = [], []
    pending = []
    fake = [0x7f0000100000]

    def fresh():
        fake[0] += 0x100
        return '%x' % fake[0]

    def tgt(i, f):
        b = dumps[i][f][1]
        hx = b[10:26] if b.startswith('e9') else b[4:20]
        return '%x' % int.from_bytes(bytes.fromhex(hx), 'little')
    for i, o in enumerate(ops):
        w = o.split()
        if w[0] == 'load':
            f = int(w[1])
            pending.append(f)
            mops.append('load %d %s' % (f, dumps[i][f][0] if dumps else fresh()))
            owner.append(i)
        elif w[0] in ('link', 'set'):
            fs = list(reversed(pending)) if w[0] == 'link' else [int(w[2])]
            if w[0] == 'link' and w[1] != 'none':
                pending = []  # MIR_link (ctx, NULL, ..) leaves the modules queued for the next link
            for f in fs:
                if w[1] == 'none':
                    continue
                if w[1] == 'gen':
                    a = (dumps[i][f][3] if dumps else fresh())
                else:
                    a = (tgt(i, f) if dumps else fresh())
                mops.append('%s %d %s' % (w[1], f, a))
                owner.append(i)
        elif w[0] == 'gen':
            f = int(w[1])
            mops.append('gen %d %s' % (f, dumps[i][f][3] if dumps else fresh()))
            owner.append(i)
        elif w[0] == 'call':
            f = int(w[1])
            if dumps:
                orc = []
                for g in gens[i]:
                    mc = dumps[i][g][2]
                    orc.append(mc if mc != '0' else tgt(i, g))
                mops.append('call %d %s' % (f, ','.join(orc) if orc else '-'))
            else:
                mops.append('call %d %s' % (f, ','.join(fresh() for _ in range(n + 1))))
            owner.append(i)
    return mops, owner


def parse_impl(line):
    """-> list of (opstr, result, gens, {f: (addr, bytes, mc, ca, data, kind)})"""
    res = []
    for part in line.split(' || ')[1:]:
        if ' => ' not in part:
            res.append((part.strip(), 'NORESULT', [], {}))
            continue
        op, rest = part.split(' => ', 1)
        if '#' in rest:
            hd, st = rest.split('#', 1)
        else:
            hd, st = rest, ''
        hw = hd.split()
        result = hw[0] if hw else ''
        if result in ('ERROR', 'CRASH'):
            result = ' '.join(hw[:2])
        gens = []
        for w in hw[1:]:
            if w.startswith('gen=') and w != 'gen=-':
                gens = [int(x) for x in w[4:].split(',')]
        d = {}
        for ent in st.split():
            p = ent.split(':')
            d[int(p[0])] = tuple(p[1:7])
        res.append((' '.join(op.split()), result, gens, d))
    return res


def expected_result(callees, f, a):
    return a + f + 1 + sum(expected_result(callees, c, a + 1) for c in callees.get(f, []))


def run_history(impl, model, n, cs, ops, callees):
    """returns None if impl and model agree, else a description"""
    line = 'H %d | %s | %s' % (n, cs, ' ; '.join(ops))
    rc, out, err = vlib.run_lines(impl, [line], timeout=120)
    if not out:
        return 'no output from harness: ' + err[-200:]
    steps = parse_impl(out[0])
    # undefined address: target of the first loaded thunk
    dumps = [s[3] for s in steps]
    gens = [s[2] for s in steps]
    hd = out[0].split(' || ')[0].split()
    if len(hd) < 2 or not hd[1].startswith('undef='):
        return 'harness produced no state: ' + out[0][:200]
    undef = hd[1][6:]
    nok = len([s for s in steps if s[1] not in ('NORESULT',) and not s[1].startswith(('ERROR', 'CRASH'))])  # ops that completed
    mops, owner = expand(n, ops[:nok], dumps, gens)
    # the op that did not complete (if any) is fed with fake oracle
    tail_ops = ops[nok:nok + 1]
    if tail_ops:
        w = tail_ops[0].split()
        if w[0] == 'call':
            mops.append('call %s %s' % (w[1], ','.join('%x' % (0x7e0000000000 + 0x100 * k) for k in range(n + 1))))
            owner.append(nok)
        else:
            return 'implementation failed at "%s": %s' % (tail_ops[0], steps[nok][1] if nok < len(steps) else out[0][-200:])
    mline = 'H %d %s | %s | %s' % (n, undef, cs, ' ; '.join(mops))
    rc2, mout, merr = vlib.run_lines(model, [mline])
    if rc2 != 0 or not mout:
        raise vlib.BuildError('model driver failed: %s' % merr[-300:])
    mparts = mout[0].split(' || ')[1:]
    hooks = {}
    for j, mp in enumerate(mparts):
        i = owner[j]
        last_of_op = (j + 1 == len(owner)) or owner[j + 1] != i
        if mp.startswith('STUCK'):
            why = mp.split()[1]
            if why == 'undefined' and i == nok and (i >= len(steps) or steps[i][1].startswith(('ERROR', 'CRASH'))):
                return None  # both sides: control reached undefined_interface
            return 'model stuck (%s) at "%s" but implementation answered %s' % (why, ops[i], steps[i][1] if i < len(steps) else '?')
        if not last_of_op:
            continue
        if i >= nok:
            return 'implementation failed at "%s" (%s) where the model continues' % (ops[i], steps[i][1] if i < len(steps) else 'no answer')
        # compare the state after user op i
        ms = {}
        for ent in mp.split('#', 1)[1].split():
            p = ent.split(':')
            ms[int(p[0])] = p[1:]
        w = ops[i].split()
        for f, (addr, byt, mc, ca, data, kind) in dumps[i].items():
            if f not in ms:
                return 'after "%s": function %d loaded in implementation only' % (ops[i], f)
            maddr, mbyt, mmc, mca, mdata, mlinked, mkind = ms[f]
            if kind.startswith('W'):
                exp = {'Wl': 'lazy', 'Wb': 'bb'}.get(mkind)
                if exp is not None and kind not in hooks.values():
                    hooks.setdefault(exp, kind)
                kind = {v: k for k, v in hooks.items()}.get(kind, kind)
                kind = {'lazy': 'Wl', 'bb': 'Wb'}.get(kind, kind)
            elif kind == 'O' and mkind == 'U':
                hx = byt[10:26] if byt.startswith('e9') else byt[4:20]
                if '%x' % int.from_bytes(bytes.fromhex(hx), 'little') == undef:
                    kind = 'U'
            if (addr, byt, mc, ca, data, kind) != (maddr, mbyt, mmc, mca, mdata, mkind):
                return 'after "%s": function %d impl=%s model=%s' % (
                    ops[i], f, ':'.join((addr, byt, mc, ca, data, kind)), ':'.join((maddr, mbyt, mmc, mca, mdata, mkind)))
        if len(ms) != len(dumps[i]):
            return 'after "%s": loaded sets differ' % ops[i]
        if w[0] == 'call':
            exp = expected_result(callees, int(w[1]), int(w[2]))
            if steps[i][1] != str(exp):
                return 'call result: "%s" returned %s, expected %d' % (ops[i], steps[i][1], exp)
        if w[0] == 'gen' and steps[i][1] != 'addr':
            return 'MIR_gen did not return item->addr at "%s"' % ops[i]
    if len(mparts) < len(owner):
        return 'model stopped early'
    if nok < len(ops):
        return 'implementation failed at "%s": %s' % (ops[nok], steps[nok][1] if nok < len(steps) else '?')
    return None


def prevalidate(model, n, cs, ops):
    """cut the history where the model (with fake addresses) says it is not a valid API history"""
    ops = list(ops)
    dropped = 0
    while True:
        mops, owner = expand(n, ops)
        mline = 'H %d %x | %s | %s' % (n, 0x555500001000, cs, ' ; '.join(mops))
        rc, mout, merr = vlib.run_lines(model, [mline])
        parts = mout[0].split(' || ')[1:]
        for j, mp in enumerate(parts):
            if mp.startswith('STUCK'):
                why = mp.split()[1]
                i = owner[j]
                if why == 'undefined':
                    return ops[:i + 1], 'undefined'
                if ops[i].split()[0] in ('load', 'link') or dropped >= 12:
                    return ops[:i], why
                del ops[i]      # an op that breaks an API precondition: leave it out, keep the rest
                dropped += 1
                break
        else:
            return ops, 'ok' if not dropped else 'ok-after-drop'


def check_histories(chk, impl, model, rng, count):
    bad = []
    for k in range(count):
        n, cs, ops, callees = gen_history(rng)
        ops, why = prevalidate(model, n, cs, ops)
        if not ops:
            continue
        chk.count(('H', n, cs, tuple(ops)), nontrivial=len(ops) >= 4)
        chk.dist('hist_end', why)
        chk.dist('hist_len', min(len(ops) // 5 * 5, 30))
        for o in ops:
            w = o.split()
            chk.dist('hist_ops', w[0] + (' ' + w[1] if w[0] in ('link', 'set') else ''))
        if k < 2:
            chk.sample('H %d | %s | %s' % (n, cs, ' ; '.join(ops)))
        r = run_history(impl, model, n, cs, ops, callees)
        if r is not None:
            bad.append((n, cs, ops, callees, r))
            if len(bad) >= 3:
                break
    return bad


def links_ok(ops, callees):
    """MIR_link needs every import of the modules being linked to be loaded"""
    loaded, linked = set(), set()
    for o in ops:
        w = o.split()
        if w[0] == 'load':
            if int(w[1]) in loaded:
                return False
            loaded.add(int(w[1]))
        elif w[0] == 'link':
            if any(c not in loaded for f in loaded for c in callees.get(f, [])):
                return False
            if w[1] != 'none':
                linked = set(loaded)
        elif w[0] == 'call':
            if int(w[1]) not in loaded:
                return False
        elif int(w[-1] if w[0] == 'set' else w[1]) not in linked:
            return False
    return True


def shrink_history(impl, model, n, cs, ops, callees):
    def fails(sub):
        if not links_ok(sub, callees):
            return False
        sub2, why = prevalidate(model, n, cs, sub)
        if len(sub2) != len(sub):
            return False
        return run_history(impl, model, n, cs, sub, callees) is not None
    return vlib.shrink_list(ops, fails, max_steps=120)


# ---------------------------------------------------------------- run

def run(chk):
    quick = chk.tier == 'quick'
    r = chk.prove()
    impl, model = build(chk)
    chk.cov['trusted_base'] += [
        'extraction: ExtrOcamlBasic only, no Extract Constant/Inductive of our own',
        'ocaml/driver_c03.ml, harness/c03_thunk.c, harness/c03_ifaces.c, harness/c03_patch.c (drive the API, parse + print)',
        'not proved, only run: wrapper/shim/bb-stub machine code (mir-x86_64.c:575-972), the generator '
        '(mir-gen.c), direct-call rewriting (mir-gen-x86_64.c:2970-3063), the interpreter']
    found = False
    # tie 1
    rng = chk.rng('bytes')
    cases = gen_byte_cases(rng, 300 if quick else 20000)
    for c in cases:
        chk.count(c, nontrivial=True)
    chk.sample(cases[0]); chk.sample(cases[-1])
    bad = check_bytes(chk, impl, model, cases)
    for c, o, m in bad[:3]:
        found = True
        chk.finding('thunk-bytes:' + c, dict(kind='bytes', case=c, impl=o, model=m),
                    'thunk bytes / read-back / executed jump differ from the verified model for: %s' % c)
    # tie 2
    rng = chk.rng('hist')
    badh = check_histories(chk, impl, model, rng, 120 if quick else 3000)
    for n, cs, ops, callees, why in badh[:2]:
        found = True
        small = shrink_history(impl, model, n, cs, ops, callees)
        why2 = run_history(impl, model, n, cs, small, callees) or why
        line = 'H %d | %s | %s' % (n, cs, ' ; '.join(small))
        chk.finding('hist:' + hashlib.sha1(line.encode()).hexdigest()[:12],
                    dict(kind='hist', n=n, callees=cs, ops=small, original_ops=ops, what=why2),
                    'redirection history disagrees with the verified state machine: %s  [%s]' % (why2, line))
    if not quick and not found:
        # the same tie against an assert-enabled build: a history the model accepts must not trip a C assertion
        impl_dbg = vlib.build_harness('c03_thunk', ['c03_thunk.c'], variant='dbg')
        rng = chk.rng('hist-dbg')
        for n, cs, ops, callees, why in check_histories(chk, impl_dbg, model, rng, 600)[:1]:
            found = True
            line = 'H %d | %s | %s' % (n, cs, ' ; '.join(ops))
            chk.finding('hist-dbg:' + hashlib.sha1(line.encode()).hexdigest()[:12],
                        dict(kind='hist', variant='dbg', n=n, callees=cs, ops=ops, what=why),
                        'assert-enabled build: history accepted by the model fails: %s  [%s]' % (why, line))
    # tie 3 (round 3): argument locations at calls through public addresses vs coq/C03/ArgPass.v
    from checks import c03_argpass
    if c03_argpass.run(chk, model):
        found = True
    # tie 4 (round 3, wave z): the write-enable request of _MIR_change_code / _MIR_update_code_arr vs coq/C03/CodePatch.v
    from checks import c03_patch
    if c03_patch.run(chk, model):
        found = True
    # differential run over the five interfaces
    try:
        from checks import c03_ifaces
    except ImportError:
        c03_ifaces = None
    if c03_ifaces is not None:
        found = c03_ifaces.run(chk) or found
    chk.cov['rule'] = ('byte cases: one redirect (+ optional execution) each, all non-trivial; histories: seeded '
                      'load/link/set-interface/MIR_gen/call sequences over random call DAGs, non-trivial when >= 4 ops; '
                      'programs: generated multi-module MIR programs x interface x call order')
    if not r['ok'] and not found:
        chk.proof_broken(r, searched='%d byte cases, histories and interface runs all agreed' % len(cases))


def replay(chk, path):
    j = json.load(open(path))
    rp = j['replay']
    impl, model = build(chk)
    if rp.get('kind') == 'bytes':
        bad = check_bytes(chk, impl, model, [rp['case']])
        print('case:', rp['case'])
        print('disagreement:' if bad else 'agree', bad)
        return 1 if bad else 0
    if rp.get('kind') == 'hist':
        if rp.get('variant') == 'dbg':
            impl = vlib.build_harness('c03_thunk', ['c03_thunk.c'], variant='dbg')
        callees = {}
        for tok in rp['callees'].split():
            f, cs = tok.split(':')
            callees[int(f)] = [int(c) for c in cs.split(',') if c]
        r = run_history(impl, model, rp['n'], rp['callees'], rp['ops'], callees)
        print('history: H %d | %s | %s' % (rp['n'], rp['callees'], ' ; '.join(rp['ops'])))
        print('result:', r or 'agree')
        return 1 if r else 0
    if rp.get('kind') == 'patch':
        from checks import c03_patch
        return c03_patch.replay_case(chk, model, rp)
    if rp.get('kind') == 'argpass':
        from checks import c03_argpass
        return c03_argpass.replay(chk, rp, model)
    from checks import c03_ifaces
    return c03_ifaces.replay(chk, rp)

# C03 round 3: tie of coq/C03/ArgPass.v (three argument-location walkers, proved equal on every well-formed
# parameter list: Properties_C03.v engines_agree_on_argument_locations) to the four code sites they transcribe:
#   interp callee  = shim + interp () + va_block_arg_builtin          vs va_walk
#   interp caller  = _MIR_get_ff_call                                 vs ff_walk
#   gen/lazy/bb callee = prologue of target_machinize (entered directly / through the wrappers)   vs gen_walk
#   gen/lazy/bb caller = call sequence of machinize_call              vs gen_walk
# harness/c03_argpass.c runs real calls with every argument register and stack word tagged and reports which slot
# every eightbyte came from / went to.
import os, sys, json, hashlib
import vlib

IFACES = ['interp', 'gen', 'lazy', 'bb']
PDIR = os.path.join(vlib.BUILD, 'c03p')
TAG = 0xBFF0000000004000
NOUT, NSTK = 48, 24
BLK_SIZES = {0: ([8], [16], [1, 5, 12, 17, 24, 40]), 1: ([8], [16], [1, 3, 7, 9, 12, 15]), 2: ([8], [16], [4, 12]),
             3: ([16], [12], [9, 13, 15]), 4: ([16], [12], [9, 13, 15])}
NF_BIAS = [0, 2, 5, 6, 6, 7, 7, 7, 8, 8, 9]
NI_BIAS = [0, 1, 3, 4, 4, 5, 5, 6, 6, 7]


def build():
    return vlib.build_harness('c03_argpass', ['c03_argpass.c'], extra_flags=['-DPROG_H="%s"' % vlib.file_hash([os.path.join(vlib.VERIF, 'harness', 'c03_prog.h')])])


def pword(p):
    return p if isinstance(p, str) else 'b%d:%d' % (p[0], p[1])


def nwords(p):
    return 1 if p in ('i', 'd') else 2 if p == 'l' else (p[1] + 7) // 8


def rand_blk(rng, cls=None, sk=None):
    cls = rng.randrange(5) if cls is None else cls
    return (cls, rng.choice(BLK_SIZES[cls][rng.randrange(3) if sk is None else sk]))


def mk_shape(rng, nf, ni, blk):
    pre = ['d'] * nf + ['i'] * ni
    rng.shuffle(pre)
    if rng.random() < 0.25:
        pre.insert(rng.randint(0, len(pre)), 'l')
    if rng.random() < 0.1:
        pre.insert(rng.randint(0, len(pre)), rand_blk(rng))
    suf = []
    for _ in range(rng.randint(1, 4)):
        r = rng.random()
        suf.append('d' if r < 0.3 else 'i' if r < 0.6 else rand_blk(rng) if r < 0.85 else 'l')
    return pre + [blk] + suf


def sweep(rng):
    shapes = []
    for cls in range(5):
        for sk in range(3):
            for nf in range(10):
                shapes.append(mk_shape(rng, nf, rng.choice(NI_BIAS), rand_blk(rng, cls, sk)))
            for ni in range(8):
                shapes.append(mk_shape(rng, rng.choice(NF_BIAS), ni, rand_blk(rng, cls, sk)))
    # scalars only: both register files overflowing, long doubles after an odd number of stack words
    for nf in (7, 8, 9, 10):
        for ni in (5, 6, 7, 8):
            ps = ['d'] * nf + ['i'] * ni + ['l', 'i', 'l']
            rng.shuffle(ps)
            shapes.append(ps)
    rng.shuffle(shapes)
    return shapes


def parse_walk(s):
    return [[x for x in p.split(',')] for p in s.split(';')] if s else []


def model_walks(model, shapes):
    rc, out, err = vlib.run_lines(model, ['W ' + ' '.join(pword(p) for p in ps) for ps in shapes])
    if rc != 0 or len(out) != len(shapes):
        raise vlib.BuildError('c03 model W requests failed: ' + err[-300:])
    res = []
    for o in out:
        d = dict(w.split('=', 1) for w in o.split())
        res.append(dict(wf=d['wf'] == '1', va=parse_walk(d['va']), ff=parse_walk(d['ff']), gen=parse_walk(d['gen'])))
    return res


def ptext(p, name):
    if p == 'i':
        return 'i64:' + name
    if p == 'd':
        return 'd:' + name
    if p == 'l':
        return 'ld:' + name
    return 'blk%s:%d(%s)' % (p[0] if p[0] else '', p[1], name)


def prog_text(shapes):
    t = ['m: module', '  import outp, probe', '  export ' + ', '.join('g%d, f%d' % (k, k) for k in range(len(shapes)))]
    for k, ps in enumerate(shapes):
        sig = ', '.join(ptext(p, 'a%d' % j) for j, p in enumerate(ps))
        t.append('p%d: proto %s' % (k, sig))
        # callee
        t.append('g%d: func %s' % (k, sig))
        t.append('  local i64:o, i64:t')
        t.append('  mov o, outp')
        e = 0
        for j, p in enumerate(ps):
            a = 'a%d' % j
            if p == 'i':
                t.append('  mov i64:%d(o), %s' % (8 * e, a))
            elif p == 'd':
                t.append('  dmov d:%d(o), %s' % (8 * e, a))
            elif p == 'l':
                t.append('  ldmov ld:%d(o), %s' % (8 * e, a))
            else:
                s = p[1]
                for q in range(s // 8):
                    t += ['  mov t, i64:%d(%s)' % (8 * q, a), '  mov i64:%d(o), t' % (8 * (e + q))]
                if s % 8:
                    t += ['  mov t, u8:%d(%s)' % (s // 8 * 8, a), '  mov i64:%d(o), t' % (8 * (e + s // 8))]
            e += nwords(p)
        t += ['  ret', '  endfunc']
        # caller
        t.append('f%d: func p:tab' % k)
        loc = []
        body = []
        args = []
        e = 0
        for j, p in enumerate(ps):
            if p == 'i':
                loc.append('i64:v%d' % j)
                body.append('  mov v%d, i64:%d(tab)' % (j, 8 * e))
                args.append('v%d' % j)
            elif p == 'd':
                loc.append('d:v%d' % j)
                body.append('  dmov v%d, d:%d(tab)' % (j, 8 * e))
                args.append('v%d' % j)
            elif p == 'l':
                loc.append('ld:v%d' % j)
                body.append('  ldmov v%d, ld:%d(tab)' % (j, 8 * e))
                args.append('v%d' % j)
            else:
                loc.append('i64:v%d' % j)
                body.append('  add v%d, tab, %d' % (j, 8 * e))
                args.append('blk%s:%d(v%d)' % (p[0] if p[0] else '', p[1], j))
            e += nwords(p)
        t.append('  local ' + ', '.join(loc))
        t += body
        t.append('  call p%d, probe, %s' % (k, ', '.join(args)))
        t += ['  ret', '  endfunc']
    t.append('  endmodule')
    return '\n'.join(t) + '\n'


def slot_loc(idx):
    if 0 <= idx < 6:
        return 'I%d' % idx
    if 8 <= idx < 16:
        return 'F%d' % (idx - 8)
    if 16 <= idx < 16 + NSTK:
        return 'S%d' % (8 * (idx - 16))
    return '?%d' % idx


def decode_callee(ps, words):
    """per parameter the slots its eightbytes were fetched from"""
    res, e = [], 0
    for p in ps:
        locs = []
        if p == 'l':
            m, x = words[e], words[e + 1]
            if m & ~0xff == TAG and (x & 0xffff) == (0x4000 | ((m & 0xff) + 1)):
                locs = [slot_loc(m & 0xff), slot_loc((m & 0xff) + 1)]
            else:
                locs = ['?%x' % m, '?%x' % x]
        elif p in ('i', 'd'):
            v = words[e]
            locs = [slot_loc(v & 0xff) if v & ~0xff == TAG else '?%x' % v]
        else:
            s = p[1]
            for q in range(s // 8):
                v = words[e + q]
                locs.append(slot_loc(v & 0xff) if v & ~0xff == TAG else '?%x' % v)
            if s % 8:
                v = words[e + s // 8]
                locs.append(slot_loc(v) if v < 256 else '?%x' % v)
        res.append(locs)
        e += nwords(p)
    return res


def loc_slot(l):
    n = int(l[1:])
    return n if l[0] == 'I' else 6 + n if l[0] == 'F' else 14 + n // 8


def check_caller(ps, walk, cap):
    """does every eightbyte sit where the model says?  returns list of (param index, eightbyte, expected loc, found)"""
    bad, e = [], 0
    for j, (p, locs) in enumerate(zip(ps, walk)):
        for k, l in enumerate(locs):
            exp = TAG | (64 + e + k)
            s = loc_slot(l)
            got = cap[s] if s < len(cap) else None
            if p == 'l' and k == 1:
                ok = got is not None and got & 0xffff == exp & 0xffff
            elif p not in ('i', 'd', 'l') and p[1] % 8 and k == len(locs) - 1:
                ok = got is not None and got & 0xff == exp & 0xff
            else:
                ok = got == exp
            if not ok:
                where = [slot_cap(i) for i, v in enumerate(cap) if v == exp]
                bad.append((j, k, l, where[0] if where else 'nowhere'))
        e += nwords(p)
    return bad


def slot_cap(i):
    return 'I%d' % i if i < 6 else 'F%d' % (i - 6) if i < 14 else 'S%d' % (8 * (i - 14))


def fits(ps, w):
    if not w['wf']:
        return False
    if sum(nwords(p) for p in ps) > NOUT - 2:
        return False
    for locs in w['ff']:
        for l in locs:
            if l[0] == 'S' and int(l[1:]) >= 8 * NSTK:
                return False
    return True


def run_file(exe, shapes, iface, opt, tag='argpass'):
    os.makedirs(PDIR, exist_ok=True)
    path = os.path.join(PDIR, '%s-%d.mir' % (tag, os.getpid()))
    with open(path, 'w') as f:
        f.write(prog_text(shapes))
    rc, out, err = vlib.run_lines(exe, ['A %s %s %d %d' % (path, iface, opt, len(shapes))], timeout=120)
    line = ' '.join(out)
    obs = {}
    for w in line.split():
        if '=' in w:
            k, v = w.split('=', 1)
            try:
                obs[k] = [int(x, 16) for x in v.split(',')]
            except ValueError:
                pass
    return obs, line


def compare(ps, w, iface, obs, k, line=''):
    """list of (side, description) disagreements of shape k of a file under iface"""
    res = []
    want = w['va'] if iface == 'interp' else w['gen']
    g = obs.get('g%d' % k)
    if g is None:
        res.append(('callee', 'the call does not come back: ' + (line[-100:] or 'no answer')))
    else:
        got = decode_callee(ps, g)
        if got != want:
            j = next(i for i in range(len(ps)) if got[i] != want[i])
            res.append(('callee', 'parameter %d (%s) is fetched from %s, callers put it in %s' % (
                j, pword(ps[j]), ','.join(got[j]), ','.join(want[j]))))
    want = w['ff'] if iface == 'interp' else w['gen']
    f = obs.get('f%d' % k)
    if f is None:
        res.append(('caller', 'the call does not come back: ' + (line[-100:] or 'no answer')))
    else:
        bad = check_caller(ps, want, f)
        if bad:
            j, e, l, where = bad[0]
            res.append(('caller', 'parameter %d (%s) eightbyte %d is passed in %s, callees fetch it from %s' % (
                j, pword(ps[j]), e, where, l)))
    return res


def run(chk, model):
    quick = chk.tier == 'quick'
    exe = build()
    rng = chk.rng('argpass')
    found = 0
    for sw in range(1 if quick else 5):
        shapes = sweep(rng)
        walks = model_walks(model, shapes)
        for ps, w in zip(shapes, walks):
            if w['wf'] and not (w['va'] == w['ff'] == w['gen']):
                raise vlib.BuildError('extracted walkers disagree on %s although the theorem says they cannot' % ps)
        pairs = [(ps, w) for ps, w in zip(shapes, walks) if fits(ps, w)]
        chk.dist('argpass_shapes', 'fit', n=len(pairs))
        chk.dist('argpass_shapes', 'too_big_for_the_probe', n=len(shapes) - len(pairs))
        for i in range(0, len(pairs), 8):
            grp = pairs[i:i + 8]
            opt = rng.choice([0, 1, 2, 3])
            for iface in IFACES:
                obs, line = run_file(exe, [ps for ps, _ in grp], iface, opt)
                if any(('g%d' % k) not in obs or ('f%d' % k) not in obs for k in range(len(grp))):
                    # the process died somewhere: one shape per process, so that the death is that shape's
                    chk.dist('argpass_runs', 'file_died_rerun_singly')
                    obs = {}
                    for k, (ps, _) in enumerate(grp):
                        o1, _l = run_file(exe, [ps], iface, opt)
                        for key in ('g', 'f'):
                            if key + '0' in o1:
                                obs['%s%d' % (key, k)] = o1[key + '0']
                for k, (ps, w) in enumerate(grp):
                    chk.count(('argpass', tuple(map(pword, ps)), iface, opt), nontrivial=True)
                    chk.dist('argpass_runs', iface)
                    if i == 0 and k == 0 and iface == 'interp' and sw == 0:
                        chk.sample('argument locations of (%s): %s' % (' '.join(pword(p) for p in ps),
                                                                      ';'.join(','.join(l) for l in w['ff'])))
                    for side, what in compare(ps, w, iface, obs, k):
                        # a smaller witness: drop parameters while the same side still disagrees
                        small = shrink_shape(exe, model, ps, iface, opt, side)
                        w2 = model_walks(model, [small])[0]
                        obs2, line2 = run_file(exe, [small], iface, opt, 'argpass-final')
                        d2 = [x for x in compare(small, w2, iface, obs2, 0, line2) if x[0] == side]
                        what2 = d2[0][1] if d2 else what
                        text = ' '.join(pword(p) for p in small)
                        found += 1
                        chk.finding('argpass:%s:%s:%s' % (iface, side, hashlib.sha1(text.encode()).hexdigest()[:10]),
                                    dict(kind='argpass', params=[pword(p) for p in small], iface=iface, opt=opt, side=side,
                                         model=';'.join(','.join(l) for l in w2['ff']), what=what2,
                                         text=prog_text([small])),
                                    'at a call through a public address the %s under the %s interface and the other engines '
                                    'disagree on where an argument is: (%s): %s' % (side, iface, text, what2))
                        if found >= 2:
                            return found
    return found


def shrink_shape(exe, model, ps, iface, opt, side):
    def bad(qs):
        if not qs:
            return False
        w = model_walks(model, [qs])[0]
        if not fits(qs, w):
            return False
        obs, _ = run_file(exe, [qs], iface, opt, 'argpass-shrink')
        return any(s == side for s, _ in compare(qs, w, iface, obs, 0))
    return vlib.shrink_list(list(ps), bad, max_steps=80)


def unword(w):
    if w in ('i', 'd', 'l'):
        return w
    c, s = w[1:].split(':')
    return (int(c), int(s))


def replay(chk, rp, model):
    exe = build()
    ps = [unword(w) for w in rp['params']]
    w = model_walks(model, [ps])[0]
    obs, line = run_file(exe, [ps], rp['iface'], rp.get('opt', 1), 'argpass-replay')
    print('parameters:', ' '.join(rp['params']), ' interface:', rp['iface'])
    print('model (all engines, proved equal):', ';'.join(','.join(l) for l in w['ff']))
    g = obs.get('g0')
    if g:
        print('callee fetches from:             ', ';'.join(','.join(l) for l in decode_callee(ps, g)))
    d = compare(ps, w, rp['iface'], obs, 0)
    for side, what in d:
        print('%s: %s' % (side, what))
    return 1 if d else 0

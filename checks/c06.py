# C06: MIR functions are correct C-ABI callees and preserve the caller's machine state.
# Proofs: coq/Properties_C06.v (incoming-argument assignment = psABI, va_list arithmetic, frame
# arithmetic).  Tie: an assembly trampoline caller builds the register/stack image the extracted SysV
# model prescribes, calls the MIR function through its public address (interp shim, generated code
# -O0..-O3, lazy generation) and re-reads results, callee-saved registers, rsp, MXCSR, x87 state.
import os, sys, json
import vlib
sys.path.insert(0, os.path.join(vlib.VERIF, 'tools'))
import gen_c05_cases as G
import tr_c05_abi
import gen_c06_cases as H

LEVEL = 'proof'
ENGINES = ['interp', 'gen0', 'gen1', 'gen2', 'gen3', 'lazy', 'lazybb']
VALS_ADDR = 0x20000000


def build(chk):
    impl = vlib.build_harness('c05_probe', ['c05_probe.c', 'c05_asm.S'])
    model = vlib.ocaml_build('c06', 'Extract_C06', ['c06x'], 'driver_c06.ml')
    return impl, model


def run_cases(impl, model, cases):
    """cases: dict(proto, vals, resvals, body, engine, junk)"""
    mlines = []
    for i, c in enumerate(cases):
        rets = dict(rax=0, rdx=0, xmm0=0, xmm1=0)
        mlines.append(G.model_line('c%d' % i, c['proto'], c['vals'], rets, VALS_ADDR))
    rc2, mout, merr = vlib.run_lines(model, mlines, timeout=600)
    if rc2 != 0 or len(mout) != len(cases):
        raise vlib.BuildError('model driver failed rc=%d: %s' % (rc2, merr[-800:]))
    ms = [G.parse_model(l) for l in mout]
    # the call an xcall body makes itself: image the probe must see, per the same extracted model
    xi = [i for i, c in enumerate(cases) if c['body']['kind'] == 'xcall']
    xms = {}
    if xi:
        xl = []
        for i in xi:
            b = cases[i]['body']
            crets = {k: (bytes.fromhex(x) if isinstance(x, str) else x) for k, x in b['crets'].items()}
            xl.append(G.model_line('x%d' % i, b['cproto'], [bytes.fromhex(x) for x in b['cvals']], crets, VALS_ADDR + H.CO))
        rcx, xout, xerr = vlib.run_lines(model, xl, timeout=600)
        if rcx != 0 or len(xout) != len(xl):
            raise vlib.BuildError('model driver failed on nested-call lines rc=%d: %s' % (rcx, xerr[-800:]))
        xms = {i: G.parse_model(l) for i, l in zip(xi, xout)}
    lines = []
    for i, (c, m) in enumerate(zip(cases, ms)):
        img = H.tramp_image(c['proto'], m, c['vals'], c['body'], c['junk'], VALS_ADDR)
        if i in xms:
            b = c['body']
            img += G.ret_bytes_n(b['cproto'], {k: (bytes.fromhex(x) if isinstance(x, str) else x) for k, x in b['crets'].items()})
        vb = H.vals_buffer(c['proto'], c['body'], c['resvals'])
        target = 'tramp2' if c['engine'].startswith('lazy') else 'tramp'
        lines.append(' '.join(['c%d' % i, 'c06', c['engine'], target, G.hexs(H.c06_mir(c['proto'], c['body']).encode()),
                               G.hexs(vb), G.hexs(img)]))
    rows, err = G.run_harness(vlib, impl, lines, env={'C06_DUMP': '1', 'C06_PSTK': '1'})
    # frame observations (generator listing after prologue/epilogue insertion) vs. the Frame model
    fq, fobs = [], {}
    for i, c in enumerate(cases):
        r = rows.get('c%d' % i)
        if r and r.get('status') == 'ok' and r.get('dump'):
            obs = H.parse_dump(r['dump'].decode('utf-8', 'replace'), c['proto']['vararg'])
            fobs[i] = obs
            fq.append(H.frame_query('c%d' % i, obs, c['proto']['vararg']))
    frows = {}
    if fq:
        rc3, fout, ferr = vlib.run_lines(model, fq, timeout=600)
        if rc3 != 0 or len(fout) != len(fq):
            raise vlib.BuildError('model driver failed on frame lines rc=%d: %s' % (rc3, ferr[-800:]))
        for l in fout:
            fr = H.parse_frame_row(l)
            frows[fr['id']] = fr
    res = []
    for i, (c, m) in enumerate(zip(cases, ms)):
        r = rows.get('c%d' % i, dict(status='missing', detail='no output from harness: ' + err[-200:]))
        offs, _ = G.layout(c['proto'])
        ptrs = {k: VALS_ADDR + offs[k] for k, t in enumerate(c['proto']['args']) if t.startswith('rblk')}
        if i in xms:
            r = dict(r, xmodel=xms[i])
        bad = H.compare_c06(c['proto'], c['body'], m, r, c['vals'], c['resvals'], ptrs, c['engine'])
        if r.get('status') == 'ok' and r.get('out0'):
            # lazy interfaces: the first call went through the generation wrapper / thunk
            r0 = dict(r, out=r['out0'], outs=r['outs0'], pimg=r['pimg0'], pstk=None)
            bad += ['first call (through the lazy-generation wrapper): ' + b
                    for b in H.compare_c06(c['proto'], c['body'], m, r0, c['vals'], c['resvals'], ptrs, c['engine'])
                    if not b.startswith(H.SRET_MSG)]
        if i in fobs:
            bad += H.compare_frame(fobs[i], frows['c%d' % i], c['proto']['vararg'])
            m['frame'] = dict(obs={k: (sorted(v) if isinstance(v, set) else v) for k, v in fobs[i].items()}, model=frows['c%d' % i])
        res.append((c, bad, m))
    return res


def gcc_callers(chk, model, quick):
    """gcc-compiled C callers (generated from the same prototypes) enter the MIR function: the function
    must observe the C caller's argument values and the C caller the function's results"""
    from checks import c05 as C5
    rng = chk.rng('c06-gcc')
    protos = [G.gen_proto(rng, min_fixed=1, cf=True) for _ in range(90 if quick else 1200)]
    impl_g, ok = C5.build_gen(chk, protos)
    cases, lines = [], []
    for k in ok:
        p = protos[k]
        vals, _ = G.gen_values(rng, p)
        vals = G.fix_values(p, vals, rng)
        resvals = H.res_values(rng, p)
        for e in (['interp', rng.choice(['gen0', 'gen1', 'gen2', 'gen3']), 'lazy'] if quick else ENGINES):
            body = H.gen_body(rng)
            if body['kind'] == 'leafpress':
                body['kind'] = 'pressure'
            if p['vararg'] and len(p['args']) > p['nfixed'] and rng.random() < 0.6:
                body.update(vaplan=H.va_plan(rng, p), deadfx=rng.random() < 0.5)
            c = dict(proto=p, vals=vals, resvals=resvals, body=body, engine=e, junk=[], target='gcaller%d' % k)
            vb = bytearray(H.vals_buffer(p, body, resvals))
            ab = G.vals_bytes(p, vals)
            vb[0:len(ab)] = ab
            cases.append(c)
            lines.append(' '.join(['q%d' % len(lines), 'c06', e, c['target'], G.hexs(H.c06_mir(p, body).encode()), G.hexs(bytes(vb)), '-']))
    rows, err = G.run_harness(vlib, impl_g, lines)
    mlines = [G.model_line('q%d' % i, c['proto'], c['vals'], dict(rax=0, rdx=0, xmm0=0, xmm1=0), VALS_ADDR) for i, c in enumerate(cases)]
    rc2, mout, merr = vlib.run_lines(model, mlines, timeout=600)
    if rc2 != 0 or len(mout) != len(cases):
        raise vlib.BuildError('model driver failed rc=%d: %s' % (rc2, merr[-800:]))
    found = []
    for i, c in enumerate(cases):
        p = c['proto']
        m = G.parse_model(mout[i])
        r = rows.get('q%d' % i, dict(status='missing', detail=err[-200:]))
        chk.count(('gcc-caller', G.proto_sig(p), c['engine'], c['body']['kind']), nontrivial=len(p['args']) >= 2)
        chk.dist('threeway', 'gcc-caller->mir')
        if H.va_plan_kind(p, c['body']):
            chk.dist('variadic_tail_consumption', H.va_plan_kind(p, c['body']))
        bad = []
        if r['status'] != 'ok':
            bad.append('%s %s' % (r['status'], r.get('detail', '')))
        else:
            outs = r['outs']
            offs, _ = G.layout(p)
            observed = H.va_observed(p, c['body'])
            for k, (t, b, off) in enumerate(zip(p['args'], c['vals'], offs)):
                if t.startswith('rblk') or k not in observed:
                    continue
                want = H.expected_param_bytes(t, b, 0, off)
                if outs[off:off + len(want)] != want:
                    bad.append('param %d (%s%s): function sees %s, gcc-compiled caller passed %s' % (
                        k, t, ' variadic' if k >= p['nfixed'] else '', outs[off:off + len(want)].hex(), want.hex()))
            seen = r.get('seen', b'')[2048:]
            res = p['res']
            pos = [0] if len(res) == 1 else ([0, 16] if res and res[0] == 'ld' else [0, 8])
            for k, t in enumerate(res[:2] if len(res) <= 2 else []):
                n = {'i8': 1, 'u8': 1, 'i16': 2, 'u16': 2, 'i32': 4, 'u32': 4, 'f': 4, 'ld': 10}.get(t, 8)
                if seen[pos[k]:pos[k] + n] != c['resvals'][k][:n]:
                    bad.append('result %d (%s): gcc-compiled caller receives %s, function returned %s' % (
                        k, t, seen[pos[k]:pos[k] + n].hex(), c['resvals'][k][:n].hex()))
        if bad:
            found.append((c, bad, m))
    chk.cov['gcc_expressible_prototypes'] = '%d of %d' % (len(ok), len(protos))
    return found


def c06_boundary():
    out = []
    i64 = 'i64'
    for k in (4, 5, 6, 7):
        out.append(dict(args=[i64] * k + [i64, 'd', i64], nfixed=k, vararg=True, res=['i64']))
        out.append(dict(args=[i64] * k + ['ld'], nfixed=k + 1, vararg=False, res=['ld']))
    for k in (7, 8, 9):
        out.append(dict(args=['d'] * k + ['d', i64, 'd'], nfixed=k, vararg=True, res=['d']))
    out.append(dict(args=['p', 'd', 'd', 'd', 'd', 'd', 'd', 'd', 'd', 'd', i64, 'ld', 'd'], nfixed=1, vararg=True, res=[]))
    out.append(dict(args=['p', 'blk2:16', 'd'], nfixed=1, vararg=True, res=[]))
    out.append(dict(args=['p', 'blk3:16', 'd', i64], nfixed=1, vararg=True, res=[]))
    out.append(dict(args=['p', 'blk4:16', 'd', i64], nfixed=1, vararg=True, res=[]))
    out.append(dict(args=['p', 'blk1:16', 'blk1:8', i64, i64, i64, 'blk1:16', i64], nfixed=1, vararg=True, res=[]))
    out.append(dict(args=['p'] + ['d'] * 7 + ['blk2:16', 'd', 'd'], nfixed=1, vararg=True, res=[]))
    out.append(dict(args=['p', i64, i64, i64, i64, i64, 'ld', i64, 'ld'], nfixed=1, vararg=True, res=[]))
    out.append(dict(args=['blk1:16', 'p', 'blk:24', i64, 'd'], nfixed=3, vararg=True, res=[]))
    out.append(dict(args=['blk2:16', 'blk3:16', 'blk4:12', 'blk:40', 'rblk:24', 'i8', 'u16', 'f'], nfixed=8, vararg=False,
                    res=['i8', 'f']))
    out.append(dict(args=[], nfixed=0, vararg=False, res=['i64', 'd', 'ld', 'u8', 'ld', 'f']))
    out.append(dict(args=['rblk:24', 'i64'], nfixed=2, vararg=False, res=[]))
    # frameless leaf candidates: register-only parameters (bodies: see LEAF_BODIES in gen_cases)
    for a in ([], ['i64'], ['i64', 'd'], ['i32', 'i64', 'u8'], ['d', 'f']):
        out.append(dict(args=a, nfixed=len(a), vararg=False, res=['i64'], leaf=True))
    out.append(dict(args=['rblk:40', 'd', 'blk:24'], nfixed=3, vararg=False, res=['d']))
    # far beyond the register files (and beyond the interpreter's initial 64-element argument arrays)
    out.append(dict(args=[i64] * 70, nfixed=70, vararg=False, res=['i64']))
    out.append(dict(args=[i64, 'd'] * 45, nfixed=90, vararg=False, res=['d', 'i64']))
    out.append(dict(args=['u8', 'f', 'i16', 'd', 'u32', 'ld'] * 11, nfixed=66, vararg=False, res=['ld']))
    out.append(dict(args=['p'] + [i64, 'd'] * 35, nfixed=1, vararg=True, res=['i64']))
    # size-0 blocks (empty struct by value)
    out.append(dict(args=[i64] * 7 + ['blk:0', i64], nfixed=9, vararg=False, res=['i64']))
    out.append(dict(args=['blk:0', i64], nfixed=2, vararg=False, res=['i64']))
    out.append(dict(args=['p', i64, 'blk:0', 'd'], nfixed=1, vararg=True, res=[]))
    out.append(dict(args=['blk1:8', 'blk:0', 'd', 'blk2:16'], nfixed=4, vararg=False, res=['d']))
    for p in out:
        p['style'] = 'boundary'
    return out


def c06_vaskip_protos():
    """variadic prototypes whose tails cross the register-save-area / overflow-area boundaries in every class, so that a
    skipped argument of each class is followed by arguments from the same and from the other areas"""
    i64 = 'i64'
    out = []
    for a, nf in ((['p', i64, i64, i64], 1), (['p', 'd', 'd', 'd'], 1), (['p', 'ld', 'ld', i64], 1), (['p', i64, 'd', i64, 'd', 'ld', i64, 'd'], 1),
                  (['p'] + [i64] * 9, 1), (['p'] + ['d'] * 11, 1), ([i64] * 6 + [i64, i64, 'd'], 6), (['p', i64, i64, i64, i64] + [i64] * 4, 5),
                  (['d'] * 7 + ['d', 'd', 'd', i64], 7), (['p', 'blk:24', i64, 'blk:24', i64], 1), (['p', 'blk1:16', i64, 'blk1:16', i64, 'blk1:8', i64, i64], 1),
                  (['p', 'blk2:16', 'd', 'blk2:8', 'd', 'd', 'd', 'blk2:16', 'd', 'd'], 1), (['p', 'blk3:16', i64, 'd', 'blk4:16', 'd', i64], 1),
                  (['p', i64, 'blk:0', i64, 'blk:9', i64], 1), (['p', 'ld', i64, 'ld', 'd', 'ld'], 1), (['p', 'u8', 'd'] + [i64, 'd'] * 10, 3),
                  (['p', 'blk:40', 'blk:40', 'blk:40', 'd'], 1)):
        out.append(dict(args=list(a), nfixed=nf, vararg=True, res=['i64'] if len(a) % 2 else [], style='vaskip'))
    return out


def gen_cases(chk, quick):
    rng = chk.rng('c06')
    protos = c06_boundary() + [p for p in G.boundary_protos() if not (p['vararg'] and p['nfixed'] == 0)]
    corpus = os.path.join(vlib.VERIF, 'corpus', 'c06.jsonl')
    if os.path.exists(corpus):
        for l in open(corpus):
            l = l.strip()
            if l and not l.startswith('#'):
                protos.append(json.loads(l))
    n = 120 if quick else 2500
    for _ in range(n):
        protos.append(G.gen_proto(rng, min_fixed=1))
    cases = []
    for k, p in enumerate(protos):
        vals, _ = G.gen_values(rng, p)
        vals = G.fix_values(p, vals, rng)
        resvals = H.res_values(rng, p)
        junk = [rng.getrandbits(64) for _ in range(40)]
        engs = ENGINES if (not quick or k < 50) else ['interp', rng.choice(ENGINES[1:5]), rng.choice(ENGINES[1:])]
        if p.get('leaf'):
            # 8..12 simultaneously live integers, no call/alloca/stack: the function may be frameless
            for nl in (7, 8, 9, 10, 11, 12, 13):
                for e in ('gen1', 'gen2', 'gen3', 'lazy'):
                    b = H.gen_body(rng)
                    b.update(kind='leafpress', nlive=nl)
                    cases.append(dict(proto=p, vals=vals, resvals=resvals, body=b, engine=e, junk=junk))
            continue
        for e in dict.fromkeys(engs):
            b = H.gen_body(rng)
            if b['kind'] == 'leafalloca' and p['vararg']:
                b['kind'] = 'alloca'
            if p['vararg'] and len(p['args']) > p['nfixed'] and rng.random() < 0.5:
                b.update(vaplan=H.va_plan(rng, p), deadfx=rng.random() < 0.5)
            cases.append(dict(proto=p, vals=vals, resvals=resvals, body=b, engine=e, junk=junk))
    # LEAF functions that execute alloca with 1..24 simultaneously live values at every level: spill slots + saved
    # callee-saved registers of both parities; every alloca result must be 16-byte aligned (and the contents survive)
    lr = chk.rng('c06-leafalloca')
    lprotos = [p for p in protos if p.get('leaf')] + [dict(args=['i64', 'blk:24', 'd'], nfixed=3, vararg=False, res=['i64']),
                                                       dict(args=['i64'] * 8 + ['d'] * 9, nfixed=17, vararg=False, res=['d']),
                                                       dict(args=['rblk:24', 'i64'], nfixed=2, vararg=False, res=[])]
    for j, (b, engs) in enumerate(H.leafalloca_bodies(lr, quick)):
        p = lprotos[j % len(lprotos)] if quick else lr.choice(lprotos)
        vals, _ = G.gen_values(lr, p)
        vals = G.fix_values(p, vals, lr)
        resvals = H.res_values(lr, p)
        junk = [lr.getrandbits(64) for _ in range(40)]
        for e in dict.fromkeys(engs):
            cases.append(dict(proto=p, vals=vals, resvals=resvals, body=b, engine=e, junk=junk))
    # variadic MIR callees that SKIP arguments (va_arg / va_block_arg whose value is not looked at: result unused,
    # overwritten by the next va_arg, used on one path only; singly, in loops, in branches) of every class and then read
    # later ones -- side-effecting insns with dead outputs must survive every optimisation level
    vr = chk.rng('c06-vaskip')
    vprotos = [p for p in c06_vaskip_protos()]
    for _ in range(16 if quick else 400):
        q = G.gen_proto(vr, min_fixed=1)
        if not q['vararg'] or len(q['args']) - q['nfixed'] < 2:
            a = [G.gen_arg_type(vr, vr.choice(['int', 'fp', 'blk', 'ld', 'mix']), tail=True) for _ in range(vr.randint(2, 9))]
            q = dict(args=['p'] * vr.choice([1, 1, 2, 5, 6]) + a, vararg=True, res=q['res'], style='vaskip')
            q['nfixed'] = len(q['args']) - len(a)
        vprotos.append(q)
    for k, p in enumerate(vprotos):
        vals, _ = G.gen_values(vr, p)
        vals = G.fix_values(p, vals, vr)
        resvals = H.res_values(vr, p)
        junk = [vr.getrandbits(64) for _ in range(40)]
        sts = ['skipfirst', 'lastonly', vr.choice(H.VA_STRATEGIES)] if k < len(c06_vaskip_protos()) else [vr.choice(H.VA_STRATEGIES)]
        for st in sts if quick else H.VA_STRATEGIES:
            b = H.gen_body(vr)
            if b['kind'] in ('leafpress', 'inl'):
                b['kind'] = 'plain'
            b.update(vaplan=H.va_plan(vr, p, st), deadfx=vr.random() < 0.5)
            engs = ENGINES if not quick else ['interp', vr.choice(['gen0', 'gen1']), 'gen2', 'gen3', vr.choice(['lazy', 'lazybb'])]
            for e in dict.fromkeys(engs):
                cases.append(dict(proto=p, vals=vals, resvals=resvals, body=b, engine=e, junk=junk))
    # MIR functions that themselves call with every argument-placement kind, under register pressure, with and
    # without frame-pointer-forcing features; the values live across the call and the callee's image are checked
    xr = chk.rng('c06-xcall')

    def xeng(rep):
        if not quick:
            return ENGINES
        return ['gen0', 'gen1', 'gen2', 'gen3', xr.choice(['interp', 'lazy', 'lazybb'])] if rep == 0 else \
            [xr.choice(['gen0', 'gen1']), xr.choice(['gen2', 'gen3', 'lazy', 'interp'])]
    for p, b, engs in H.xcall_cases(xr, 24 if quick else 600, xeng):
        vals, _ = G.gen_values(xr, p)
        vals = G.fix_values(p, vals, xr)
        resvals = H.res_values(xr, p)
        junk = [xr.getrandbits(64) for _ in range(40)]
        for e in dict.fromkeys(engs):
            cases.append(dict(proto=p, vals=vals, resvals=resvals, body=b, engine=e, junk=junk))
    return cases


def replay_obj(c, bad, m):
    return dict(proto=c['proto'], engine=c['engine'], body=c['body'], target=c.get('target', 'tramp'), vals=[v.hex() for v in c['vals']],
                resvals=[v.hex() for v in c['resvals']], junk=c['junk'], mismatches=bad,
                model_image=['%s=%s/%d' % x for x in m['img']], model_va=m.get('vastart'), frame=m.get('frame'),
                mir=H.c06_mir(c['proto'], c['body']))


def signature(c):
    eng = 'interp' if c['engine'] == 'interp' else 'gen'
    if c['body']['kind'] == 'xcall':
        return 'c06:%s:xcall:%s:calls:%s' % (eng, G.proto_sig(c['proto']), G.proto_sig(c['body']['cproto']))
    return 'c06:%s:%s:%s' % (eng, c['body']['kind'] if c['body']['kind'] != 'plain' else '-', G.proto_sig(c['proto']))


def shrink_case(impl, model, c):
    proto = dict(c['proto'])
    vals = list(c['vals'])
    resvals = list(c['resvals'])
    body = dict(c['body'])
    def fails(cc):
        if cc['proto']['vararg'] and cc['proto']['nfixed'] < 1:
            return False
        bad = run_cases(impl, model, [cc])[0][1]
        return bool(bad) and not any(b.startswith('error') for b in bad)
    if body['kind'] != 'plain':
        cc = dict(c, body=dict(body, kind='plain'))
        if fails(cc):
            body = cc['body']
    changed = True
    while changed:
        changed = False
        for i in range(len(proto['args']) - 1, -1, -1):
            p2 = dict(proto)
            p2['args'] = proto['args'][:i] + proto['args'][i + 1:]
            p2['nfixed'] = proto['nfixed'] - (1 if i < proto['nfixed'] else 0)
            v2 = vals[:i] + vals[i + 1:]
            b2 = H.plan_remove(proto, body, i)
            if fails(dict(c, proto=p2, vals=v2, resvals=resvals, body=b2)):
                proto, vals, body, changed = p2, v2, b2, True
        for i in range(len(proto['res']) - 1, -1, -1):
            p2 = dict(proto)
            p2['res'] = proto['res'][:i] + proto['res'][i + 1:]
            r2 = resvals[:i] + resvals[i + 1:]
            if fails(dict(c, proto=p2, vals=vals, resvals=r2, body=body)):
                proto, resvals, changed = p2, r2, True
    return dict(c, proto=proto, vals=vals, resvals=resvals, body=body)


def coqchk(chk):
    """thorough tier: re-check the compiled property file and everything it depends on with Coq's
    independent checker and record the axioms it reports"""
    rc, out, err = vlib.sh(['timeout', '1500', 'coqchk', '-o', '-silent', '-Q', '.', 'MirV', 'MirV.Properties_%s' % chk.prop],
                           cwd=vlib.COQDIR)
    txt = out + err
    ok = rc == 0 and 'Axioms: <none>' in txt.replace('\n  ', ' ').replace('* Axioms:\n', '* Axioms: ')
    import re
    m = re.search(r'\* Axioms:(.*?)\* Constants', txt, re.S)
    chk.cov['coqchk'] = dict(rc=rc, axioms=(m.group(1).strip() if m else '?'))
    if rc != 0:
        chk.notes.append('coqchk failed: ' + txt[-400:])
    return rc == 0


def run(chk):
    quick = chk.tier == 'quick'
    # conversion tables, register tables, call-used test, ALLOCA templates, pattern table and stub bytes are
    # regenerated from the checked tree (coq/gen/C05Abi.v) before the proofs are re-checked
    _, tnotes = tr_c05_abi.generate()
    for n in tnotes:
        chk.log('note: ' + n)
        chk.notes.append(n)
    chk.cov['trusted_base'] += ['translator tools/tr_c05_abi.py (gcc -E -P -U_WIN32 + regular expressions over get_ext_code, '
                                'get_int/fp_arg_reg, target_call_used_hard_reg_p, patterns[], out_insn, the ext switches of mir.c, the '
                                'conversion switches of mir-interp.c, the byte arrays of mir-x86_64.c; finite tables by executing the generator\'s '
                                'own functions: harness/c05_tables.c); a part that is not recognised falls back to the reviewed '
                                'model and is reported as a note']
    r = chk.prove()
    if not quick and r['ok'] and not coqchk(chk):
        r = dict(r, ok=False, log=r['log'] + '\ncoqchk rejected the compiled proofs')
    impl, model = build(chk)
    G.anchor_drift(vlib, chk)
    chk.cov['trusted_base'] += ['extraction: ExtrOcamlBasic only, no Extract Constant/Inductive of our own',
                                'ocaml/driver_c06.ml (parse + print), harness/c05_probe.c + c05_asm.S (assembly trampoline), '
                                'tools/gen_c05_cases.py, tools/gen_c06_cases.py (MIR text generation, image construction and comparison), '
                                'GNU as, gcc 12']
    cases = gen_cases(chk, quick)
    for c in cases:
        p = c['proto']
        chk.count((G.proto_sig(p), c['engine'], c['body']['kind'], c['body'].get('nlive'), [v.hex() for v in c['vals']]),
                  nontrivial=len(p['args']) + len(p['res']) >= 2)
        chk.dist('engine', c['engine'])
        chk.dist('body', c['body']['kind'])
        if c['body']['kind'] == 'xcall':
            chk.dist('xcall_argument_placement', c['body']['cproto'].get('family', '?'))
            chk.dist('xcall_live_values', '%s ints, %s doubles' % ('0' if c['body']['ni'] == 0 else '<=6' if c['body']['ni'] <= 6 else '>6',
                                                                  '0' if c['body']['nd'] == 0 else '<=9' if c['body']['nd'] <= 9 else '>9'))
        chk.dist('vararg', p['vararg'])
        if H.va_plan_kind(p, c['body']):
            chk.dist('variadic_tail_consumption', H.va_plan_kind(p, c['body']))
        chk.dist('nargs', min(len(p['args']), 20) // 4 * 4)
    chk.cov['rule'] = ('seeded + boundary + corpus signatures x random values x {interp shim, gen -O0..-O3, lazy} x callee bodies '
                       '{plain, register pressure, fp pressure, alloca, nested call}: an assembly trampoline places the arguments '
                       'where the extracted SysV model says, the MIR function must observe them, return its results in the '
                       'model\'s registers and leave rbx/rbp/r12-r15, rsp, MXCSR control bits, x87 CW/stack, DF intact; '
                       'non-trivial: >= 2 arguments+results; distinct by signature+engine+body+values')
    for c in cases[:3]:
        chk.sample(dict(sig=G.proto_sig(c['proto']), engine=c['engine'], body=c['body']['kind']))
    res = run_cases(impl, model, cases)
    seen = set()
    nbad = 0
    sret_done = False
    tie_only = []
    for c, bad, m in res:
        if m.get('frame'):
            o = m['frame']['obs']
            chk.dist('frame_layout', 'frame-pointer' if o['keep_fp'] else ('sp-based' if o['sub'] is not None else 'frameless'))
            chk.dist('callee_saved_regs_saved', len(o['saves']))
        # the one recorded deviation (KNOWN_FINDINGS: c06:sret-rax) is split off; everything else
        # about the same call is still judged
        sret = [b for b in bad if b.startswith(H.SRET_MSG)]
        bad = [b for b in bad if not b.startswith(H.SRET_MSG)]
        if sret and not sret_done:
            sret_done = True
            w = dict(c, proto=dict(args=['rblk:24', 'i64'], nfixed=2, vararg=False, res=[]), vals=[bytes(24), bytes(8)],
                     resvals=[], body=dict(c['body'], kind='plain'), engine='interp')
            (w, wb, wm), = run_cases(impl, model, [w])
            if any(b.startswith(H.SRET_MSG) for b in wb):
                c_, b_, m_ = w, [b for b in wb if b.startswith(H.SRET_MSG)], wm
            else:
                c_, b_, m_ = c, sret, m
            if chk.finding('c06:sret-rax', replay_obj(c_, b_, m_),
                           'MIR function %s entered via %s: %s' % (G.proto_sig(c_['proto']), c_['engine'], b_[0])):
                nbad += 1
        if not bad:
            continue
        if all(b.startswith('tie:') for b in bad):
            # the function behaved correctly as far as the trampoline can see; only the VaList/Frame
            # model no longer describes what the generator emitted
            tie_only.append((c, bad, m))
            continue
        sig = signature(c)
        if sig in seen:
            continue
        seen.add(sig)
        nbad += 1
        if nbad > 12:
            continue
        small = shrink_case(impl, model, c)
        (c2, bad2, m2), = run_cases(impl, model, [small])
        if not bad2:
            c2, bad2, m2 = c, bad, m
        if signature(c2) in seen and signature(c2) != sig:
            continue
        seen.add(signature(c2))
        chk.finding(signature(c2), replay_obj(c2, bad2, m2),
                    'MIR function %s entered via %s (%s body): %s' % (
                        G.proto_sig(c2['proto']), c2['engine'], c2['body']['kind'], '; '.join(bad2[:3])))
    if not quick:
        impl_dbg = vlib.build_harness('c05_probe', ['c05_probe.c', 'c05_asm.S'], variant='dbg')
        sub = cases[:len(cases) // 4]
        chk.dist('variant', 'asserts-on', len(sub))
        for c, bad, m in run_cases(impl_dbg, model, sub):
            bad = [b for b in bad if not b.startswith(H.SRET_MSG)]
            if bad and ('dbg:' + signature(c)) not in seen:
                seen.add('dbg:' + signature(c))
                nbad += 1
                if nbad <= 14:
                    chk.finding(signature(c), replay_obj(c, bad, m), 'assert-enabled build: MIR function %s entered via %s (%s body): %s' % (
                        G.proto_sig(c['proto']), c['engine'], c['body']['kind'], '; '.join(bad[:3])))
    if tie_only and not nbad:
        # broken correspondence without a failing input: every dynamic observation (parameters, results,
        # callee-saved registers, rsp, alignment, control state) was right on every case of this run
        c, bad, m = tie_only[0]
        chk.finding('tie-broken:frame-or-va_list', dict(replay_obj(c, bad, m), theorems=['frame_saves_cover', 'frame_sp_aligned',
                    'frame_slots_sound', 'va_arg_sequence_eq_sysv'], cases_with_model_mismatch=len(tie_only),
                    searched='%d native->MIR calls: parameters, results, callee-saved registers, rsp, MXCSR/x87, alloca, '
                             'nested-call alignment all as the ABI requires' % len(cases)),
                    'the Frame/VaList model no longer matches what the generator emits (e.g. %s via %s: %s); no ABI-level '
                    'failure found' % (G.proto_sig(c['proto']), c['engine'], '; '.join(bad[:2])), no_input=True)
        nbad += 1
    for c2, bad2, m2 in gcc_callers(chk, model, quick):
        sig = 'c06:gcc-caller:' + signature(c2)
        if sig in seen:
            continue
        seen.add(sig)
        nbad += 1
        if nbad <= 14:
            chk.finding(signature(c2), replay_obj(c2, bad2, m2), 'MIR function %s entered from a gcc-compiled caller via %s (%s body): %s' % (
                G.proto_sig(c2['proto']), c2['engine'], c2['body']['kind'], '; '.join(bad2[:3])))
    if not r['ok'] and not nbad:
        chk.proof_broken(r, searched='%d native->MIR calls agreed with the SysV model' % len(cases))


def replay(chk, path):
    j = json.load(open(path))['replay']
    impl, model = build(chk)
    c = dict(proto=j['proto'], engine=j['engine'], body=j['body'], vals=[bytes.fromhex(v) for v in j['vals']],
             resvals=[bytes.fromhex(v) for v in j['resvals']], junk=j['junk'])
    if j.get('target', 'tramp').startswith('gcaller'):
        print('gcc-compiled caller case: re-run `./check C06` with seed %s (the C caller is regenerated from the prototype)' % json.load(open(path)).get('seed'))
        print('prototype:', G.proto_sig(c['proto']), 'engine:', c['engine'], 'mismatches then:', j.get('mismatches'))
        return 1
    (c, bad, m), = run_cases(impl, model, [c])
    print('signature:', G.proto_sig(c['proto']), 'engine:', c['engine'], 'body:', c['body']['kind'])
    print('mismatches:', bad)
    return 1 if bad else 0

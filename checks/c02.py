# C02: every instruction computes its documented result in every engine.
#   proofs: coq/Properties_C02.v over tables REGENERATED from the checked tree (tools/tr_c02_*.py)
#   correspondence: one-instruction functions (harness/c02_insn.c) in all operand shapes over the
#   boundary grid, run by MIR_interp and MIR_gen -O0..-O3, expected value from the extracted DocSpec.
import os, sys, json, re, shutil, atexit
from concurrent.futures import ThreadPoolExecutor
import vlib
import tr_opcodes, tr_c02_interp
import gen_c02_cases as G

LEVEL = 'proof'
ENGINES = ['interp', 'gen0', 'gen1', 'gen2', 'gen3']


def regenerate(chk):
    """the source ties: opcode enumeration + regenerated tables"""
    problems = []
    ops = tr_opcodes.opcodes()
    if ops != tr_opcodes.committed():
        problems.append('opcode enumeration of mir.h differs from coq/Mir/Opcode.v')
    tr_c02_interp.main()
    import tr_c02_gvn, tr_c02_peephole, tr_c02_x86pat, tr_c02_x86builtin, tr_c02_addr
    tr_c02_gvn.main()
    chk.addr_table = tr_c02_addr.main()
    tr_c02_peephole.main()
    problems += tr_c02_x86pat.main() or []
    problems += tr_c02_x86builtin.main() or []
    # rows / constructs that were not in their literal canonical form and were tied by an SMT equivalence (all operand
    # values, QF_BV) resp. symbolic execution + SMT; operand values on which an extracted row differs from the canonical one
    import tr_c02_smt
    smt = dict(notes={}, hints={})
    for key, path in (('notes', tr_c02_smt.NOTES), ('hints', tr_c02_smt.HINTS)):
        try:
            smt[key] = json.load(open(path))
        except (OSError, ValueError):
            pass
    chk.smt = smt
    return ops, problems


class Oracle:
    def __init__(self, exe):
        self.exe = exe

    def ask(self, lines):
        if not lines:
            return []
        rc, out, err = vlib.run_lines(self.exe, lines, timeout=1800)
        if rc != 0 or len(out) != len(lines):
            raise vlib.BuildError('oracle driver failed: rc=%d %s' % (rc, err[-300:]))
        return out


def isnan(kind, v):
    if kind == 'f':
        return (v & 0x7f800000) == 0x7f800000 and (v & 0x7fffff) != 0
    if kind == 'd':
        return (v & 0x7ff0000000000000) == 0x7ff0000000000000 and (v & 0xfffffffffffff) != 0
    if kind == 'l':      # x87 extended: exponent all ones, fraction (below the integer bit) non-zero
        return ((v >> 64) & 0x7fff) == 0x7fff and (v & ((1 << 63) - 1)) != 0
    return False


LDCONV = ('I2LD', 'UI2LD', 'F2LD', 'D2LD', 'LD2F', 'LD2D', 'LD2I')   # Mir/DocSpecLD.v gives these a Coq meaning


def place_value(c, e, d, kind, mask, flag, strict_ld_nan=True):
    """enter the documented value d (kind, defined bits mask) of case c into expectation e: result register (block
    [96..), function result for integers) or memory destination; returns the oracle request for the stored bytes or None"""
    nan = isnan(kind, d) and not (kind == 'l' and strict_ld_nan)
    if c['dst']['kind'] in ('m', 'X'):
        inplace = c['dst']['kind'] == 'X'        # the destination is the memory operand x itself
        dty = c['x']['ty'] if inplace else c['dst']['ty']
        c['dst_off'] = 128 if inplace else 192
        if inplace:
            e['init'] = {128 + i: b for i, b in enumerate(G.le_bytes(c['x']['val'], 16))}
        if nan:
            e['nan'] = (c['dst_off'], kind)
        if kind == 'i' and mask == 0xffffffff and G.TYPE_SIZE[dty] == 8:
            e['dontcare'] |= set(range(c['dst_off'] + 4, c['dst_off'] + 8))   # upper half of a 32-bit result is undefined
        return 'st %s %x' % (dty, d)
    size = G.KIND_SIZE[kind]
    for i, b in enumerate(G.le_bytes(d, size)):
        e['writes'][96 + i] = b
    if kind == 'i' and mask == 0xffffffff:
        e['dontcare'] |= set(range(100, 104))
    if nan:
        e['nan'] = (96, kind)
    if flag is None and kind == 'i':
        e['ret'] = d
        e['retmask'] = mask
    return None


def expectations(cases, infos, oracle):
    """cases: parsed cases; fills c['exp'] = None (undefined: skip) | dict(ret, retmask, writes, nan_at) | 'nodoc'"""
    byname = {i.name: i for i in infos}
    for c in cases:
        if G.is_special(c):            # stack allocation, switch, indirect jumps, calls: expectation computed here
            c['info'] = SPECIAL_INFO
            c['args'] = []
            c['exp'] = G.special_expect(c)
    # sequences of accesses to one cell: every load / store is the documented extending load / truncating store (oracle)
    ms = [c for c in cases if c['op'] == '@MEMSEQ']
    sreq = [G.memseq_store_requests(c) for c in ms]
    sans = iter(oracle.ask([q for rq in sreq for q in rq]))
    lreq = [G.memseq_load_requests(c, [next(sans) for _ in rq]) for c, rq in zip(ms, sreq)]
    lans = iter(oracle.ask([q for rq in lreq for q in rq]))
    for c, rq in zip(ms, lreq):
        c['exp'] = G.memseq_expect(c, [next(lans) for _ in rq])
    # address arithmetic feeding one access: the cell sits at the documented address base + index*scale + disp (linear form
    # of the generator, solved by the harness); the access itself is the documented extending load / truncating store
    ad = [c for c in cases if c['op'] == '@ADDR']
    areq = []
    for c in ad:
        acc, ty = G.addr_parse(c)
        cellv = c['x']['val'] & ((1 << (8 * G.TYPE_SIZE[ty])) - 1)
        areq.append('ld %s %x' % (ty, cellv) if acc == 'L' else 'st %s %x' % (ty, c['y']['val']))
    for c, a in zip(ad, oracle.ask(areq)):
        acc, ty = G.addr_parse(c)
        e = dict(ret=0, retmask=G.M64, writes={}, nan=None, dontcare=set())
        e['init'] = {128 + i: b for i, b in enumerate(G.le_bytes(c['x']['val'], 16))}
        if acc == 'L':
            e['ret'] = int(a.split()[1], 16)
        else:
            bs = a.split()[1]
            for i in range(len(bs) // 2):
                e['writes'][128 + i] = int(bs[2 * i:2 * i + 2], 16)
        c['exp'] = e
    allcases = cases
    cases = [c for c in allcases if not G.is_special(c)]
    # phase A: values of memory sources
    req, where = [], []
    for c in cases:
        info = byname[c['op']]
        c['info'] = info
        c['args'] = []
        for k, key in zip(info.args, ('x', 'y')):
            o = c[key]
            if o['kind'] == 'm' and k == 'i':
                req.append('ld %s %x' % (o['ty'], o['val']))
                where.append((c, len(c['args'])))
                c['args'].append(None)
            else:
                c['args'].append(o['val'])
    for (c, i), a in zip(where, oracle.ask(req)):
        c['args'][i] = int(a.split()[1], 16)
    pre = [c for c in cases if c.get('pre')]
    for c, a in zip(pre, oracle.ask(['sem %d %x' % (byname[c['pre']].num, c['args'][0]) for c in pre])):
        c['args'][0] = int(a.split()[1], 16)
    # phase B: documented result
    req = []
    for c in cases:
        info = c['info']
        hx = ' '.join('%x' % a for a in c['args'])
        if c['op'] in G.OVF:
            req.append('ovf %d %s' % (info.num, hx))
        elif info.res == '-':
            req.append('br %d %s' % (info.num, hx))
        else:
            req.append('sem %d %s' % (info.num, hx))
    ans = oracle.ask(req)
    # a unary instruction / BT.. applied to the result
    post = [(c, a) for c, a in zip(cases, ans) if c.get('post') and a.split()[0] == 'S']
    preq = []
    for c, a in post:
        pi = byname[c['post']]
        preq.append('%s %d %s' % ('br' if pi.res == '-' else 'sem', pi.num, a.split()[1]))
    postans = {c['id']: pa for (c, _), pa in zip(post, oracle.ask(preq))}
    streq, stwhere = [], []
    presscases = []
    for c, a in zip(cases, ans):
        info = c['info']
        w = a.split()
        mask = info.mask
        writes = {}
        c['exp'] = None
        if w[0] == 'N':
            ld = 'l' in (info.res + info.args)
            if ld and info.name != 'LDMOV':
                c['exp'] = 'nodoc'
            continue
        e = dict(ret=0, retmask=G.M64, writes=writes, nan=None, dontcare=set())
        flag = None
        d = None
        if w[0] == 'B':
            flag = int(w[1])
        elif w[0] == 'O':
            d, s, u = int(w[1], 16), int(w[2]), int(w[3])
            flag = {'BO': s, 'BNO': 1 - s, 'UBO': u, 'UBNO': 1 - u}[c['br']]
            e['dontcare'] |= set(range(88, 96))
            if c.get('prime') is None:   # leave the opposite flags behind before the instruction under test
                c['prime'] = (1 - s) | ((1 - u) << 1)
                c['line'] += ' prime=%d' % c['prime']
        else:
            d = int(w[1], 16)
        if c['id'] in postans:
            pw = postans[c['id']].split()
            if pw[0] == 'N':
                continue
            if pw[0] == 'B':
                flag = int(pw[1])
            else:
                d = int(pw[1], 16)
                mask = byname[c['post']].mask
        if (c.get('press') and info.res == 'i' and info.args[0] == 'i' and c['x']['kind'] == 'r' and c['dst']['kind'] in 'rxy'
                and not c.get('pre') and not c.get('post')):
            presscases.append(c)      # register pressure: the instruction applied to x+1 .. x+n as well
        if flag is not None:
            e['ret'] = flag
            for i, b in enumerate(G.le_bytes(flag, 8)):
                writes[112 + i] = b
            if c.get('far') and G.far_executed(c, flag):     # the filler that makes the branch target far was on the executed path
                for i, b in enumerate(G.le_bytes(G.far_value(), 8)):
                    writes[240 + i] = b
        if d is not None:
            c['d'] = d
            rq = place_value(c, e, d, info.res, mask, flag)
            if rq is not None:
                streq.append(rq)
                stwhere.append(c)
        c['exp'] = e
    preq = []
    for c in presscases:
        n = min(int(c['press']), 32)
        kind = 'ovf' if c['op'] in G.OVF else 'sem'
        for i in range(n):
            preq.append('%s %d %s' % (kind, c['info'].num, ' '.join('%x' % v for v in [(c['args'][0] + i + 1) & G.M64] + c['args'][1:])))
    pans = oracle.ask(preq)
    k = 0
    for c in presscases:
        n = min(int(c['press']), 32)
        acc = 0
        for i in range(n):
            w = pans[k].split()
            k += 1
            if w[0] == 'N':
                acc = None
            elif acc is not None:
                acc = (acc * 31 + (int(w[1], 16) & c['info'].mask)) & G.M64
        if acc is None:
            c['exp'] = None       # one of the copies is undefined: the case is not run
            continue
        for i, b in enumerate(G.le_bytes(acc, 8)):
            c['exp']['writes'][232 + i] = b
    for c, a in zip(stwhere, oracle.ask(streq)):
        hx = a.split()[1]
        for i in range(0, len(hx), 2):
            c['exp']['writes'][c['dst_off'] + i // 2] = int(hx[i:i + 2], 16)
    # conversions from / to long double: documented value from Mir/DocSpecLD.v (exact x87 extended format in Flocq); the
    # case stays 'nodoc' for users that only know DocSpec.doc_sem, the expectation is attached as c['ldexp']
    ldc = [c for c in cases if c['exp'] == 'nodoc' and c['op'] in LDCONV and not c.get('pre') and not c.get('post') and not c.get('press')]
    streq, stwhere = [], []
    for c, a in zip(ldc, oracle.ask(['ldsem %d %s' % (c['info'].num, ' '.join('%x' % v for v in c['args'])) for c in ldc])):
        w = a.split()
        if w[0] != 'S':
            continue
        d = int(w[1], 16)
        e = dict(ret=0, retmask=G.M64, writes={}, nan=None, dontcare=set())
        c['d'] = d
        rq = place_value(c, e, d, c['info'].res, c['info'].mask, None, strict_ld_nan=False)
        if c['info'].res == 'l':     # bytes 10..15 of a 16-byte long double slot are padding
            off = c['dst_off'] if rq is not None else 96
            e['dontcare'] |= set(range(off + 10, off + 16))
        c['ldexp'] = e
        if rq is not None:
            streq.append(rq)
            stwhere.append(c)
    for c, a in zip(stwhere, oracle.ask(streq)):
        hx = a.split()[1]
        for i in range(0, len(hx), 2):
            c['ldexp']['writes'][c['dst_off'] + i // 2] = int(hx[i:i + 2], 16)
    return allcases


class _SpecialInfo:
    name, res, args, mask, num = '@special', 'i', 'ii', G.M64, -1


SPECIAL_INFO = _SpecialInfo()


def check_obs(c, obs, e=None):
    """obs = (ret, changes) of one engine; returns None if it matches the expectation else a text"""
    e = e or c['exp']
    ret, ch = obs
    if (ret ^ e['ret']) & e['retmask']:
        return 'returns %x, documented %x (mask %x)' % (ret, e['ret'], e['retmask'])
    init = e.get('init', {})     # initial content of the written cells where it is not the 0xA5 fill
    exp = {o: b for o, b in e['writes'].items() if b != init.get(o, 0xA5) and o not in e['dontcare']}
    got = {o: b for o, b in ch.items() if o not in e['dontcare']}
    if e['nan'] is not None:
        off, kind = e['nan']
        size = G.KIND_SIZE[kind]
        gv = sum((got.get(off + i, 0xA5) << (8 * i)) for i in range(size))
        if not isnan(kind, gv):
            return 'result %x is not a NaN (documented: NaN)' % gv
        for i in range(size):
            exp.pop(off + i, None)
            got.pop(off + i, None)
    if exp != got:
        diff = sorted(set(exp) | set(got))
        diff = [o for o in diff if exp.get(o) != got.get(o)]
        lo, hi = diff[0], diff[-1] + 1
        return 'block bytes [%d,%d): got %s, documented %s' % (
            lo, hi, ''.join('%02x' % got.get(o, init.get(o, 0xA5)) for o in range(lo, hi)),
            ''.join('%02x' % exp.get(o, init.get(o, 0xA5)) for o in range(lo, hi)))
    return None


def ld_isnan(b):
    """b: 10 little-endian bytes of an x87 extended value"""
    e = (b[9] & 0x7f) << 8 | b[8]
    frac = int.from_bytes(bytes(b[:8]), 'little') & ((1 << 63) - 1)
    return e == 0x7fff and frac != 0


def ld_same(c, obs, nobs):
    """engine observation vs native observation of a long double case (any NaN matches any NaN)"""
    (ret, ch), (nret, nch) = obs, nobs
    info = c['info']
    if info.res == 'i' and c['dst']['kind'] != 'm':
        if (ret ^ nret) & info.mask:
            return False
        ch = {o: v for o, v in ch.items() if not (info.mask == 0xffffffff and 100 <= o < 104)}
        nch = {o: v for o, v in nch.items() if not (info.mask == 0xffffffff and 100 <= o < 104)}
        return ch == nch
    if ret != nret:
        return False
    if info.res in ('l', 'f', 'd'):
        off = 192 if c['dst']['kind'] == 'm' else 96
        size = G.KIND_SIZE[info.res]
        gb = [ch.get(off + i, 0xA5) for i in range(size)]
        nb = [nch.get(off + i, 0xA5) for i in range(size)]
        if info.res == 'l':
            # bytes 10..15 of the 16-byte long double slot are padding, not value: a store may or may not write them
            ch = {o: v for o, v in ch.items() if not off + 10 <= o < off + 16}
            nch = {o: v for o, v in nch.items() if not off + 10 <= o < off + 16}
            if ld_isnan(gb) and ld_isnan(nb):
                ch = {o: v for o, v in ch.items() if not off <= o < off + size}
                nch = {o: v for o, v in nch.items() if not off <= o < off + size}
        else:
            gv = int.from_bytes(bytes(gb), 'little')
            nv = int.from_bytes(bytes(nb), 'little')
            if isnan(info.res, gv) and isnan(info.res, nv):
                ch = {o: v for o, v in ch.items() if not off <= o < off + size}
                nch = {o: v for o, v in nch.items() if not off <= o < off + size}
    return ch == nch


def run_harness(exe, lines, jobs=4):
    """returns {id: {engine: token}}; a crash of the harness is reported as {'crash': text}"""
    shards = [lines[i::jobs] for i in range(jobs)]

    def one(sh):
        res = {}
        todo = list(sh)
        while todo:
            rc, out, err = vlib.sh([exe, 'run'], input=('\n'.join(todo) + '\n').encode(), timeout=3600)
            outl = [l for l in out.split('\n') if l.strip()]
            for l in outl:
                cid, r = G.parse_result_line(l)
                res[cid] = r
            done = len(outl)
            # a line may be partially written when the process died
            if rc == 0 and done >= len(todo):
                break
            ncomplete = sum(1 for l in outl if all((' ' + e + '=') in l for e in ENGINES))
            bad = todo[ncomplete] if ncomplete < len(todo) else None
            if bad is None:
                break
            cid = bad.split()[0]
            part = res.get(cid, {})
            part['crash'] = 'harness died (rc=%d) %s' % (rc, err[-200:].replace('\n', ' '))
            res[cid] = part
            todo = todo[ncomplete + 1:]
        return res
    allres = {}
    with ThreadPoolExecutor(max_workers=jobs) as ex:
        for r in ex.map(one, shards):
            allres.update(r)
    return allres


def memaddr_lines(chk, infos, quick, byname):
    """memory operands with EVERY scale 1..255 (only 1/2/4/8 are hardware scales; all the others exist only through the
    index*scale lowering of simplify_op, shared by all engines, and the address combiner): index register positive /
    negative / large / wrapping, displacement of either sign and beyond 32 bits, with and without base, as the source of a
    load, the destination of a store, the source of an arithmetic insn and in place; every integer memory type.  The cell
    is placed by the harness at base + index*scale + disp (its own 64-bit arithmetic), so an engine that scales the index
    differently reads / writes somewhere else."""
    rng = chk.rng('memaddr')
    lines = []
    n = [0]
    idxs = [1, -1, 2, -2, 3, -5, 7, 1000, -1000, 0x7fffffff, -0x80000000, 1 << 32, -(1 << 33) + 1]
    disps = [0, 0, 8, -8, 127, -129, 1000, 0x7fffffff, -0x80000000, 1 << 33, -(1 << 40) + 3]
    mov, add = byname['MOV'], byname.get('ADD')

    def mem(ty, scale, val=None):
        form = rng.choice(['bi', 'bi', 'bid', 'bid', 'i', 'id'])
        index = rng.choice(idxs)
        if 'b' in form and rng.random() < 0.1:
            index = (1 << 61) * rng.choice([1, 3, -1]) + rng.choice([1, -7, 5])
        disp = rng.choice(disps) if 'd' in form else 0
        t = 'm%s,%s,%d,%d,%d' % (ty, form, scale, disp, index)
        return t if val is None else t + ':%x' % (val & ((1 << (8 * G.TYPE_SIZE[ty])) - 1))

    def cid():
        n[0] += 1
        return 'ma%d' % n[0]
    for scale in range(1, 256):
        reps = 1 if quick else 6
        for _ in range(reps):
            ty = rng.choice(G.MEM_INT_TYPES)
            v = rng.getrandbits(64) | 0x8080808080808080
            lines.append(G.gen_case(mov, rng, cid(), vals=[v], shapes=['m'], dst='r', optexts=[mem(ty, scale, v)], press=0))
            lines.append(G.gen_case(mov, rng, cid(), vals=[v], shapes=['r'], dst=mem(rng.choice(G.MEM_INT_TYPES), scale), press=0))
            if add is not None:
                w = rng.getrandbits(64)
                ty = rng.choice(G.MEM_INT_TYPES)
                k = rng.randrange(3)
                if k == 0:      # memory source of an arithmetic insn
                    lines.append(G.gen_case(add, rng, cid(), vals=[v, w], shapes=['m', 'r'], dst='r',
                                            optexts=[mem(ty, scale, v), 'r:%x' % w], press=0))
                elif k == 1:    # in place: op m, m, r
                    lines.append(G.gen_case(add, rng, cid(), vals=[v, w], shapes=['m', 'r'], dst='X',
                                            optexts=[mem(ty, scale, v), 'r:%x' % w], press=0))
                else:           # two memory sources and a memory destination, three different scales
                    s2, s3 = rng.randint(1, 255), rng.randint(1, 255)
                    lines.append(G.gen_case(add, rng, cid(), vals=[v, w], shapes=['m', 'm'], dst=mem(rng.choice(G.MEM_INT_TYPES), s3),
                                            optexts=[mem(ty, scale, v), mem(rng.choice(G.MEM_INT_TYPES), s2, w)], press=0))
    for l in lines:
        for m in re.finditer(r'\bm\w+,(\w+),(\d+),', l):
            sc = int(m.group(2))
            chk.dist('memaddr_scale', 'hardware 1/2/4/8' if sc in (1, 2, 4, 8) else 'other power of two' if sc & (sc - 1) == 0
                     else 'not a power of two')
    return lines


def regconst_lines(chk, infos, quick, byname):
    """MUL DIV UDIV MOD UMOD and the 32-bit forms whose second operand is a REGISTER defined in the function by `mov k, C`
    (operand shape `k`): at -O2/-O3 the constant reaches the instruction through the SSA edge and transform_mul_div /
    power2_int_op replace the instruction by shifts when C is a power of two.  C sweeps 2^k, -(2^k), 2^k+1, 2^k-1 for every
    k (incl. the sign bit: INT64_MIN, INT32_MIN / 0x80000000 with any upper half for the S forms); the other operand sweeps the
    boundary values of the width and of C.  Quick tier: every constant with k in {0,1,30,31,32,62,63} (S forms: 0,1,15,30,31)
    of both signs x all boundary values, plus a seed-dependent sample of the rest.  Division by zero and INT_MIN / -1 have
    no DocSpec result: the expectation is None and the case is not run (as for the other families)."""
    rng = chk.rng('regconst')
    lines = []
    n = 0
    for name in ('MUL', 'DIV', 'UDIV', 'MOD', 'UMOD', 'MULS', 'DIVS', 'UDIVS', 'MODS', 'UMODS'):
        info = byname.get(name)
        if info is None or not G.testable(info):
            continue
        w = 32 if name.endswith('S') else 64
        M = (1 << w) - 1
        top = [0, 1, 30, 31, 32, 62, 63] if w == 64 else [0, 1, 15, 30, 31]

        def consts(k):
            return [(1 << k) & M, (-(1 << k)) & M, ((1 << k) + 1) & M, ((1 << k) - 1) & M]

        def values(k):
            vs = [1 << (w - 1), (1 << (w - 1)) + 1, M, 0, 1, M >> 1, (1 << k) & M, (-(1 << k)) & M, ((1 << k) - 1) & M,
                  (1 - (1 << k)) & M, M - 1, 2]
            if w == 64:
                vs += [0x80000000, 0x7fffffff, 0xffffffff, 0xffffffff80000000, 1 << 32]
            out = []
            for v in vs:
                if v not in out:
                    out.append(v)
            return out

        def hi(v, mode=None):      # S forms: upper half of the register (0 / all ones / sign extension / arbitrary)
            if w == 64:
                return v
            if mode == 'z':
                return v
            if mode == 's':
                return v | ((0xffffffff if v >> 31 else 0) << 32)
            return v | (rng.choice([0, 0xffffffff, (0xffffffff if v >> 31 else 0), rng.getrandbits(32)]) << 32)
        rest = [k for k in range(w) if k not in top]
        todo = []
        for k in top:
            for c in consts(k)[:2]:
                todo += [(c, v, k) for v in values(k)]
                if w == 32:    # the 64-bit constant itself is / is not a power of two: zero and sign extended, always
                    todo += [(c, v, 'z') for v in values(k)]
                    if c >> 31:
                        todo += [(c, v, 's') for v in values(k)]
            for c in consts(k)[2:]:
                todo += [(c, v, k) for v in (values(k) if not quick else rng.sample(values(k), 3))]
        for k in (rest if not quick else rng.sample(rest, 6 if w == 64 else 4)):
            for c in consts(k):
                todo += [(c, v, k) for v in (values(k) if not quick else rng.sample(values(k), 5))]
        for (c, v, k) in todo:
            if c == 0 and 'MUL' not in name:
                continue
            n += 1
            swap = 'MUL' in name and rng.random() < 0.25
            ops = ['r:%x' % hi(v), 'k:%x' % hi(c, k if isinstance(k, str) else None)]
            vals, shapes = [v, c], ['r', 'k']
            if swap:
                ops.reverse(); vals.reverse(); shapes.reverse()
            dst = 'r' if rng.random() < 0.8 else ('y' if swap else 'x')
            lines.append(G.gen_case(info, rng, 'rk%d' % n, vals=vals, shapes=shapes, dst=dst, optexts=ops, press=0))
            cu = c if c < (1 << (w - 1)) else (1 << w) - c
            chk.dist('regconst', '%s %s' % (name, 'sign bit' if c == 1 << (w - 1) else 'power of two' if c & (c - 1) == 0 else
                                            'minus power of two' if cu & (cu - 1) == 0 else 'power of two +-1'))
    return lines


def generate(chk, infos, quick, c20=False):
    G.WIDE_SCALES[0] = not c20
    rng = chk.rng('cases')
    lines = []
    n = 0
    tests = [i for i in infos if G.testable(i)]
    per_op = 26 if quick else 260
    for info in tests:
        # boundary pairs in plain register shape, then random values in random shapes
        grids = [G.grid_for(k, rng, info.name, i) for i, k in enumerate(info.args)]
        nb = 8 if quick else 60
        for _ in range(nb):
            vals = [rng.choice(g) for g in grids]
            n += 1
            lines.append(G.gen_case(info, rng, c20=c20, cid= 'g%d' % n, vals=vals, shapes=['r'] * len(vals), dst='r'))
        for _ in range(per_op - nb):
            n += 1
            vals = [rng.choice(g) if rng.random() < 0.6 else G.rand_val(k, rng, info.name, i)
                    for i, (k, g) in enumerate(zip(info.args, grids))]
            lines.append(G.gen_case(info, rng, c20=c20, cid= 'g%d' % n, vals=vals))
    byname = {i.name: i for i in infos}
    # equal and adjacent operands (the boundary of every comparison, x-x, x/x ...) in several shapes
    for info in tests:
        if len(info.args) != 2 or info.args[0] != info.args[1]:
            continue
        k = info.args[0]
        g = G.grid_for(k, rng, info.name, 0)
        for v in rng.sample(g, 6 if quick else min(len(g), 40)):
            for dlt in (0, 1, -1):
                w = v
                if dlt and k == 'l':       # neighbours of a normal x87 number only (other patterns may be invalid operands)
                    if not (0 < ((v >> 64) & 0x7fff) < 0x7fff and 0 < (v & ((1 << 63) - 1)) < (1 << 63) - 1):
                        continue
                    w = v + dlt
                elif dlt:
                    w = (v + dlt) & (G.M64 if k in 'id' else 0xffffffff)
                for far in ((0, 1) if info.res == '-' and (dlt == 0 or not quick) else (None,)):
                    n += 1
                    lines.append(G.gen_case(info, rng, c20=c20, cid='e%d' % n, vals=[v, w], far=far,
                                            shapes=rng.choice([['r', 'r'], ['r', 'i'], ['r', 'm'], ['i', 'i'], ['m', 'r']]), dst='r'))
    # aimed cases: power-of-two immediates with 32-bit opcodes (transform_mul_div), x*1 / x+0 shortcuts
    for info in tests:
        if info.res == 'i' and info.args == 'ii' and re.match(r'^(U?MUL|U?DIV|U?MOD|ADD|SUB|OR|XOR|AND|LSH|RSH|URSH)O?S?$', info.name):
            ks = [0, 1, 2, 5, 30, 31, 32, 33, 62, 63] if quick else list(range(64))
            for k in ks:
                for xv in ([7, 0x80000000, 0xffffffff80000000, 0xfffffff9, 0xabcdef0100000007] if quick else
                           [7, 1, 0x80000000, 0xffffffff80000000, G.M64, 0x7fffffff, 1 << 63, 12345678901, 0xfffffff9, 0xabcdef0100000007,
                            0x00000001fffffffb]):   # zero-extended negative / garbage above the 32-bit operand of S insns
                    n += 1
                    lines.append(G.gen_case(info, rng, c20=c20, cid= 'p%d' % n, vals=[xv, 1 << k], shapes=['r', 'i'], dst='r'))
            for yv in (0, 1, G.M64):
                for xv in (5, 1 << 31, 1 << 63, 0x4000000000000000, 0x40000000):
                    for sh in (['r', 'i'], ['i', 'r'], ['i', 'i']):
                        n += 1
                        lines.append(G.gen_case(info, rng, c20=c20, cid= 'q%d' % n, vals=[xv, yv], shapes=sh, dst='r'))
    # overflow insns: exact results at and next to the signed / unsigned limits, every defined branch,
    # register and immediate second operand (the flags left by an earlier insn are set to the opposite)
    for info in tests:
        if info.name not in G.OVF:
            continue
        w = 32 if info.name.endswith('S') else 64
        pairs = G.overflow_boundary_pairs(w)
        exact = G.overflow_exact_pairs(info.name, w, rng)
        if quick:
            pairs = rng.sample(pairs, 60) + rng.sample(exact, min(len(exact), 90))
        else:
            pairs = pairs + exact
        brs = (['BO', 'BNO'] if info.ovfdef[0] == '1' else []) + (['UBO', 'UBNO'] if info.ovfdef[1] == '1' else [])
        for (a, b) in pairs:
            if w == 32:   # arbitrary upper halves
                a |= rng.choice([0, 0xffffffff, rng.getrandbits(32)]) << 32
                b |= rng.choice([0, 0xffffffff, rng.getrandbits(32)]) << 32
            for br in (brs if not quick else [rng.choice(brs)]):
                n += 1
                lines.append(G.gen_case(info, rng, c20=c20, cid= 'o%d' % n, vals=[a, b], shapes=rng.choice([['r', 'r'], ['r', 'i'], ['i', 'r'], ['i', 'i'], ['r', 'm']]), dst='r', br=br))
    # two-instruction sequences: ext of ext (same and different widths), a unary insn feeding / consuming
    # the insn under test, compare + BT/BF
    vals8 = [0x80, 0x7f, 0xff, 0x8000, 0x7fff, 0xffff, 0x80000000, 0x7fffffff, 0xffffffff, 0x123456789abcdef0,
             0xfedcba9876543210, G.M64, 0, 0x8080808080808080, 0x0000800000008000]
    for a in G.EXTS:
        for b in G.EXTS:
            for v in (vals8 if not quick else rng.sample(vals8, 5)):
                n += 1
                lines.append(G.gen_case(byname[b], rng, 's%d' % n, vals=[v], shapes=['r'], dst='r', pre=a, c20=c20))
                n += 1
                lines.append(G.gen_case(byname[a], rng, 's%d' % n, vals=[v], shapes=[rng.choice('rm')], dst='r', post=b, c20=c20))
    nseq = 6 if quick else 40
    for info in tests:
        if info.res != 'i' or info.name in G.OVF or 'l' in info.args:
            continue
        is32 = info.mask == 0xffffffff
        iscmp = re.match(r'^(U?(EQ|NE|LT|LE|GT|GE)S?|[FD](EQ|NE|LT|LE|GT|GE))$', info.name) is not None
        for _ in range(nseq):
            pre = rng.choice(G.PRE64) if info.args[0] == 'i' and rng.random() < 0.5 else None
            posts = G.POST_ANY + ([] if is32 else G.POST64)
            if iscmp:
                posts = ['BTS', 'BFS'] + ([] if is32 else ['BT', 'BF'])
            post = rng.choice(posts) if (pre is None or rng.random() < 0.5) else None
            shapes = ['r'] + [rng.choice('rim') for _ in info.args[1:]]
            if pre is None:
                shapes[0] = rng.choice('rrm')
            vals = [G.rand_val(k, rng, info.name, i) if rng.random() < 0.5 else rng.choice(G.grid_for(k, rng, info.name, i))
                    for i, k in enumerate(info.args)]
            n += 1
            lines.append(G.gen_case(info, rng, c20=c20, cid= 't%d' % n, vals=vals, shapes=shapes, dst='r', pre=pre, post=post))
    lines += aimed_lines(chk, infos, quick, c20, byname)
    lines += conversion_lines(chk, infos, quick, c20, byname)
    if not c20:
        lines += memaddr_lines(chk, infos, quick, byname)
        lines += regconst_lines(chk, infos, quick, byname)
    return lines


def conversion_lines(chk, infos, quick, c20, byname):
    """every conversion opcode at the rounding boundaries DERIVED from its two formats (G.conversion_values: midpoints of
    neighbouring results of both parities, midpoint +- the least operand bit and +- 2^j, last significand before a carry,
    overflow to infinity, denormal results, underflow to zero, truncation next to every integer binade, +-2^63), the
    operand in a register, as an immediate (the constant folder's copy of the conversion) and in memory; five engines"""
    rng = chk.rng('conv')
    lines = []
    cap = 10 ** 9 if quick else 14000
    for name in G.CONVERSIONS:
        info = byname.get(name)
        if info is None or not G.testable(info):
            continue
        kind, vals = G.conversion_values(name, rng, quick)
        if len(vals) > cap:
            vals = rng.sample(vals, cap)
        for v, tag in vals:
            chk.dist('conversion_boundary', name + ':' + re.sub(r'[-+]?\d+(<<\d+)?$', '', tag.split(':')[-1].lstrip('-')))
            x = rng.random()
            sh = 'r' if x < 0.6 else 'i' if x < 0.8 else 'm'
            optexts = None
            if kind == 'i':
                if sh == 'i' and v >> 63 and rng.random() < 0.5:
                    sh = 'u'
                if sh == 'm':       # the whole operand: 64-bit memory types only
                    forms = G.FORMS
                    optexts = [G.mem_desc(rng, rng.choice(['i64', 'u64']), forms) + ':%x' % v]
            dst = 'r' if rng.random() < 0.75 else None
            lines.append(G.gen_case(info, rng, 'v%d' % len(lines), vals=[v], shapes=[sh], dst=dst, c20=c20, optexts=optexts, press=0))
    return lines


IMM_CLASS = {'i0': [0, 1, -1, 5, 127, -128, 100], 'i2': [128, -129, 0x7fffffff, -0x80000000, 0x12345, 32767, 32768, -32769, 255, 256, 65535],
             'i3': [0x80000000, -0x80000001, 1 << 40, (1 << 63) - 1, -(1 << 63), 0xffffffff, 0x100000000, -(1 << 32)]}


def class_operand(cls, info, pos, rng, c20):
    """an operand text of class cls: 'r' | 'i0' 'i2' 'i3' (imm8 / imm32 / imm64 range) | 'm<ty>'"""
    shift = pos == 1 and 'SH' in info.name
    if cls in IMM_CLASS:
        v = rng.randrange(64 if not info.name.endswith('S') else 32) if shift else rng.choice(IMM_CLASS[cls])
        return ('u' if v >= 0 and rng.random() < 0.2 else 'i') + ':%x' % (v & G.M64)
    val = rng.choice(G.grid_for('i', rng, info.name, pos)) if rng.random() < 0.6 else G.rand_val('i', rng, info.name, pos)
    if cls == 'r':
        return 'r:%x' % val
    ty = cls[1:]
    return G.mem_desc(rng, ty, G.FORMS) + ':%x' % (val & ((1 << (8 * G.TYPE_SIZE[ty])) - 1))


def aimed_lines(chk, infos, quick, c20, byname):
    """cases aimed at the rows of the x86-64 pattern table and at the operand forms the property names, instead of leaving
    them to chance: every (x class, y class) of register / imm8 / imm32 / imm64 / memory of each type for every integer
    opcode, far (rel32) and near branch targets, 64-bit in-place forms under register pressure with immediates, long double
    and F/D comparisons and branches on NaN in every shape, special cases (alloca, bstart/bend, switch, laddr/jmpi, calls)"""
    rng = chk.rng('aimed')
    lines = []
    n = [0]

    def cid(p):
        n[0] += 1
        return '%s%d' % (p, n[0])
    tests = [i for i in infos if G.testable(i)]
    mems = ['m' + t for t in G.MEM_INT_TYPES]
    for info in tests:
        if any(k != 'i' for k in info.args) or info.res not in 'i-':
            continue
        xcls = ['r', 'i0', 'i2', 'i3'] + mems
        ycls = xcls if len(info.args) == 2 else [None]
        if len(info.args) == 2 and 'SH' in info.name:
            ycls = ['r', 'i0'] + mems
        combos = [(a, b) for a in xcls for b in ycls]
        if quick:
            combos = rng.sample(combos, min(len(combos), 8))
        branchy = info.res == '-' or info.name in G.OVF
        for a, b in combos:
            for far in ((0, 1) if branchy and (not quick or rng.random() < 0.5) else (0,)):
                ops = [class_operand(a, info, 0, rng, c20)] + ([class_operand(b, info, 1, rng, c20)] if b else [])
                dst = None
                if info.res == 'i':
                    cands = ['r', 'r']
                    if a == 'r':
                        cands.append('x')
                    if b == 'r':
                        cands.append('y')
                    if a[0] == 'm':
                        cands += ['X', 'X']
                    cands.append(G.mem_desc(rng, rng.choice(G.MEM_INT_TYPES), G.FORMS))
                    dst = rng.choice(cands)
                lines.append(G.gen_case(info, rng, cid('a'), vals=[0] * len(info.args), shapes=[(c or 'r')[0] for c in (a, b) if c],
                                        dst=dst, c20=c20, far=far, bover=rng.random() < 0.4, optexts=ops, press=0))
    # the 64-bit in-place forms with an immediate (`op m3, 0, i0/i2`) come from spilled registers only
    for info in tests:
        if info.res == 'i' and info.args == 'ii' and info.mask == G.M64 and re.match(r'^(ADD|SUB|AND|OR|XOR|LSH|RSH|URSH)O?$', info.name):
            for imm in ([3, 0x12345] if 'SH' not in info.name else [3, 40]):
                for _ in range(1 if quick else 4):
                    lines.append(G.gen_case(info, rng, cid('k'), vals=[rng.getrandbits(64), imm], shapes=['r', 'i'], dst='x', c20=c20,
                                            press=rng.choice([24, 28, 30])))
    # NaN operands of every F / D / LD comparison and compare-and-branch: both positions, register / memory / immediate,
    # near and far targets, branch over a jump (all five engines run every case)
    nan = {'f': [0x7fc00000, 0xffc00000, 0x7f800001], 'd': [0x7ff8000000000000, 0xfff8000000000000, 0x7ff0000000000001],
           'l': [0x7fffc000000000000000, 0xffffc000000000000000, 0x7fffa000000000000000, 0x7fff8000000000000001]}
    for info in tests:
        if len(info.args) != 2 or info.args[0] not in 'fdl' or info.args[0] != info.args[1] or info.res not in 'i-':
            continue
        k = info.args[0]
        grid = G.grid_for(k, rng, info.name, 0)
        for pos in (0, 1, 2):
            for shapes in (['r', 'r'], ['r', 'm'], ['m', 'r'], ['r', 'i'], ['i', 'r']):
                if quick and rng.random() < 0.5:
                    continue
                vals = [rng.choice(nan[k]) if pos in (i, 2) else rng.choice(grid) for i in (0, 1)]
                for far in ((0, 1) if info.res == '-' else (0,)):
                    lines.append(G.gen_case(info, rng, cid('n'), vals=vals, shapes=shapes, dst='r' if info.res == '-' else None, c20=c20,
                                            far=far, bover=rng.random() < 0.5))
    # long double conversions at their boundaries (the host compiler's x87 arithmetic is the oracle)
    ldconv = {'LD2I': [0x403dfffffffffffffffe, 0x403e8000000000000000, 0xc03e8000000000000000, 0xc03e8000000000000001, 0x403dffffffffffffffff,
                       0x3ffeffffffffffffffff, 0xbffeffffffffffffffff, 0x3fff8000000000000001, 0x4000c000000000000000, 0xc000c000000000000000, 1, 0],
              'LD2D': [0x3fff8000000000000400, 0x3fff8000000000000c00, 0x3fff8000000000000401, 0x3fff80000000000003ff, 0x43fefffffffffffffc00,
                       0x43feffffffffffffffff, 0x7ffeffffffffffffffff, 0x3c018000000000000000, 0x3c008000000000000000, 0x3bcd8000000000000000,
                       0x3bcc8000000000000001, 0x00018000000000000000, 0x7fffc000000000000000, 0xffff8000000000000000, 0x3c00ffffffffffffffff],
              'LD2F': [0x3fff8000008000000000, 0x3fff8000018000000000, 0x3fff8000008000000001, 0x407effffff8000000000, 0x407effffff0000000000,
                       0x3f818000000000000000, 0x3f6a8000000000000000, 0x3f698000000000000001, 0x7fffc000000000000000, 0x7ffeffffffffffffffff],
              'I2LD': [0, 1, G.M64, 1 << 63, (1 << 63) - 1, 0x20000000000001, 0xffffffff80000000],
              'UI2LD': [0, 1, G.M64, 1 << 63, (1 << 63) - 1, (1 << 63) + 1, 0x20000000000001],
              'F2LD': [0x00000001, 0x7f7fffff, 0x7fc00000, 0xff800000, 0x80000000], 'D2LD': [1, 0x7fefffffffffffff, 0x7ff8000000000000, 0x8000000000000000]}
    for name, vs in ldconv.items():
        info = byname.get(name)
        if info is None or not G.testable(info):
            continue
        for v in (vs if not quick else rng.sample(vs, min(len(vs), 5))):
            for sh in ('r', 'm', 'i'):
                lines.append(G.gen_case(info, rng, cid('c'), vals=[v], shapes=[sh], c20=c20))
    if not c20:
        # the address registers of memory operands tied to the hard registers the x86-64 encoder treats specially (r12: SIB
        # byte needed, r13: no mod=00 form, with and without index / displacement) and to other callee-saved ones
        hrs = ['r12', 'r13', 'rbx', 'r14', 'r15']
        for info in tests:
            for _ in range(2 if quick else 12):
                nsrc = len(info.args)
                shapes = [rng.choice('rm') for _ in range(nsrc)]
                dst = None
                if info.res != '-' and rng.random() < 0.4:
                    tys = G.MEM_INT_TYPES if info.res == 'i' else G.KIND_MEM[info.res]
                    dst = G.mem_desc(rng, rng.choice(tys), ['b', 'bd', 'bi', 'bid'])
                elif 'm' not in shapes:
                    shapes[rng.randrange(nsrc)] = 'm'
                vals = [rng.choice(G.grid_for(k, rng, info.name, i)) if rng.random() < 0.5 else G.rand_val(k, rng, info.name, i)
                        for i, k in enumerate(info.args)]
                ops = []
                for k, sh, v in zip(info.args, shapes, vals):
                    if sh == 'm':
                        ty = rng.choice(G.MEM_INT_TYPES if k == 'i' else G.KIND_MEM[k])
                        form = rng.choice(['b', 'b', 'bd', 'bi', 'bid'])
                        desc = G.mem_desc(rng, ty, [form])
                        if form in ('bd', 'bid') and rng.random() < 0.5:     # small displacements: the disp8 forms
                            f = desc.split(',')
                            f[3] = str(rng.choice([1, -1, 8, 127, -128]))
                            desc = ','.join(f)
                        ops.append(desc + ':%x' % (v & ((1 << (8 * G.TYPE_SIZE[ty])) - 1)))
                    else:
                        ops.append('r:%x' % v)
                perm = rng.sample(hrs, len(hrs))
                if rng.random() < 0.6:
                    first = rng.choice(['r13', 'r12'])
                    perm = [first] + [h for h in perm if h != first]
                line = G.gen_case(info, rng, cid('H'), vals=vals, shapes=shapes, dst=dst if dst is not None else ('r' if info.res != '-' else None),
                                  optexts=ops, press=0)
                lines.append(line + ' hr=' + ','.join(perm[:6]))
    lines += G.special_lines(rng, quick, c20)
    return lines


def row_directed_lines(chk, infos, quick):
    """three (quick) / six cases of exactly the operand classes of every row of the checked tree's patterns[] (regenerated
    table, tools/tr_c02_x86pat.rows): register / fixed hard register, imm8 / imm32 / imm64, scale constants, memory of the
    row's type, same-as-destination operands (in place), near (rel8) resp. far (rel32) branch targets"""
    import tr_c02_x86pat as X
    rng = chk.rng('rows')
    byname = {i.name: i for i in infos}
    try:
        rows = X.rows(X.preprocess(vlib.REPO))
    except Exception:
        return []
    lines = []
    fk = {'f': 'mf', 'd': 'md', 'l': 'mld'}
    for code, pat, _ in rows:
        info = byname.get(code)
        toks = pat.split()
        if info is None or not G.testable(info) or len(toks) != 1 + len(info.args):
            continue
        for rep in range(3 if quick else 6):
            far = None
            kinds = info.args
            srcs = []
            ok = True
            for i, t in enumerate(toks[1:]):
                k = kinds[i]
                if t == '0':
                    srcs.append(None)
                elif k == 'i':
                    o = x86_operand(t, rng, info, i)
                    if o is None:
                        ok = False
                    srcs.append(o)
                else:
                    v = G.rand_val(k, rng, info.name, i)
                    if t == 'r' or (t == 'mld' and rng.random() < 0.5):
                        srcs.append('r:%x' % v)
                    elif t == fk[k]:
                        srcs.append(G.mem_desc(rng, {'f': 'f', 'd': 'd', 'l': 'ld'}[k]) + ':%x' % v)
                    else:
                        ok = False
                        srcs.append(None)
            if not ok:
                break
            d = toks[0]
            if info.res == '-':
                dst = 'r'
                far = 1 if d == 'L' else 0
            elif toks[1] == '0':                      # in place: the first source is the destination
                if info.res != kinds[0]:
                    break
                if d.startswith('m') and info.res == 'i':
                    srcs[0] = x86_operand(d, rng, info, 0)
                    dst = 'X'
                else:
                    srcs[0] = 'r:%x' % G.rand_val(kinds[0], rng, info.name, 0)
                    dst = 'x'
            elif d.startswith('m') and info.res == 'i':
                o = x86_operand(d, rng, info, 0)
                if o is None:
                    break
                dst = o.split(':')[0]
            elif d in fk.values() and rng.random() < 0.5:
                dst = G.mem_desc(rng, {'mf': 'f', 'md': 'd', 'mld': 'ld'}[d])
            else:
                dst = 'r'
            if any(x is None for x in srcs):
                break
            kk = (info.res if info.res != '-' else '-') + info.args + ('-' if len(info.args) == 1 else '')
            line = 'R%d %s %s %s %s %s' % (len(lines), info.name, kk, dst, srcs[0], srcs[1] if len(srcs) > 1 else '-')
            if kinds[0] == 'i' and srcs[0].startswith('r:') and toks[1] == 'r' and dst in ('r', 'x') and info.name not in G.OVF:
                # a register loaded from memory just before its only use is merged into the instruction (combine): compute
                # it, so that the register form of the row is what the generator sees
                line += ' pre=' + rng.choice(G.PRE64)
            if info.name in G.OVF:
                sd, ud = info.ovfdef[0] == '1', info.ovfdef[1] == '1'
                line += ' br=' + rng.choice((['BO', 'BNO'] if sd else []) + (['UBO', 'UBNO'] if ud else []))
            if far:
                line += ' far=1'
            if info.res == '-' and rng.random() < 0.3:
                line += ' bover=1'
            lines.append(line)
    return lines


def correspond(chk, exe, oracle, infos, lines):
    cases = [G.parse_case(l) for l in lines]
    expectations(cases, infos, oracle)
    runnable = [c for c in cases if c['exp'] is not None]
    res = run_harness(exe, [c['line'] for c in runnable])
    bad = []
    for c in runnable:
        r = res.get(c['id'])
        shape = c['dst']['kind'] + c['x']['kind'] + c['y']['kind']
        chk.count(c['line'].split(None, 1)[1], nontrivial=True)
        chk.dist('opcodes', c['op'])
        chk.dist('shapes', shape)
        if r is None:
            bad.append((c, 'all', 'no output from the harness'))
            continue
        if 'crash' in r:
            bad.append((c, 'crash', r['crash']))
            continue
        if c['exp'] == 'nodoc' and c.get('ldexp') is not None:
            # conversion from / to long double: Mir/DocSpecLD.v; the host compiler's result is compared too, for the record
            chk.dist('oracle', 'docspec-ld')
            wrong = []
            for e in ENGINES:
                tok = r.get(e)
                obs = G.parse_obs(tok) if tok else None
                m = 'engine error: %s' % tok if obs is None else check_obs(c, obs, c['ldexp'])
                if m:
                    wrong.append((e, m))
            if wrong:
                bad.append((c, ','.join(e for e, _ in wrong), '; '.join('%s: %s' % x for x in wrong)))
            nat = G.parse_obs(r['native']) if r.get('native') else None
            if nat is not None:
                m = check_obs(c, nat, c['ldexp'])
                chk.dist('ld_host_compiler_vs_docspec', 'differ' if m else 'agree')
                if m and len(chk.cov.setdefault('ld_host_compiler_differs', [])) < 6:
                    chk.cov['ld_host_compiler_differs'].append('%s: %s' % (c['line'], m))
            continue
        if c['exp'] == 'nodoc':
            # long double: no Coq semantics; independent oracle = the host compiler's own long double
            # arithmetic (harness "native"), else agreement of all engines
            nat = r.get('native')
            if nat is not None:
                nobs = G.parse_obs(nat)
                wrong = []
                for e in ENGINES:
                    obs = G.parse_obs(r.get(e)) if r.get(e) else None
                    if obs is None or not ld_same(c, obs, nobs):
                        wrong.append(e)
                if wrong:
                    bad.append((c, ','.join(wrong), 'long double result differs from the host compiler\'s: native %s, engines %s' % (
                        nat, {e: r.get(e) for e in wrong})))
                chk.dist('oracle', 'native-long-double')
            else:
                toks = set(r.get(e) for e in ENGINES)
                if len(toks) != 1:
                    bad.append((c, 'engines-disagree', 'long double result differs between engines: %s' % r))
                chk.dist('oracle', 'engine-vs-engine')
            continue
        chk.dist('oracle', 'docspec')
        wrong = []
        for e in ENGINES:
            tok = r.get(e)
            obs = G.parse_obs(tok) if tok else None
            if obs is None:
                wrong.append((e, 'engine error: %s' % tok))
                continue
            m = check_obs(c, obs)
            if m:
                wrong.append((e, m))
        if wrong:
            bad.append((c, ','.join(e for e, _ in wrong), '; '.join('%s: %s' % x for x in wrong)))
    chk.dist('undefined_skipped', 'n', len(cases) - len(runnable))
    undefined_agreement(chk, exe, [c for c in cases if c['exp'] is None])
    return bad


def undefined_agreement(chk, exe, cases):
    """MEASUREMENT ONLY (no verdict): cases whose result MIR.md leaves undefined (DocSpec = None: shift counts >= width,
    float -> integer conversions out of range) are still run, and whether the five engines agree is recorded in the
    evidence.  Instructions that may trap (division / remainder by zero, INT_MIN / -1) are left out."""
    todo = [c for c in cases if not re.match(r'^U?(DIV|MOD)S?$', c['op']) and not c.get('press') and not G.is_special(c)
            and not c.get('pre') and not c.get('post')][:4000]
    if not todo:
        return
    try:
        res = run_harness(exe, [c['line'] for c in todo])
    except Exception:
        return
    agree = differ = crashed = 0
    for c in todo:
        r = res.get(c['id']) or {}
        if 'crash' in r or not all(r.get(e) for e in ENGINES):
            crashed += 1
            continue
        mask = c['info'].mask
        obs = [G.parse_obs(r[e]) for e in ENGINES]
        if any(o is None for o in obs):
            crashed += 1
            continue
        key = lambda o: (o[0] & mask if c['info'].res == 'i' and c['dst']['kind'] not in ('m', 'X') else 0,
                         tuple(sorted((k, v) for k, v in o[1].items()
                                      if not (mask == 0xffffffff and (100 <= k < 104 or 196 <= k < 200 or 132 <= k < 136)))))
        if len(set(key(o) for o in obs)) == 1:
            agree += 1
        else:
            differ += 1
            chk.cov.setdefault('undefined_engine_disagreements', [])
            if len(chk.cov['undefined_engine_disagreements']) < 6:
                chk.cov['undefined_engine_disagreements'].append('%s -> %s' % (c['line'], {e: r[e] for e in ENGINES}))
            chk.dist('undefined_disagree_by_opcode', c['op'])
    chk.cov['undefined_cases_run'] = dict(note='results MIR.md leaves undefined: engines compared with each other for the record only',
                                          agree=agree, differ=differ, no_result=crashed)


def report(chk, bad, limit=12):
    seen = set()
    for c, engs, text in bad:
        shape = c['dst']['kind'] + c['x']['kind'] + c['y']['kind']
        sig = 'insn:%s:%s:%s' % (c['op'] + ('+' + c['br'] if c['br'] else ''), engs, shape)
        if sig in seen:
            continue
        seen.add(sig)
        if len(seen) > limit:
            break
        chk.finding(sig, dict(case=c['line'], engines=engs, detail=text,
                              documented=('%x' % c['d']) if 'd' in c else None),
                    'instruction %s gives an undocumented result in %s: %s  [case: %s]' % (c['op'], engs, text[:300], c['line']))


GENLOCK = 'c02-c20-gen'   # coq/gen/*.v and the extracted drivers are specific to the tree under test (VERIF_REPO):
                          # regeneration + proof + extraction of concurrent runs (C02 and C20) are serialised


def private_copy(exe):
    """a copy of a built driver that a concurrent run against another tree cannot replace"""
    d = os.path.join(vlib.BUILD, 'run')
    os.makedirs(d, exist_ok=True)
    p = os.path.join(d, '%s.%d' % (os.path.basename(exe), os.getpid()))
    shutil.copy2(exe, p)
    atexit.register(lambda: os.path.exists(p) and os.remove(p))
    return p


def build(chk):
    exe = vlib.build_harness('c02_insn', ['c02_insn.c'], units=('mir', 'mir-gen'))
    model = vlib.ocaml_build('c02', 'Extract_C02', ['c02x'], 'driver_c02.ml')
    return exe, Oracle(private_copy(model))


def run(chk):
    quick = chk.tier == 'quick'
    with vlib.Lock(GENLOCK):
        ops, problems = regenerate(chk)
        r = chk.prove()
        exe, oracle = build(chk)
        x86bad = x86_rejected_rows() if not r['ok'] else []
    for ax in sorted(set(re.findall(r'^((?:ClassicalDedekindReals|FunctionalExtensionality|Classical_Prop)\.\w+)', r['log'], re.M))):
        t = 'axiom (Print Assumptions): ' + ax     # multi-line axiom types are not caught by vlib's parser
        if t not in chk.cov['trusted_base']:
            chk.cov['trusted_base'].append(t)
    infos = G.opcode_infos(oracle.ask, ops)
    chk.cov['trusted_base'] += ['translators tools/tr_c02_*.py (C subset parser + symbolic execution); unknown syntax => SUnknown row => theorem fails',
                                'Mir/CExpr.v: C11 typing with two\'s-complement machine semantics of gcc/x86-64; C float/double = IEEE binary32/64 RNE',
                                'extraction: ExtrOcamlBasic only; ocaml/driver_c02.ml, harness/c02_insn.c (build + print only)',
                                'Mir/DocSpec.v is a reading of MIR.md (shift counts >= width, x/0, INT_MIN/-1, float->int out of range: undefined)',
                                'C02/X86Sem.v: meaning of the x86-64 instruction forms named by the elements of the replacement templates (a reading of the '
                                'Intel SDM), and pel_match as the model of pattern_match_p; the byte encoder and register allocation are not modelled']
    lines = []
    corpus = os.path.join(vlib.VERIF, 'corpus', 'c02.txt')
    if os.path.exists(corpus):
        lines += [l.strip() for l in open(corpus) if l.strip() and not l.startswith('#')]
    lines += generate(chk, infos, quick)
    lines += row_directed_lines(chk, infos, quick)
    tied = [n for k in ('interp', 'gvn', 'peephole') for n in chk.smt['notes'].get(k, [])]
    if tied:
        chk.cov['smt_tied'] = tied
        chk.cov['trusted_base'].append('z3 4.8.12 / cvc5 1.0.3 (QF_BV) and the encoder tools/tr_c02_smt.py (+ the symbolic executor tools/tr_c02_peval.py): '
                                       'these constructs of the checked tree are not in their canonical text and were shown equal to the canonical '
                                       'row for all operand values by the solver, the theorems are about the canonical row: ' + '; '.join(tied))
        chk.log('tied by SMT equivalence instead of syntactically: ' + '; '.join(tied))
    byname_ = {i.name: i for i in infos}
    for which, shape in (('interp', 'r'), ('gvn', 'i')):      # the solver's model: operands on which a row differs from the canonical one
        for h in chk.smt['hints'].get(which, []):
            info = byname_.get(h['op'])
            if info is not None and G.testable(info):
                lines.append(G.gen_case(info, chk.rng('hint'), 'h%d' % len(lines), vals=[v & G.M64 for v in h['args'][:len(info.args)]],
                                        shapes=[shape] * len(info.args), dst='r'))
    chk.cov['rule'] = ('one-instruction functions built through the MIR API (operand shapes reg/imm/mem with base/index/scale/disp, '
                      'dst==src, memory destinations), run by MIR_interp and MIR_gen -O0..-O3, compared with the extracted DocSpec on the '
                      'defined bits; distinct by (opcode, operands, shape); cases DocSpec leaves undefined are not run')
    for l in lines[:4]:
        chk.sample(l)
    bad = correspond(chk, exe, oracle, infos, lines)
    report(chk, bad)
    if not quick or os.environ.get('C02_PATCOV'):
        pattern_coverage(chk, [c['line'] for c in (G.parse_case(l) for l in lines)], oracle, infos)
    if problems:
        for p in problems:
            chk.finding('tie:' + p[:40], dict(problem=p), p, no_input=True)
    if not r['ok'] and not bad:
        found = model_search(chk, exe, oracle, infos, ops)
        if not found:
            found = builtin_search(chk, exe, oracle, infos)
        if not found and x86bad:
            found = x86_model_search(chk, exe, oracle, infos, x86bad)
        if not found:
            chk.proof_broken(r, searched='%d one-instruction cases agreed with DocSpec in all engines; table rows evaluated on the grid' % len(lines))


def pattern_coverage(chk, lines, oracle, infos):
    """measurement for the evidence (never a verdict): which rows of patterns[] the cases of this run select"""
    import gen_c02_patcov as P
    try:
        cases = [G.parse_case(l) for l in lines]
        expectations(cases, infos, oracle)
        m = P.measure([c['line'] for c in cases if c['exp'] is not None])
    except Exception as e:
        m = None
        chk.notes.append('x86 pattern coverage not measured: %s' % str(e)[:200])
    if m is None:
        chk.cov['x86_rows'] = 'not measurable on this tree (anchor line of target_translate not found or build failed)'
        return
    un = P.unreachable()
    never = [dict(index=i, opcode=c, pattern=p, replacement=r, why=un.get((c, p))) for i, c, p, r in m['never']]
    chk.cov['x86_rows'] = dict(total=m['total'], selected=m['selected'],
                               never_selected_known_unreachable=len([n for n in never if n['why']]),
                               never_selected_other=[n for n in never if not n['why']])
    chk.cov['x86_rows_unreachable'] = sorted(set('%s %s: %s' % (n['opcode'], n['pattern'], n['why']) for n in never if n['why']))
    chk.log('x86 patterns[]: %d rows, %d selected by the cases of this run, %d never selected for a listed reason, %d others: %s' % (
        m['total'], m['selected'], len([n for n in never if n['why']]), len([n for n in never if not n['why']]),
        ' | '.join('%s %s' % (n['opcode'], n['pattern']) for n in never if not n['why'])[:400]))


def x86_rejected_rows():
    """rows of the regenerated x86-64 pattern table that the verified recogniser (C02/X86Check.v xrow_ok, extracted) rejects:
    [(opcode number, [pattern tokens])]; [] when that cannot be computed (e.g. the table does not even type-check)"""
    try:
        drv = vlib.ocaml_build('c02x86', 'Extract_C02X86', ['c02x86'], 'driver_c02x86.ml')
        rc, out, err = vlib.sh([drv], timeout=600)
    except Exception:
        return []
    rows = []
    for l in out.split('\n'):
        w = l.split()
        if len(w) >= 2 and w[0] == 'bad':
            rows.append((int(w[1]), w[2:]))
    return rows


def x86_operand(tok, rng, info, pos):
    """an operand text of exactly the class of pattern element tok (mir-gen-x86_64.c notation); None: not expressible"""
    val = rng.choice(G.grid_for('i', rng, info.name, pos)) if rng.random() < 0.6 else G.rand_val('i', rng, info.name, pos)
    if tok == 'r' or re.match(r'^h\d+$', tok):
        return 'r:%x' % val
    m = re.match(r'^i([0-3])$', tok)
    if m:
        bits = [8, 16, 32, 64][int(m.group(1))]
        lo = 0 if bits == 8 else bits // 2          # prefer values that do not fit the next smaller class
        k = rng.random()
        if k < 0.35:
            v = rng.choice([(1 << (bits - 1)) - 1, -(1 << (bits - 1)), (1 << (bits - 1)) - 2, -(1 << (bits - 1)) + 1])
        elif k < 0.7:
            mag = rng.getrandbits(bits - 1) | ((1 << (lo - 1)) if lo else 0)
            v = mag if rng.random() < 0.5 else -mag - 1
        elif 'SH' in info.name and pos == 1:
            v = rng.randrange(64)
        else:
            v = rng.choice([0, 1, -1, 2, 5, 100, -100, 127, -128])
            if bits > 8:
                v = rng.choice([1, -1]) * (rng.getrandbits(bits - 2) | (1 << (lo - 1)))
        return 'i:%x' % (v & G.M64)
    if tok == 'z':
        return 'i:0'
    if tok == 's':
        return 'i:%x' % rng.choice([1, 2, 4, 8])
    m = re.match(r'^c(\d+)$', tok)
    if m:
        return 'i:%x' % int(m.group(1))
    m = re.match(r'^m([su]?)([0-3])$', tok)
    if m:
        size = 1 << int(m.group(2))
        sg = m.group(1) or rng.choice('su')
        ty = {1: 'i8', 2: 'i16', 4: 'i32', 8: 'i64'}[size] if sg == 's' else {1: 'u8', 2: 'u16', 4: 'u32', 8: 'u64'}[size]
        return G.mem_desc(rng, ty) + ':%x' % (val & ((1 << (8 * size)) - 1))
    return None


def x86_model_search(chk, exe, oracle, infos, rows):
    """the x86-64 pattern-table theorem broke: aim cases at exactly the operand classes of every rejected row (memory
    type, immediate size, in-place destination), the shapes the generic generator reaches only by chance"""
    rng = chk.rng('x86search')
    bynum = {i.num: i for i in infos}
    lines = []
    per_row = max(40, min(240, 6000 // max(1, len(rows))))
    for num, pat in rows:
        info = bynum.get(num)
        if info is None or not G.testable(info) or 'l' in (info.res + info.args) or len(pat) != 1 + len(info.args):
            continue
        if any(k != 'i' for k in info.args) or info.res not in 'i-':
            continue
        for j in range(per_row):
            srcs = [None if t == '0' else x86_operand(t, rng, info, i) for i, t in enumerate(pat[1:])]
            if pat[1] == '0':
                srcs[0] = x86_operand(pat[0], rng, info, 0)
            if any(x is None for x in srcs):
                break
            if info.res == '-':
                dst = 'r'
            elif pat[1] == '0':
                dst = 'X' if srcs[0][0] == 'm' else 'x'
            elif pat[0].startswith('m'):
                dst = x86_operand(pat[0], rng, info, 0).split(':')[0]
            else:
                dst = 'r'
            kinds = (info.res if info.res != '-' else '-') + info.args + ('-' if len(info.args) == 1 else '')
            line = 'x%d %s %s %s %s %s' % (len(lines), info.name, kinds, dst, srcs[0], srcs[1] if len(srcs) > 1 else '-')
            if info.name in G.OVF:
                sd, ud = info.ovfdef[0] == '1', info.ovfdef[1] == '1'
                line += ' br=' + rng.choice((['BO', 'BNO'] if sd else []) + (['UBO', 'UBNO'] if ud else []))
            lines.append(line)
            if info.res == 'i' and (pat[0] == 'm3' or 'm3' in pat[1:]) and j % 2 == 0:
                # a 64-bit memory operand of a pattern is also a spilled register: the same instruction on registers, under pressure
                y = srcs[1] if len(srcs) > 1 else '-'
                if len(srcs) > 1 and pat[2] == 'm3':
                    y = 'r:%x' % int(srcs[1].split(':')[1], 16)
                xv = int(srcs[0].split(':')[1], 16) if ':' in srcs[0] else 0
                lines.append('x%d %s %s %s r:%x %s%s press=%d pmask=%x' % (
                    len(lines), info.name, kinds, 'x' if pat[1] == '0' else 'r', xv, y,
                    line[line.index(' br='):] if ' br=' in line else '', rng.choice([16, 24, 30]), info.mask))
    if not lines:
        return False
    chk.log('x86 pattern rows rejected by the recogniser: %d; %d aimed cases' % (len(rows), len(lines)))
    bad = correspond(chk, exe, oracle, infos, lines)
    if bad:
        report(chk, bad)
        return True
    return False


def builtin_search(chk, exe, oracle, infos):
    """the proof broke and the ordinary run agrees: the opcodes the x86-64 generator executes by a builtin C function
    (regenerated list) on the complete boundary set of their conversion (every binade, every offset from the midpoint),
    operand in a register, so that the generated code really calls the function"""
    import tr_c02_x86builtin as B
    try:
        rows, codes, _ = B.translate(vlib.REPO)
    except Exception:
        return False
    rng = chk.rng('builtin-search')
    byname = {i.name: i for i in infos}
    lines = []
    for name in sorted(set(codes) | set(o for o, _ in rows)):
        info = byname.get(name)
        if info is None or not G.testable(info) or name not in G.CONVERSIONS:
            continue
        kind, vals = G.conversion_values(name, rng, False)
        for v, tag in vals[:20000]:
            lines.append(G.gen_case(info, rng, 'B%d' % len(lines), vals=[v], shapes=['r'], dst='r', press=0))
    if not lines:
        return False
    bad = correspond(chk, exe, oracle, infos, lines)
    if bad:
        report(chk, bad)
        return True
    return False


def model_search(chk, exe, oracle, infos, ops):
    """the proof broke: evaluate every regenerated table row (interpreter table, GVN fold table) against
    DocSpec on the grid; a model-level witness is then run on the real engines (GVN witnesses with
    immediate operands, so that the folder sees constants)"""
    rng = chk.rng('search')
    req, meta = [], []
    for info in infos:
        if not G.testable(info) or 'l' in (info.res + info.args):
            continue
        grids = [G.grid_for(k, rng, info.name, i) for i, k in enumerate(info.args)]
        for j in range(300):
            vals = [rng.choice(g) for g in grids]
            if j < 60 and len(vals) == 2:
                vals[1] = vals[0]
            hx = ' '.join('%x' % v for v in vals)
            kind = 'ovf' if info.name in G.OVF else 'br' if info.res == '-' else 'sem'
            req.append('%s %d %s' % (kind, info.num, hx))
            req.append('irow %d %s' % (info.num, hx))
            req.append('grow %d %s' % (info.num, hx))
            meta.append((info, vals))
    ans = oracle.ask(req)
    lines, seen = [], set()
    for i, (info, vals) in enumerate(meta):
        d = ans[3 * i].split()
        if d[0] == 'N':
            continue
        for which, m in (('interp', ans[3 * i + 1].split()), ('gvn', ans[3 * i + 2].split())):
            if (info.name, which) in seen or (which == 'gvn' and m[0] == 'NOROW'):
                continue
            wrong = m[0] in ('N', 'NOROW') or (d[0] in 'SO' and (m[0] != 'S' or (int(d[1], 16) ^ int(m[1], 16)) & info.mask)) \
                or (d[0] == 'B' and (m[0] != 'B' or d[1] != m[1]))
            if wrong:
                seen.add((info.name, which))
                shapes = ['r'] * len(vals) if which == 'interp' else ['i'] * len(vals)
                lines.append(G.gen_case(info, rng, 'w%d' % len(lines), vals=vals, shapes=shapes, dst='r'))
    if not lines:
        return False
    bad = correspond(chk, exe, oracle, infos, lines)
    if bad:
        report(chk, bad)
        return True
    return False


def replay(chk, path):
    j = json.load(open(path))
    line = j['replay'].get('case')
    if not line:
        print('replay file names a broken proof obligation / tie:', j.get('what'))
        return 1
    ops = tr_opcodes.opcodes()
    with vlib.Lock(GENLOCK):
        exe, oracle = build(chk)
    infos = G.opcode_infos(oracle.ask, ops)
    bad = correspond(chk, exe, oracle, infos, [line])
    print('case:', line)
    for c, engs, text in bad:
        print('FAILS in', engs, ':', text)
    return 1 if bad else 0

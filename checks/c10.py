# C10: textual MIR written by MIR_output reads back as the same module.
# Theorems: coq/Properties_C10.v about coq/C10/TextOut.v, TextScan.v, FloatFmt.v; tie: constant tables
# (tools/tr_c11_tables.py --check) + correspondence of the extracted printer and scanner with
# MIR_output / MIR_scan_string on generated modules.
#
# "prints to identical text again" is decided up to the renaming of labels the scanner performs: a
# label in text is a *name* (L<n>) that MIR_scan_string maps to a fresh label number in order of first
# occurrence; modules whose labels are already numbered that way must come back byte-identical, and
# the model predicts the renumbered text exactly in the other cases.
import os, sys, json, hashlib
import vlib
import gen_c11_modules as G
import gen_c11_compare as K

LEVEL = 'proof'


def gen_cases(chk, table, n):
    cases = []
    for i in range(n):
        rng = chk.rng('c10/%d' % i)
        kind = rng.random()
        g = G.ModGen(rng, table, text_safe=True, canon_labels=rng.random() < 0.5, split_ctx=0.5, temp_names=0.35)
        if kind < 0.55:
            cases.append(g.case(nmodules=1, n_items=rng.choice([0, 2, 6, 12]), with_exec=True))
        elif kind < 0.8:
            cases.append(g.case(nmodules=rng.choice([2, 3]), n_items=rng.choice([1, 4, 8]), with_exec=True))
        else:
            cases.append(g.case(nmodules=rng.choice([1, 2]), n_items=rng.choice([3, 10, 25]), with_exec=False))
    return cases


def judge(case, d, model):
    """-> (list of (class, what), info)"""
    bad = []
    info = {}
    if d.get('build', '').startswith('REJECT') or d.get('CRASH') == 'exit3' or (len(d) <= 1 and 'CRASH' in d):
        return [('gen:rejected', 'API rejected the generated module: ' + d.get('build', ''))], info
    if d.get('build', '').startswith('SEGERR'):
        # the context under test could not be put together with the binary writer/reader: that is C11's business
        return [('gen:setup', 'binary I/O failed while combining separately built modules: ' + d.get('build', ''))], info
    t0 = K.text_of(d, 'T0')
    if 'CRASH' in d:
        # the harness announces every stage (field @): a crash belongs to the stage that was running
        st = d.get('@', 'output')
        if st == 'output':
            bad.append(('writer-crash', 'MIR_output crashed (%s)' % d['CRASH']))
        elif st == 'scan':
            bad.append(('scan-crash', 'MIR_scan_string crashed on the text MIR_output wrote (%s)' % d['CRASH']))
        elif st in ('output-after-scan', 'scan2'):
            bad.append(('scan-crash', 'MIR_output or the second MIR_scan_string crashed after the scan (%s)' % d['CRASH']))
        elif st == 'output-after-scan2':
            bad.append(('writer-crash', 'MIR_output crashed on the re-scanned module (%s)' % d['CRASH']))
        elif st in ('exec-after-scan', 'probe-after-scan'):
            pass          # compared below through the missing X2 / FR2
        else:
            # binary stages, execution of the original: not the text round trip (C11 / generator)
            return [('gen:setup', 'crash in stage %s' % st)], info
        if bad:
            return bad, info
    if t0 is None:
        bad.append(('writer-error', 'MIR_output failed: %s' % d.get('T0', '')[:100]))
        return bad, info
    sc = d.get('SC', '')
    if sc != 'ok':
        bad.append(('scan-rejects:' + K.err_class(sc), 'MIR_scan_string rejects what MIR_output wrote: %s' % sc))
    else:
        t2 = K.text_of(d, 'T2', t0)
        if t2 != t0:
            if K.canon_labels_text(t2) == K.canon_labels_text(t0):
                info['modulo_labels'] = True
            else:
                bad.append(('text-differs-after-scan', 'MIR_output of the scanned module differs from the text it was scanned from'))
        # the module scanned from the text IS the module that was printed: every operand field (alias and nonalias
        # separately, scale with an index, displacement, type), every signature (sizes of blk / rblk parameters),
        # variable, data element, compared through the API structures, not through a second MIR_output
        s0 = K.text_of(d, 'S0')
        if s0 is not None and 'S2' in d:
            c0, c2 = K.canon_struct(s0, True), K.canon_struct(K.text_of(d, 'S2', s0), True)
            if c0 != c2:
                bad.append(('structure-differs-after-scan', 'the module scanned from MIR_output text differs structurally from the '
                            'module printed: ' + K.first_diff(c0, c2)))
        if d.get('LI2', 'ok') != 'ok' and d.get('LI0', 'ok') == 'ok':
            bad.append(('label-identity-lost-after-scan', 'a label reference of the scanned module is not attached to a label insn of '
                        'its function: %s' % d.get('LI2')))
        if d.get('SC2') != 'ok' or d.get('T3') != '=':
            bad.append(('not-a-fixpoint', 'the second print/scan round changes the text again (%s)' % d.get('SC2')))
        if d.get('US', 'ok') != 'ok':
            # the scan into USED contexts (round 3): a context that has scanned, read binaries, written and built modules before
            hist, _, rest = d.get('US').partition(':')
            if rest.startswith('ERR:'):
                what = 'is rejected: ' + rest[4:]
            else:
                try:
                    got = bytes.fromhex(rest).decode('latin-1')
                except ValueError:
                    got = rest
                what = 'prints differently: ' + K.first_diff(K.canon_labels_text(t2), K.canon_labels_text(got))
            bad.append(('scan-into-used-context-differs', 'MIR_scan_string of the text into a context with the history `%s` + a binary read '
                        '(s = scan of the text, S = scan of a fixed text, b = module built through the API, r = binary read, w = write, '
                        'o = output) %s' % (hist, what)))
        if 'X0' in d and d.get('X2') != d.get('X0'):
            bad.append(('exec-differs-after-scan', 'execution differs after the text round trip: %s vs %s' % (d.get('X0'), d.get('X2'))))
        if d.get('FR2', 'ok') != 'ok' and d.get('FR0', 'ok') == 'ok':
            bad.append(('temp-name-clash-after-scan', 'after the scan the next temporary name is already in use: %s' % d.get('FR2')))
    # tie: model printer / scanner against the implementation
    if 'SKIPPED' not in model and 'SKIPPED' not in d:
        m0 = K.text_of(model, 'T0')
        if model.get('DRIVER-ERROR'):
            bad.append(('tie:driver', 'model driver error'))
        elif m0 != t0 and 'newctx' in case:
            # the context under test was put together by the binary reader (C11): not a statement about MIR_output
            return [('gen:setup', 'the combined context does not print as described')], info
        elif m0 != t0:
            bad.append(('tie:printer', 'model printer and MIR_output produce different text'))
        elif (model.get('SC') == 'ok') != (sc == 'ok'):
            bad.append(('tie:scanner-accepts', 'model scanner and MIR_scan_string disagree on acceptance: %s vs %s' % (model.get('SC'), sc)))
        elif sc == 'ok' and K.text_of(model, 'T2', m0) != K.text_of(d, 'T2', t0):
            bad.append(('tie:scanner', 'model scanner and MIR_scan_string build different modules from the same text'))
        elif 'S0' in model and 'S0' in d and model['S0'] != d['S0']:
            bad.append(('tie:structure', 'the context built through the API is not the described one (model AST vs API structures): '
                        + K.first_diff(K.text_of(model, 'S0'), K.text_of(d, 'S0'))))
        elif sc == 'ok' and 'S2' in model and 'S2' in d and K.text_of(model, 'S2', K.text_of(model, 'S0')) != K.text_of(d, 'S2', K.text_of(d, 'S0')):
            bad.append(('tie:scanner-structure', 'model scanner and MIR_scan_string build structurally different modules from the same '
                        'text: ' + K.first_diff(K.text_of(model, 'S2', K.text_of(model, 'S0')), K.text_of(d, 'S2', K.text_of(d, 'S0')))))
        elif sc == 'ok' and 'TN2' in model and d.get('TN2') != model.get('TN2'):
            bad.append(('tie:temp-counters', 'last_temp_item_num after the scan differs from the model (process_reserved_name): '
                        '%s vs %s' % (d.get('TN2'), model.get('TN2'))))
    return bad, info


def run_cases(exes, cases, which=('raw', 'model')):
    r1, r2, rm = K.run_all((exes[0], exes[0], exes[2]), cases, which=which)
    return r1, rm


def run(chk):
    quick = chk.tier == 'quick'
    tie_ok, tie_msg = K.tables_tie()
    chk.log(tie_msg.split('\n')[0])
    r = chk.prove()
    exes = K.build_all('plain' if quick else 'asan')
    table = G.parse_table(K.insn_table(exes[0]))
    mt = K.insn_table(exes[2])
    it = [l for l in K.insn_table(exes[0]) if not l.startswith('modes')]
    table_same = mt == it[:len(mt)]
    chk.cov['trusted_base'] += ['extraction: ExtrOcamlBasic only, no Extract Constant/Inductive of our own',
                                'ocaml/driver_c11.ml, harness/c11_io.c (parse + print + API calls only)',
                                'tools/tr_c11_tables.py (insn_descs / code predicates transcription, text-compared on every run)',
                                'libc printf("%.*e")/strtod: modelled exactly in coq/C10/FloatFmt.v (correct rounding) and compared on every '
                                'float immediate generated; the theorems take the round-trip law as a Section hypothesis']
    corpus = K.read_corpus('c10.txt')
    cases = [c for _, c in corpus]
    sigs = [s for s, _ in corpus]
    gen = gen_cases(chk, table, 220 if quick else 6000)
    cases += gen
    sigs += [None] * len(gen)
    r1, rm = run_cases(exes, cases)
    nfail = rejected = 0
    failures = []
    for case, sig, a, m in zip(cases, sigs, r1, rm):
        ks = K.stmt_kinds(case)
        chk.count(case, nontrivial=ks.get('insn', 0) + ks.get('data', 0) >= 3)
        for k, v in ks.items():
            chk.dist('ops' if k.startswith('op:') else 'stmts', k, v)
        bad, info = judge(case, a, m)
        if any(s == 'gen:rejected' for s, _ in bad):
            rejected += 1
            chk.dist('outcome', 'rejected-by-api')
            continue
        if any(s == 'gen:setup' for s, _ in bad):
            chk.dist('outcome', 'setup-failed (binary reader, see C11)')
            continue
        chk.dist('context', 'modules built in several contexts, read into one (overlapping label numbers)' if 'newctx' in case
                 else 'several modules, one context' if case.count('endmodule') > 1 else 'one module')
        if a.get('TN2', '').strip('0,'):
            chk.dist('temp_counters', 'some module counter restored to non-zero by the scan')
        if 'WFT' in m:
            chk.dist('theorem_hypotheses', ('wf_text_b holds' if m['WFT'] == '1' else 'outside wf_text_b') + ', labels '
                     + {'id': 'in first-occurrence order (text_module_fixpoint applies)', 'renamed': 'numbered otherwise '
                        '(text_roundtrip_checked: scan = renamed modules)', 'none': 'not renamable'}.get(m.get('RL'), '?'))
            if 'WFT2' in m:
                chk.dist('theorem_hypotheses_second_round', 'renamed context meets wf_text_b and is canonical' if m['WFT2'] == '1'
                         else 'renamed context outside wf_text')
        if 'TAST' in m:
            chk.dist('theorem_conclusion_on_model',
                     {'tnorm': 'scan_ctx (p_ctx ms) = map tnorm_module ms (labels already in first-occurrence order)',
                      'relabel': 'scan_ctx (p_ctx ms) = map tnorm_module ms\' with relabel_ctx ms = Some ms\' <> ms',
                      'norelabel': 'relabel_ctx ms = None'}.get(m['TAST'], 'AST differs from tnorm of the relabelled context'))
        if 'X0' in a:
            chk.dist('exec', 'ok' if not a['X0'].startswith('ERR') else 'link-or-run-error')
        if not bad:
            chk.dist('outcome', 'identical-modulo-label-names' if info.get('modulo_labels') else 'identical')
            if sig:
                chk.log('note: corpus case for %s passes now' % sig)
            continue
        chk.dist('outcome', 'fail')
        nfail += 1
        failures.append((case, sig, bad))
    # Concrete failing inputs first; a case on which only the tie (model vs implementation) breaks is reported as
    # "no-failing-input-found" only when the search found no concrete failing input in this run.
    concrete = [f for f in failures if not f[2][0][0].startswith('tie:')]
    tie_only = [f for f in failures if f[2][0][0].startswith('tie:')]
    reported = 0
    for group in (concrete, tie_only):
        if group is tie_only and reported > 0:
            if tie_only:
                chk.notes.append('tie disagreements on %d more cases (first: %s), not reported separately: concrete failing inputs '
                                 'were found' % (len(tie_only), tie_only[0][2][0][0]))
            break
        for nth, (case, sig, bad) in enumerate(group[:8]):
            cls, what = bad[0]
            if sig is None and not cls.startswith('tie:') and len(case) < 60000 and nth < 2:
                def fails(c):
                    x1, xm = run_cases(exes, [c], which=('raw',))
                    return any(s == cls for s, _ in judge(c, x1[0], xm[0])[0])
                small = K.shrink_case(case, fails, max_steps=60)
            else:
                small = case
            x1, xm = run_cases(exes, [small])
            signature = sig or (cls + ':' + hashlib.sha1(small.encode()).hexdigest()[:8])
            if chk.finding(signature, dict(case=small, failure=cls, impl={k: v[:3000] for k, v in x1[0].items()},
                                           model={k: v[:3000] for k, v in xm[0].items()}, original=case[:4000]),
                           'C10 %s: %s' % (cls, what), no_input=cls.startswith('tie:')):
                reported += 1
    # erroneous text: MIR_scan_string may reject it, it must not crash (corpus/c10_scan.txt, found while auditing: C10-7)
    raw_texts = [l for _, l in K.read_corpus('c10_scan.txt')]
    if raw_texts:
        rs = K.run(exes[0], ['rawscan ' + h for h in raw_texts])
        rc_m, out_m, _ = K.run_model(exes[2], ['rawscan ' + h for h in raw_texts])
        rsm = [K.fields(l) for l in out_m] + [{}] * len(raw_texts)
        for h, d, dm in zip(raw_texts, rs, rsm):
            # hand-written text: the model scanner accepts iff MIR_scan_string accepts, and builds the same module
            if 'CRASH' not in d and 'RS' in d and 'RS' in dm:
                if (d['RS'] == 'ok') != (dm['RS'] == 'ok'):
                    chk.finding('tie:scanner-accepts:rawtext:' + hashlib.sha1(h.encode()).hexdigest()[:8],
                                dict(text=bytes.fromhex(h).decode('latin-1'), impl=d.get('RS'), model=dm.get('RS')),
                                'C10 tie:scanner-accepts: model scanner and MIR_scan_string disagree on hand-written text: %s vs %s'
                                % (dm.get('RS'), d.get('RS')), no_input=True)
                elif d['RS'] == 'ok' and d.get('T2') != dm.get('T2'):
                    chk.finding('tie:scanner:rawtext:' + hashlib.sha1(h.encode()).hexdigest()[:8],
                                dict(text=bytes.fromhex(h).decode('latin-1'), impl=d.get('T2'), model=dm.get('T2')),
                                'C10 tie:scanner: model scanner and MIR_scan_string build different modules from hand-written text',
                                no_input=True)
            chk.count('rawscan ' + h, nontrivial=True)
            chk.dist('erroneous_text', 'rejected with an error list' if d.get('RS', '').startswith('ERR') else
                     'accepted' if d.get('RS') == 'ok' else 'crash')
            if 'CRASH' in d or 'RS' not in d:
                chk.finding('scan-crash-on-erroneous-text:' + hashlib.sha1(h.encode()).hexdigest()[:8],
                            dict(text=bytes.fromhex(h).decode('latin-1'), result=d),
                            'C10 MIR_scan_string crashes (%s) on erroneous text instead of reporting errors' % d.get('CRASH'))
    chk.cov['rule'] = ('generated module descriptions (all item kinds, operand forms, boundary immediates, finite floats of the three '
                      'formats, strings over all byte values, aliases, block args, hard-reg globals, several modules per context) built '
                      'through the API by harness/c11_io.c; checked: MIR_scan_string accepts MIR_output text, the re-printed text is '
                      'identical (or identical up to the scanner\'s label renaming), the scanned module is structurally the printed one (every '
                      'operand field incl. alias / nonalias, signatures with block sizes, data elements, read through the API), a second '
                      'round is a fixpoint, execution agrees; the '
                      'extracted Coq printer equals MIR_output byte for byte and the extracted Coq scanner predicts the re-printed text. '
                      'non-trivial = at least 3 insns/data items; distinct by description text')
    for c in gen[:3]:
        chk.sample(c[:600])
    chk.notes.append('rejected-by-api cases: %d of %d' % (rejected, len(cases)))
    if rejected > len(cases) // 5:
        chk.finding('generator-degenerate', dict(rejected=rejected, total=len(cases)),
                    'more than 20% of the generated modules are rejected by the API', no_input=True)
    if not tie_ok or not table_same:
        chk.finding('tie:tables', dict(msg=tie_msg, model_table_equal=table_same),
                    'insn_descs / code predicates of the tree differ from coq/C11/Tables.v: the model no longer describes this tree',
                    no_input=True)
    if not r['ok'] and nfail == 0:
        chk.proof_broken(r, searched='%d generated modules round-tripped correctly' % len(cases))


def replay(chk, path):
    j = json.load(open(path))
    exes = K.build_all('plain')
    case = j['replay']['case']
    r1, rm = run_cases(exes, [case])
    bad, info = judge(case, r1[0], rm[0])
    print('case:', case)
    for k in ('build', 'SC', 'T2', 'S2', 'LI2', 'TN2', 'SC2', 'T3', 'X0', 'X2', 'FR0', 'FR2', 'US', 'CRASH'):
        v = r1[0].get(k, '-')
        print('  impl.%s = %s   model.%s = %s' % (k, v[:100], k, rm[0].get(k, '-')[:100]))
    for s, w in bad:
        print('FAIL', s, w)
    return 1 if bad else 0

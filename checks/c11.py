# C11: binary MIR written by MIR_write reads back as the same module, deterministically.
# Theorems: coq/Properties_C11.v about coq/C11/BinIO.v; tie: constant tables (tools/tr_c11_tables.py
# --check) + correspondence of the extracted model with the implementation on generated modules.
import os, sys, json, hashlib
import vlib
import gen_c11_modules as G
import gen_c11_compare as K

LEVEL = 'proof'


def gen_cases(chk, table, n, big=0):
    cases = []
    for i in range(n):
        rng = chk.rng('c11/%d' % i)
        kind = rng.random()
        text_safe = rng.random() < 0.3            # binary must carry what text cannot: NaNs, NUL-less strings...
        g = G.ModGen(rng, table, text_safe=text_safe, canon_labels=rng.random() < 0.3, split_ctx=0.6, temp_names=0.35)
        if kind < 0.55:
            cases.append(g.case(nmodules=1, n_items=rng.choice([0, 2, 6, 12]), with_exec=True))
        elif kind < 0.8:
            cases.append(g.case(nmodules=rng.choice([2, 3]), n_items=rng.choice([1, 4, 8]), with_exec=True))
        else:
            cases.append(g.case(nmodules=rng.choice([1, 2]), n_items=rng.choice([3, 10, 25]), with_exec=False))
    for i in range(big):
        rng = chk.rng('c11/big/%d' % i)
        g = G.ModGen(rng, table, text_safe=False, big=True)
        # at least one large low-entropy data item per run (compressor pool exhaustion), in a case of one to two buffers
        g.lowent = i == 1 or (i > 1 and rng.random() < 0.4)
        # above two compression buffers (2 * 256 KiB) of raw bytes for the first, one to two for the others
        cases.append(g.case(nmodules=1, n_items=150 if i == 0 else rng.choice([30, 60]), with_exec=True))
    return cases


def buf_len():
    """_REDUCE_BUF_LEN of the checked tree (size of one compression buffer)"""
    import re
    try:
        m = re.search(r'#define\s+_REDUCE_BUF_LEN\s+\(?\s*1u?\s*<<\s*(\d+)', open(os.path.join(vlib.REPO, 'mir-reduce.h')).read())
        return 1 << int(m.group(1))
    except (OSError, AttributeError):
        return 1 << 18


def exact_cases(chk, raw_exe, table, ks, deltas=(-1, 0, 1)):
    """cases whose UNCOMPRESSED binary image (version, string table, items, EOF tag = the bytes MIR_write hands to the
    compression layer = the bytes of the -DMIR_NO_BIN_COMPRESSION build) is exactly k * _REDUCE_BUF_LEN bytes, and the two
    neighbours: only then the decompressor delivers its last full buffer BEFORE it meets the trailer, and the reader's
    end-of-file handling runs with an empty buffer.  The length of one u8 table is tuned: write, measure, correct (length
    fields are variable-length), until the measured length is the target.  -> (cases, {case: (k, delta, measured)})"""
    B = buf_len()
    cases, info = [], {}
    for k in ks:
        rng = chk.rng('c11/exact/%d' % k)
        g = G.ModGen(rng, table, text_safe=False, temp_names=0.3)
        g.pad_item = True
        tmpl = g.case(nmodules=rng.choice([1, 1, 2]), n_items=rng.choice([1, 4, 10]), with_exec=True)
        style = rng.randrange(4)
        alpha = ([rng.randrange(128)] if style == 0 else rng.sample(range(128), rng.choice([2, 16, 64])) if style == 1
                 else list(range(128)))
        # style 3: a front part with values >= 128 (two bytes each in the stream); the tuned end is one byte per element
        vals = [str(rng.randrange(128, 256)) if style == 3 and i < 3000 and i % 3 == 0 else str(rng.choice(alpha))
                for i in range(k * B + 64)]

        def mk(n):
            return tmpl.replace('@PAD@', ' '.join(vals[:n]))

        def measure(n):
            r = K.run(raw_exe, [mk(n)])[0]
            w = r.get('W1', '')
            return len(w) // 2 if r.get('build') == 'ok' and w and not w.startswith('ERR') else None
        n0 = None
        n = k * B - 2000
        for it in range(6):
            L = measure(n)
            if L is None:
                break
            if L == k * B:
                n0 = n
                break
            n += k * B - L
            if not 0 < n <= len(vals):
                break
        if n0 is None:
            chk.notes.append('exact-size case for %d * BUF_LEN could not be tuned (API rejection or no fixed point)' % k)
            continue
        for dl in deltas:
            c = mk(n0 + dl)
            cases.append(c)
            info[c] = (k, dl)
    return cases, info


def judge(case, raw, cmpr, model):
    """-> list of (signature-class, what) failures of the property or of the tie for one case"""
    bad = []
    for tag, d in (('raw', raw), ('compressed', cmpr)):
        if 'SKIPPED' in d:
            continue
        if d.get('build', '').startswith('SEGERR'):
            # modules written one context at a time and read together (newctx): a failure there is a failure of the
            # writer or the reader on API-built modules, not a rejected description
            bad.append(('segment-io-rejects:' + K.err_class(d['build']), '%s: writing the modules context by context and reading '
                        'them into one context fails: %s' % (tag, d['build'])))
            continue
        if d.get('build', '').startswith('REJECT'):
            return [('gen:rejected', 'API rejected the generated module: ' + d['build'])] if tag == 'raw' else bad
        if d.get('CRASH') == 'exit3' or (len(d) <= 1 and 'CRASH' in d):
            return [('gen:rejected', 'harness could not interpret the description')]
        if 'CRASH' in d:
            # the harness announces every stage (field @): a crash belongs to the stage that was running.  Crashes of
            # the text writer on the original / of the scanner belong to C10, crashes while executing the original
            # context are the generator's problem.
            st = d.get('@', 'output')
            if st in ('write-module-first', 'write', 'write2', 'read', 'output-after-read', 'rewrite', 'file-io', 'exec-after-read', 'probe-after-read', 'used-read'):
                bad.append(('crash:' + st, '%s build: crash (%s) in stage %s' % (tag, d['CRASH'], st)))
                continue
            if st in ('output', 'exec-original'):
                continue
        w1 = d.get('W1', '')
        if w1.startswith('ERR'):
            if model.get('W1') != 'ERR':
                bad.append(('write-error', '%s: writer refused: %s' % (tag, w1)))
            continue
        if d.get('W2') != '=':
            bad.append(('nondeterministic-bytes', '%s: two MIR_write_with_func calls on the same context gave different bytes' % tag))
        rb = d.get('RB', '')
        if rb != 'ok':
            bad.append(('read-rejects:' + K.err_class(rb), '%s: MIR_read rejects what MIR_write wrote: %s' % (tag, rb)))
            continue
        if d.get('T1') != '=':
            bad.append(('text-differs-after-read', '%s: MIR_output differs after the binary round trip' % tag))
        li0 = d.get('LI0', 'ok') == 'ok'     # the context under test is sound itself (a description may use a label it never places)
        if li0 and (d.get('LI1', 'ok') != 'ok' or d.get('LIM', 'ok') != 'ok'):
            # the labels a branch / switch / laddr operand or an lref item refers to are the label insns of the function:
            # text and bytes name labels by number, load / link / interpreter / generator use the object
            bad.append(('label-identity-lost-after-read', '%s: a label reference of the module read back is not attached to a label '
                        'insn of its function: %s' % (tag, d.get('LI1') if d.get('LI1', 'ok') != 'ok' else
                                                      'modules written one by one: ' + d.get('LIM'))))
        if not li0 and 'newctx' in case and 'LIS' not in d:
            bad.append(('label-identity-lost-after-read', '%s: reading the separately written modules into one context detaches a '
                        'label reference from its label insn: %s' % (tag, d.get('LI0'))))
        if d.get('S1', '=') != '=':
            s0 = K.text_of(d, 'S0')
            bad.append(('structure-differs-after-read', '%s: the module read back differs structurally (API fields) from the module '
                        'written: %s' % (tag, K.first_diff(s0, K.text_of(d, 'S1', s0)))))
        if d.get('TS', '=') != '=' or d.get('SS', '=') != '=':
            # modules written from several contexts (newctx) and read into one: the combined context must print and be
            # what the writing contexts printed and were
            t0, s0 = K.text_of(d, 'T0'), K.text_of(d, 'S0')
            bad.append(('segments-differ-after-read', '%s: modules written context by context and read into one context differ from '
                        'what was written: %s' % (tag, K.first_diff(K.text_of(d, 'TS', t0), t0) if d.get('TS', '=') != '='
                                                  else K.first_diff(K.text_of(d, 'SS', s0), s0))))
        if d.get('P1', '').startswith('ERR'):
            bad.append(('write-error', '%s: MIR_write_module_with_func refused: %s' % (tag, d.get('P1'))))
        if d.get('WH', '=') != '=':
            bad.append(('write-history-differs', '%s: the bytes of a module set depend on what the context wrote before / on the '
                        'entry point: %s' % (tag, d.get('WH'))))
        if d.get('WF', '=') != '=':
            bad.append(('file-writer-differs', '%s: MIR_write (FILE*) and MIR_write_with_func give different bytes: %s' % (tag, d.get('WF'))))
        if 'RM' in d and (d.get('RM') != 'ok' or d.get('TM') != '='):
            bad.append(('module-writer-differs', '%s: modules written one by one (MIR_write_module) and read with MIR_read do not '
                        'print as the original context: %s' % (tag, d.get('RM'))))
        if d.get('UR', 'ok') != 'ok':
            # reads into USED contexts (round 3): the same bytes read by a context that has scanned text, read binaries, written
            # and built modules before must give the modules the writing context printed
            ur = d.get('UR')
            hist, _, rest = ur.partition(':')
            if rest.startswith('ERR:'):
                what = 'is rejected: ' + rest[4:]
            else:
                try:
                    got = bytes.fromhex(rest).decode('latin-1')
                except ValueError:
                    got = rest
                what = 'differs: ' + K.first_diff(K.text_of(d, 'T0'), got)
            bad.append(('read-into-used-context-differs', '%s: MIR_read of the written bytes into a context with the history `%s` (+write: then written module by module from it and read into a fresh context) '
                        '(s = scan of the text, S = scan of a fixed text with data items, b = module built through the API, r = the '
                        'same read before, w = write, o = output) %s' % (tag, hist, what)))
        if d.get('RW', '=') != '=':
            bad.append(('rewrite-differs-after-read', '%s: the context read back serialises to different bytes than it was read from' % tag))
        if 'X0' in d and d.get('X1') != d.get('X0'):
            bad.append(('exec-differs-after-read', '%s: execution differs after the binary round trip: %s vs %s' % (tag, d.get('X0'), d.get('X1'))))
        # temp-name counters restored from reserved names: the next generated temporary names must be unused
        if d.get('FR1', 'ok') != 'ok':
            bad.append(('temp-name-clash-after-read', '%s: after the binary read the next temporary name is already in use: %s'
                        % (tag, d.get('FR1'))))
        elif d.get('FR0', 'ok') != 'ok' and 'newctx' in case:
            bad.append(('temp-name-clash-after-read', '%s: after reading the separately written modules into one context the next '
                        'temporary name is already in use: %s' % (tag, d.get('FR0'))))
    # tie: model bytes vs raw bytes
    if 'SKIPPED' in model or 'SKIPPED' in raw:
        return bad
    if 'W1' in raw and not raw['W1'].startswith('ERR') and 'W1' in model:
        if model['W1'] != raw['W1']:
            if K.diff_only_ld_padding(model['W1'], raw['W1']):
                bad.append(('ldpad', 'raw bytes carry non-zero bytes in the padding of a long double token'))
            else:
                bad.append(('tie:raw-bytes', 'model writer and MIR_write_with_func produce different raw bytes'))
        if 'MW' in raw and 'MW' in model and raw['MW'] != model['MW'] and model['W1'] == raw['W1']:
            bad.append(('tie:raw-bytes-module', 'model writer and MIR_write_module_with_func produce different raw bytes for a '
                        'module written on its own (the image is not a function of the module alone)'))
        if 'S0' in model and 'S0' in raw and model['S0'] != raw['S0'] and model['W1'] == raw['W1']:
            bad.append(('tie:structure', 'the context built through the API is not the described one (model AST vs API structures): '
                        + K.first_diff(K.text_of(model, 'S0'), K.text_of(raw, 'S0'))))
        if model.get('RB') != 'ok' and raw.get('RB') == 'ok':
            bad.append(('tie:model-reader', 'model reader rejects its own bytes: %s' % model.get('RB')))
        elif model.get('AST') == 'differs':
            bad.append(('tie:model-ast', 'model reader does not return the normalised module'))
        if raw.get('RB') == 'ok' and 'TN1' in model and (raw.get('TN1'), raw.get('TR1')) != (model.get('TN1'), model.get('TR1')):
            bad.append(('tie:temp-counters', 'last_temp_item_num / last_temp_num after the read differ from the model '
                        '(process_reserved_name): items %s vs %s, regs %s vs %s' % (raw.get('TN1'), model.get('TN1'),
                                                                                 raw.get('TR1'), model.get('TR1'))))
    if model.get('DRIVER-ERROR'):
        bad.append(('tie:driver', 'model driver error'))
    return bad


def run_cases(chk, exes, cases, which=('raw', 'cmpr', 'model')):
    return K.run_all(exes, cases, which=which)


def run(chk):
    quick = chk.tier == 'quick'
    tie_ok, tie_msg = K.tables_tie()
    chk.log(tie_msg.split('\n')[0])
    r = chk.prove()
    variant = 'plain' if quick else 'asan'
    exes = K.build_all(variant)
    table = G.parse_table(K.insn_table(exes[0]))
    # the model's insn table against the tree's (second, dynamic side of the table tie)
    mt = K.insn_table(exes[2])
    it = [l for l in K.insn_table(exes[0]) if not l.startswith('modes')]
    table_same = mt == it[:len(mt)]
    chk.cov['trusted_base'] += ['extraction: ExtrOcamlBasic only, no Extract Constant/Inductive of our own',
                                'ocaml/driver_c11.ml, harness/c11_io.c (parse + print + API calls only)',
                                'tools/tr_c11_tables.py (tags / insn_descs transcription, text-compared on every run)',
                                'compression layer under MIR_write is property C12: raw bytes are taken from a -DMIR_NO_BIN_COMPRESSION build, '
                                'the round trip is also run on the default (compressed) build']
    corpus = K.read_corpus('c11.txt')
    cases = [c for _, c in corpus]
    sigs = [s for s, _ in corpus]
    n = 150 if quick else 3000
    gen = gen_cases(chk, table, n, big=2 if quick else 12)
    cases += gen
    sigs += [None] * len(gen)
    # images of exactly k compression buffers (and one byte less / more)
    B = buf_len()
    xc, xinfo = exact_cases(chk, exes[0], table, (1, 2, 3) if quick else (1, 2, 3, 4, 5))
    cases += xc
    sigs += [None] * len(xc)
    r1, r2, rm = run_cases(chk, exes, cases)
    for c, a in zip(cases, r1):
        if c in xinfo:
            k, dl = xinfo[c]
            L = len(a.get('W1', '')) // 2
            chk.dist('exact_size_cases', 'uncompressed image of %d*BUF_LEN%+d bytes' % (k, dl) if L == k * B + dl
                     else 'off target (%d*BUF_LEN%+d wanted, %d bytes)' % (k, dl, L))
    nfail = 0
    rejected = 0
    failures = []
    for case, sig, a, b, m in zip(cases, sigs, r1, r2, rm):
        ks = K.stmt_kinds(case)
        chk.count(case, nontrivial=ks.get('insn', 0) + ks.get('data', 0) >= 3)
        for k, v in ks.items():
            chk.dist('ops' if k.startswith('op:') else 'stmts', k, v)
        chk.dist('case_bytes', '<1k' if len(a.get('W1', '')) < 2000 else '<64k' if len(a.get('W1', '')) < 128000 else
                 '<512k' if len(a.get('W1', '')) < 1024000 else '>=512k')
        bad = judge(case, a, b, m)
        if 'WF' in m:
            chk.dist('theorem_hypotheses', 'wf_ctx holds' if m['WF'] == '1' else 'outside wf_ctx')
        chk.dist('context', 'modules built in several contexts, read into one (overlapping label numbers)' if 'newctx' in case
                 else 'several modules, one context' if case.count('endmodule') > 1 else 'one module')
        if a.get('TN1', '').strip('0,') or a.get('TR1', '').strip('0,'):
            chk.dist('temp_counters', 'some counter restored to non-zero by the read')
        if a.get('FR0', 'ok') != 'ok' and 'newctx' not in case:
            chk.dist('temp_counters', 'harness: clash in the original context')
        if any(s == 'gen:rejected' for s, _ in bad):
            rejected += 1
            chk.dist('outcome', 'rejected-by-api')
            continue
        if 'X0' in a:
            chk.dist('exec', 'ok' if not a['X0'].startswith('ERR') else 'link-or-run-error')
        if not bad:
            chk.dist('outcome', 'agree')
            if sig:
                chk.log('note: corpus case for %s passes now' % sig)
            continue
        chk.dist('outcome', 'fail')
        nfail += 1
        failures.append((case, sig, bad))
    # Concrete failing inputs first.  A case on which only the tie (model vs implementation) breaks is the report
    # "no-failing-input-found"; it is made only when the search found no concrete failing input in this run,
    # otherwise it is a note (the concrete inputs are the replay).
    concrete = [f for f in failures if not f[2][0][0].startswith('tie:')]
    tie_only = [f for f in failures if f[2][0][0].startswith('tie:')]
    reported = 0
    for group in (concrete, tie_only):
        if group is tie_only and reported > 0:
            if tie_only:
                chk.notes.append('tie disagreements on %d more cases (first: %s), not reported separately: concrete failing inputs '
                                 'were found' % (len(tie_only), tie_only[0][2][0][0]))
            break
        for nth, (case, sig, bad) in enumerate(group[:6]):
            cls, what = bad[0]
            if sig is None and not cls.startswith('tie:') and len(case) < 60000 and nth < 2:
                # shrink (the first two failures only) while the same class of failure reproduces; only the
                # program that showed it is re-run
                which = ('raw',) if what.startswith('raw') else ('cmpr',) if what.startswith('compressed') else ('raw', 'model')

                def fails(c):
                    x1, x2, xm = run_cases(chk, exes, [c], which=which)
                    return any(s == cls for s, _ in judge(c, x1[0], x2[0], xm[0]))
                small = K.shrink_case(case, fails, max_steps=60)
            else:
                small = case
            x1, x2, xm = run_cases(chk, exes, [small])
            signature = sig or (cls if cls in ('ldpad',) else cls + ':' + hashlib.sha1(small.encode()).hexdigest()[:8])
            if chk.finding(signature, dict(case=small, failure=cls, raw={k: v[:2000] for k, v in x1[0].items()},
                                           compressed={k: v[:300] for k, v in x2[0].items()},
                                           model={k: v[:2000] for k, v in xm[0].items()}, original=case[:4000]),
                           'C11 %s: %s' % (cls, what), no_input=cls.startswith('tie:')):
                reported += 1
    chk.cov['rule'] = ('generated module descriptions (all item kinds, operand forms, boundary immediates, NaN payloads, strings with '
                      'NULs, several modules per context, a few cases above two compression buffers) built through the API by '
                      'harness/c11_io.c; checked: two writes byte-equal, every module written on its own gives the same bytes as the first write of '
                      'the context and after other writes and through both entry points, read(write) prints identically, is structurally '
                      'identical through the API and executes identically '
                      '(compressed and raw builds), raw bytes equal the extracted Coq writer, the Coq reader returns the '
                      'normalised module. non-trivial = at least 3 insns/data items; distinct by description text')
    for c in cases[len(corpus):len(corpus) + 3]:
        chk.sample(c[:600])
    chk.notes.append('rejected-by-api cases: %d of %d' % (rejected, len(cases)))
    if rejected > len(cases) // 5:
        chk.finding('generator-degenerate', dict(rejected=rejected, total=len(cases)),
                    'more than 20% of the generated modules are rejected by the API', no_input=True)
    if not tie_ok or not table_same:
        chk.finding('tie:tables', dict(msg=tie_msg, model_table_equal=table_same),
                    'bin_tag_t / insn_descs of the tree differ from coq/C11/Tables.v: the model no longer describes this tree',
                    no_input=True)
    if not r['ok'] and nfail == 0:
        chk.proof_broken(r, searched='%d generated modules round-tripped correctly' % len(cases))


def replay(chk, path):
    j = json.load(open(path))
    exes = K.build_all('plain')
    case = j['replay']['case']
    r1, r2, rm = run_cases(chk, exes, [case])
    bad = judge(case, r1[0], r2[0], rm[0])
    print('case:', case)
    for k in ('build', 'TS', 'SS', 'W2', 'RB', 'T1', 'S1', 'LI0', 'LI1', 'LIM', 'RW', 'WF', 'WH', 'RM', 'TM', 'TN1', 'TR1', 'X0', 'X1', 'FR0', 'FR1', 'UR', 'URN', 'CRASH'):
        print('  raw.%s = %s   compressed.%s = %s' % (k, r1[0].get(k, '-')[:100], k, r2[0].get(k, '-')[:100]))
    for s, w in bad:
        print('FAIL', s, w)
    return 1 if bad else 0

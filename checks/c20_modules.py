# C20 module-level correspondence: generated single-result MIR modules (tools/gen_c20_modules.py)
#   -> harness/c20_mod emitc (mir2c of the checked tree; watchdog + output-size limit = "terminates")
#   -> gcc (exit status = "accepted by the C compiler") -> run
# compared with MIR_interp of the same module on the same inputs: result and external-call trace.
import os, sys, json, re, subprocess, resource, hashlib
from concurrent.futures import ThreadPoolExecutor
import vlib
import gen_c20_modules as GM

STUB = r'''
#include <stdlib.h>
#include "c20_ext.h"
extern int64_t entry (int64_t a, int64_t b);
int main (int argc, char **argv) {
  int64_t a = argc > 1 ? (int64_t) strtoull (argv[1], NULL, 16) : 0, b = argc > 2 ? (int64_t) strtoull (argv[2], NULL, 16) : 0;
  int64_t r = entry (a, b);
  printf ("R %016" PRIx64 "\n", (uint64_t) r);
  return 0;
}
'''


def limited(cmd, timeout=20, fsize=64 << 20, cwd=None):
    def pre():
        resource.setrlimit(resource.RLIMIT_FSIZE, (fsize, fsize))
        resource.setrlimit(resource.RLIMIT_CPU, (timeout + 5, timeout + 5))
    try:
        p = subprocess.run(cmd, stdout=subprocess.PIPE, stderr=subprocess.PIPE, timeout=timeout, preexec_fn=pre, cwd=cwd)
        return p.returncode, p.stdout.decode('utf-8', 'replace'), p.stderr.decode('utf-8', 'replace')
    except subprocess.TimeoutExpired as ex:
        return 124, (ex.stdout or b'').decode('utf-8', 'replace'), '[timeout]'


def build(chk):
    return vlib.build_harness('c20_mod', ['c20_mod.c'], units=('mir', 'mir2c'))


def one_module(exe, wd, tag, text, args, cflags=('-O1',), interp_timeout=60):
    """returns None if mir2c's translation behaves like the interpreter, else (kind, detail)"""
    mir = os.path.join(wd, tag + '.mir')
    cfile = os.path.join(wd, tag + '.c')
    binf = os.path.join(wd, tag + '.bin')
    stub = os.path.join(wd, 'stub.c')
    open(mir, 'w').write(text)
    if not os.path.exists(stub):
        open(stub, 'w').write(STUB)
    # reference: the interpreter
    ref = []
    for a, b in args:
        rc, out, err = limited([exe, 'interp', mir, 'entry', '%x' % a, '%x' % b], timeout=interp_timeout)
        if rc != 0:
            return ('generator', 'the interpreter does not run the module (rc=%d): %s' % (rc, (out + err)[-300:]))
        ref.append(out)
    rc, out, err = limited([exe, 'emitc', mir, cfile], timeout=20)
    if rc == 124 or rc == -9 or rc == 153 or rc == -25 or (rc != 0 and os.path.exists(cfile) and os.path.getsize(cfile) >= (60 << 20)):
        return ('nontermination', 'mir2c did not terminate (watchdog 20 s / output limit 64 MB) rc=%d' % rc)
    if rc != 0:
        return ('mir2c-fails', 'mir2c failed rc=%d: %s' % (rc, (out + err)[-300:]))
    rc, out, err = limited(['gcc', '-std=gnu11', '-w'] + list(cflags) + ['-I' + os.path.join(vlib.VERIF, 'harness'), cfile, stub, '-o', binf, '-lm'],
                           timeout=120)
    if rc != 0:
        first = [re.sub(r'^\S+?:(\d+):\d+:\s*', r'line \1: ', l.strip()) for l in err.split('\n') if 'error' in l][:3]
        return ('rejected', 'gcc rejects the translation: %s' % ' | '.join(first))
    for (a, b), want in zip(args, ref):
        rc, out, err = limited([binf, '%x' % a, '%x' % b], timeout=20)
        if rc != 0:
            return ('crash', 'entry(%x,%x): compiled translation exits with rc=%d; interpreter prints %s' % (a, b, rc, want[-120:].strip()))
        if out != want:
            wl, ol = want.split('\n'), out.split('\n')
            k = next((i for i, (x, y) in enumerate(zip(wl, ol)) if x != y), min(len(wl), len(ol)))
            return ('differs', 'entry(%x,%x): line %d of the trace: interpreter "%s", compiled translation "%s"' % (
                a, b, k, wl[k] if k < len(wl) else '<end>', ol[k] if k < len(ol) else '<end>'))
    return None


def run_modules(chk, wd, quick):
    exe = build(chk)
    rng = chk.rng('modules')
    n = 24 if quick else 300
    mods = []
    corpus = os.path.join(vlib.VERIF, 'corpus', 'c20_modules')
    if os.path.isdir(corpus):
        for f in sorted(os.listdir(corpus)):
            if f.endswith('.mir'):
                mods.append(('corpus-' + f[:-4], open(os.path.join(corpus, f)).read()))
    args = GM.ARGS[:4] if quick else GM.ARGS
    for i in range(n):
        feats = {'multi': i % 3 != 0}
        mods.append(('m%d' % i, GM.gen_module(rng, feats)))

    asan = ('-O1', '-fsanitize=address', '-fno-omit-frame-pointer')

    def work(m):
        tag, text = m
        res = one_module(exe, wd, tag, text, args)
        if res is None and (not quick or tag.startswith('corpus-') or int(tag[1:]) % 3 == 0):
            # the same translation under AddressSanitizer: an alloca shorter than asked for, a section smaller than its MIR
            # layout, a temporary used outside its block show as a crash of the compiled translation
            res = one_module(exe, wd, tag + '-asan', text, args[:2], cflags=asan)
            if res is not None:
                res = (res[0], '[AddressSanitizer build] ' + res[1])
        return tag, text, res
    nbad = 0
    ninvalid = 0
    seen = set()
    with ThreadPoolExecutor(max_workers=4) as ex:
        for tag, text, res in ex.map(work, mods):
            chk.count(('module', hashlib.sha1(text.encode()).hexdigest()), nontrivial=True, n=len(args))
            chk.dist('module_insns', 'lines', text.count('\n'))
            for kw in ('switch', 'addo', 'subo', 'mulo', 'call', 'bss', 'string', 'ref ', 'alloca p1', 'bstart', 'addr p1', 'addr8', 'addr16',
                       'addr32', 'laddr', 'jmpi', 'call p_hva', 'blk:16(p1)', 'ldadd', 'ld2i', 'forward', 'eq t9, p1, p2'):
                if kw in text:
                    chk.dist('module_features', kw.strip())
            if res is None:
                continue
            kind, detail = res
            if kind == 'generator':
                chk.notes.append('module %s: %s' % (tag, detail[:200]))
                chk.dist('module_features', 'generator-invalid')
                ninvalid += 1
                continue
            nbad += 1
            cls = kind + ':' + re.sub(r'[0-9a-f]{6,}|\d+', '#', detail)[:50]
            if cls in seen or len(seen) >= 6:
                continue
            seen.add(cls)
            small = shrink_module(exe, wd, tag, text, args, kind, cflags=asan if 'AddressSanitizer build' in detail else ('-O1',))
            chk.finding('module:%s:%s' % (kind, hashlib.sha1(small.encode()).hexdigest()[:10]),
                        dict(case='module ' + tag, kind=kind, detail=detail, mir=small, original=text, args=['%x,%x' % ab for ab in args]),
                        'the C translation of a generated module is wrong (%s): %s' % (kind, detail[:300]))
    if ninvalid:
        chk.log('WARNING: %d of %d modules are not accepted by the interpreter of the checked tree (see notes)' % (ninvalid, len(mods)))
    if ninvalid * 4 > len(mods):
        # the module-level half of the check decides nothing when the reference cannot run the modules: that is a broken
        # check (or a tree whose text reader / interpreter is broken), not a silent pass
        raise vlib.BuildError('%d of %d generated modules are rejected by MIR_scan_string / MIR_interp of the checked tree: %s' % (
            ninvalid, len(mods), '; '.join(chk.notes[-2:])[:400]))
    return nbad


def shrink_module(exe, wd, tag, text, args, kind, cflags=('-O1',)):
    """drop whole self-contained units (delimited by '# ---' lines) of the entry function while the same
    kind of failure persists and the interpreter still runs the module"""
    lines = text.split('\n')
    marks = [i for i, l in enumerate(lines) if l.strip() == '# ---']
    if len(marks) < 2:
        return text
    head, tail = lines[:marks[0]], lines[marks[-1]:]
    units = [lines[marks[k]:marks[k + 1]] for k in range(len(marks) - 1)]

    def fails(sub):
        t = '\n'.join(head + [l for u in sub for l in u] + tail)
        r = one_module(exe, wd, tag + '-s', t, args, cflags=cflags, interp_timeout=10)
        return r is not None and r[0] == kind
    sub = vlib.shrink_list(units, fails, max_steps=60)
    return '\n'.join(head + [l for u in sub for l in u] + tail)


def replay_module(chk, j):
    import shutil
    exe = build(chk)
    wd = os.path.join(vlib.BUILD, 'c20-replay-%d' % os.getpid())
    os.makedirs(wd, exist_ok=True)
    try:
        args = [tuple(int(x, 16) for x in s.split(',')) for s in j['replay']['args']]
        r = one_module(exe, wd, 'replay', j['replay']['mir'], args)
    finally:
        shutil.rmtree(wd, ignore_errors=True)
    print(j['replay']['mir'])
    print('result:', r)
    return 1 if r else 0

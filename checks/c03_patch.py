# C03 round 3 (wave z): tie of coq/C03/CodePatch.v (the write-enable request of _MIR_change_code / _MIR_update_code_arr;
# Properties_C03.v change_code_request_exact, change_code_patch_writable, update_code_words_writable) to mir.c.
# harness/c03_patch.c makes one patch of published code with the real function under a code allocator that records the
# mem_protect requests; request (start, len) must equal the model's, the patched bytes must read back.  Cases sit on the
# boundary the theorems are about: patches ending just before / exactly at a page boundary, straddling it by every
# number of bytes, beginning exactly at it, on the first and on a later page; relocation lists whose farthest word
# ends at / straddles a boundary and is not the last list element.
import vlib

SIZES = (1, 2, 4, 6, 8, 13, 15)   # rel32, rex call rel32, absolute address, thunk patterns


def gen_cases(rng, quick):
    cases = []
    for n in SIZES:
        for pg in (4096, 8192, 12288):
            for off in range(pg - n - 1, pg + 2):
                cases.append('C %d %d' % (off, n))
        cases.append('C 0 %d' % n)
    for _ in range(60 if quick else 2000):
        cases.append('C %d %d' % (rng.randrange(0, 3 * 4096 + 400), rng.choice(SIZES)))
    for b in (0, 16, 100, 4090, 4096):
        for end in (4096, 8192, 12288):
            for d in range(-9, 3):
                far = end - 8 + d - b
                if far < 0:
                    continue
                offs = [far] + [rng.randrange(0, far + 1) for _ in range(rng.randint(0, 5))]
                rng.shuffle(offs)
                cases.append('U %d %s' % (b, ' '.join(str(o) for o in offs)))
    for _ in range(40 if quick else 1000):
        b = rng.randrange(0, 4200)
        offs = [rng.randrange(0, 3 * 4096 + 500 - 8 - b) for _ in range(rng.randint(1, 12))]
        cases.append('U %d %s' % (b, ' '.join(str(o) for o in offs)))
    return cases


def kv(line):
    d = {}
    for w in line.split():
        if '=' in w:
            a, b = w.split('=', 1)
            d[a] = b
    return d


def covered(d):
    pg, st, ln = int(d['page'], 16), int(d['start'], 16), int(d['len'], 16)
    return (st // pg * pg, (st + ln + pg - 1) // pg * pg)


def run(chk, model):
    """-> True when a finding was made"""
    impl = vlib.build_harness('c03_patch', ['c03_patch.c'], units=('mir',))
    rng = chk.rng('patch')
    cases = gen_cases(rng, chk.tier == 'quick')
    rc, out, err = vlib.run_lines(impl, cases)
    if len(out) != len(cases):
        raise vlib.BuildError('c03_patch: %d answers for %d requests: %s' % (len(out), len(cases), err[-300:]))
    mlines = []
    for c, o in zip(cases, out):
        d = kv(o)
        w = c.split()
        if 'addr' not in d or 'page' not in d:
            mlines.append('')
        elif w[0] == 'C':
            mlines.append('C %s %s %s' % (d['page'], d['addr'], d['n']))
        else:
            mlines.append('U %s %s %s' % (d['page'], d['addr'], ' '.join('%x' % int(x) for x in w[2:])))
    rc2, mout, merr = vlib.run_lines(model, mlines)
    if rc2 != 0 or len(mout) != len(mlines):
        raise vlib.BuildError('model driver failed on patch cases: %s' % merr[-300:])
    found = 0
    for c, o, m in zip(cases, out, mout):
        chk.count(('patch', c), nontrivial=True)
        d, md = kv(o), kv(m)
        w = c.split()
        if md:
            pages = (int(md['hi'], 16) - int(md['lo'], 16)) // int(d['page'], 16)
            chk.dist('patch_cases', '%s:%d page%s' % (w[0], pages, '' if pages == 1 else 's'))
        why = None
        if 'CRASH' in o:
            why = 'the patch faults (%s): the page of its last byte was not made writable' % o.split()[-1]
        elif not md or 'start' not in d:
            why = 'no answer'
        elif d.get('nreq') != '1':
            why = '%s write-enable requests for one patch' % d.get('nreq')
        elif covered(d) != (int(md['lo'], 16), int(md['hi'], 16)):
            # (compared as page ranges: a request written differently that covers the same pages is the same request)
            why = 'write-enable request (start %s, len %s) covers pages [%x, %x), the verified model [%s, %s)' % (
                (d['start'], d['len']) + covered(d) + (md['lo'], md['hi']))
        elif d.get('ok') != '1':
            why = 'the patched bytes do not read back / neighbouring bytes changed'
        if why and found < 2:
            found += 1
            chk.finding('patch:' + c.replace(' ', '_'), dict(kind='patch', case=c, impl=o, model=m),
                        'patching published code, %s: %s  [impl: %s]' % (c, why, o.strip()[:200]))
    chk.sample(cases[0])
    return found > 0


def replay_case(chk, model, rp):
    impl = vlib.build_harness('c03_patch', ['c03_patch.c'], units=('mir',))
    rc, out, err = vlib.run_lines(impl, [rp['case']])
    print(rp['case'], '->', out)
    return 1 if ('CRASH' in ' '.join(out) or 'ok=1' not in ' '.join(out)) else 0

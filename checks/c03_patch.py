# C03 round 3 (wave z): tie of coq/C03/CodePatch.v (the write-enable request of _MIR_change_code / _MIR_update_code_arr;
# Properties_C03.v change_code_request_exact, change_code_patch_writable, update_code_words_writable) to mir.c.
# harness/c03_patch.c makes one patch of published code with the real function under a code allocator that records the
# mem_protect requests; request (start, len) must equal the model's, the patched bytes must read back.  Cases sit on the
# boundary the theorems are about: patches ending just before / exactly at a page boundary, straddling it by every
# number of bytes, beginning exactly at it, on the first and on a later page; relocation lists whose farthest word
# ends at / straddles a boundary and is not the last list element.
import vlib

BLOB = 3 * 4096 + 512             # harness/c03_patch.c
SIZES = (1, 2, 4, 6, 8, 13, 15)   # rel32, rex call rel32, absolute address, thunk patterns


def gen_cases(rng, quick):
    cases = []
    for n in SIZES:
        for pg in (4096, 8192, 12288):
            for off in range(pg - n - 1, pg + 2):
                cases.append('C %d %d' % (off, n))
        cases.append('C 0 %d' % n)
    # (wave 6) every position relative to a page end for patches of one byte up to three pages: ending one byte before
    # / exactly at / one byte after a page end, beginning exactly at / one byte before / after a page start, covering
    # exactly 1, 2, 3 whole pages and a byte more or less
    for n in (1, 3, 8, 16, 64, 100, 4095, 4096, 4097, 8191, 8192, 8193, 12287, 12288):
        for pg in (0, 4096, 8192, 12288):
            for d in (-2, -1, 0, 1, 2):
                for off in (pg + d, pg + d - n):     # begins at pg+d  /  ends at pg+d
                    if off >= 0 and off + n <= BLOB:
                        cases.append('C %d %d' % (off, n))
    for _ in range(60 if quick else 2000):
        cases.append('C %d %d' % (rng.randrange(0, 3 * 4096 + 400), rng.choice(SIZES)))
    for _ in range(30 if quick else 1000):
        n = rng.choice((rng.randrange(1, 64), rng.randrange(64, 4096), rng.randrange(4096, 3 * 4096)))
        cases.append('C %d %d' % (rng.randrange(0, BLOB - n + 1), n))
    for b in (0, 1, 4095, 4096, 4097, 8192):    # one relocation word at every position around each later page end
        for end in (4096, 8192, 12288):
            for d in range(-9, 10):
                if end + d - 8 - b >= 0 and end + d <= BLOB:
                    cases.append('U %d %d' % (b, end + d - 8 - b))
    for b in (0, 16, 100, 4090, 4096):
        for end in (4096, 8192, 12288):
            for d in range(-9, 3):
                far = end - 8 + d - b
                if far < 0:
                    continue
                offs = [far] + [rng.randrange(0, far + 1) for _ in range(rng.randint(0, 5))]
                rng.shuffle(offs)
                cases.append('U %d %s' % (b, ' '.join(str(o) for o in offs)))
    for _ in range(40 if quick else 1000):
        b = rng.randrange(0, 4200)
        offs = [rng.randrange(0, 3 * 4096 + 500 - 8 - b) for _ in range(rng.randint(1, 12))]
        cases.append('U %d %s' % (b, ' '.join(str(o) for o in offs)))
    return cases


def kv(line):
    d = {}
    for w in line.split():
        if '=' in w:
            a, b = w.split('=', 1)
            d[a] = b
    return d


def covered(d):
    pg, st, ln = int(d['page'], 16), int(d['start'], 16), int(d['len'], 16)
    return (st // pg * pg, (st + ln + pg - 1) // pg * pg)


def model_line(c, o):
    d = kv(o)
    w = c.split()
    if 'addr' not in d or 'page' not in d:
        return ''
    if w[0] == 'C':
        return 'C %s %s %s' % (d['page'], d['addr'], d['n'])
    return 'U %s %s %s' % (d['page'], d['addr'], ' '.join('%x' % int(x) for x in w[2:]))


def judge(c, o, m):
    """-> None or what is wrong with the implementation's answer O to case C (M: the model's answer)"""
    d, md = kv(o), kv(m)
    if 'CRASH' in o:
        return 'the patch faults (%s): the page of its last byte was not made writable' % o.split()[-1]
    if not md or 'start' not in d:
        return 'no answer'
    if d.get('nreq') != '1':
        return '%s write-enable requests for one patch' % d.get('nreq')
    if covered(d) != (int(md['lo'], 16), int(md['hi'], 16)):
        return 'write-enable request (start %s, len %s) covers pages [%x, %x), the verified model [%s, %s)' % (
            (d['start'], d['len']) + covered(d) + (md['lo'], md['hi']))
    if (int(d['start'], 16), int(d['len'], 16)) != (int(md['start'], 16), int(md['len'], 16)):
        # (wave 6) the request itself, start and length, is the theorem's (change_code_request_exact): a code
        # allocator is handed these two numbers, not a page range
        return 'write-enable request (start %s, len %s), the verified model (start %s, len %s)' % (
            d['start'], d['len'], md['start'], md['len'])
    if d.get('nreq2') != '1' or d.get('order') != '1':
        return '%s read+exec requests closing one patch (in order: %s)' % (d.get('nreq2'), d.get('order'))
    if (d['start2'], d['len2']) != (d['start'], d['len']):
        return 'the read+exec request (start %s, len %s) is not the write+exec request (start %s, len %s)' % (
            d['start2'], d['len2'], d['start'], d['len'])
    if d.get('ok') != '1':
        return 'the patched bytes do not read back / neighbouring bytes changed'
    return None


def run_impl(chk, impl, cases):
    """answers of the harness; a harness that does not come back within its time limit -> the hanging case is named
    (cases re-run singly with a short limit) and reported as a finding; returns None then"""
    rc, out, err = vlib.run_lines(impl, cases, timeout=120)
    if rc == 124:
        for c in cases:
            rc1, o1, e1 = vlib.run_lines(impl, [c], timeout=10)
            if rc1 == 124:
                chk.finding('hang:patch:' + c.replace(' ', '_'), dict(kind='patch', case=c, impl='HANG', model=''),
                            'patching published code, %s: the patch does not return within 10 s (HANG)' % c)
                return None
        chk.finding('hang:patch', dict(kind='patch', case=cases[0], impl='HANG', model=''),
                    'patching published code: %d patches do not finish within 120 s (each alone does)' % len(cases))
        return None
    if len(out) != len(cases):
        raise vlib.BuildError('c03_patch: %d answers for %d requests: %s' % (len(out), len(cases), err[-300:]))
    return out


def run(chk, model):
    """-> True when a finding was made"""
    impl = vlib.build_harness('c03_patch', ['c03_patch.c'], units=('mir',))
    rng = chk.rng('patch')
    cases = gen_cases(rng, chk.tier == 'quick')
    out = run_impl(chk, impl, cases)
    if out is None:
        return True
    mlines = [model_line(c, o) for c, o in zip(cases, out)]
    rc2, mout, merr = vlib.run_lines(model, mlines, timeout=120)
    if rc2 != 0 or len(mout) != len(mlines):
        raise vlib.BuildError('model driver failed on patch cases: %s' % merr[-300:])
    found = 0
    for c, o, m in zip(cases, out, mout):
        chk.count(('patch', c), nontrivial=True)
        d, md = kv(o), kv(m)
        w = c.split()
        if md:
            pages = (int(md['hi'], 16) - int(md['lo'], 16)) // int(d['page'], 16)
            end = (int(md['start'], 16) + int(md['len'], 16)) % int(d['page'], 16)
            chk.dist('patch_cases', '%s:%d page%s' % (w[0], pages, '' if pages == 1 else 's'))
            chk.dist('patch_end', '%s:%s' % (w[0], 'at page end' if end == 0 else '1 before page end' if end == int(d['page'], 16) - 1
                                                else '1 after page end' if end == 1 else 'inside'))
        why = judge(c, o, m)
        if why and found < 2:
            found += 1
            chk.finding('patch:' + c.replace(' ', '_'), dict(kind='patch', case=c, impl=o, model=m),
                        'patching published code, %s: %s  [impl: %s]' % (c, why, o.strip()[:200]))
    chk.sample(cases[0])
    return found > 0


def replay_case(chk, model, rp):
    impl = vlib.build_harness('c03_patch', ['c03_patch.c'], units=('mir',))
    rc, out, err = vlib.run_lines(impl, [rp['case']], timeout=10)
    if rc == 124 or not out:
        print(rp['case'], '-> HANG' if rc == 124 else '-> no answer')
        return 1
    rc2, mout, merr = vlib.run_lines(model, [model_line(rp['case'], out[0])], timeout=60)
    why = judge(rp['case'], out[0], mout[0] if mout else '')
    print(rp['case'], '->', out[0], '| model:', mout[0] if mout else '', '|', why or 'agrees')
    return 1 if why else 0

# C17: all memory goes through the user's allocators and is released at finish.
#  proofs : coq/Properties_C17.v (monitor = declarative contract; VARR scripts accepted),
#           coq/Properties_C17_Sites.v (facts over call-site lists regenerated from the tree)
#  tie    : tools/tr_c17_sites.py (every run) + the extracted monitor run on the allocator-call traces of
#           the real library (harness/c17_alloc.c) for seeded API histories (tools/gen_c17_scen.py)
import os, sys, json, re, hashlib
from concurrent.futures import ThreadPoolExecutor
import vlib

sys.path.insert(0, os.path.join(vlib.VERIF, 'tools'))
import tr_c17_sites, gen_c17_scen as G

LEVEL = 'proof'
WRAP = ['malloc', 'calloc', 'realloc', 'free', 'mmap', 'munmap', 'mprotect', 'strdup', 'strndup', 'posix_memalign',
        'aligned_alloc']
EVNAMES = {'M': 'malloc', 'C': 'calloc', 'R': 'realloc', 'F': 'free', 'U': 'use-after-free', 'A': 'mem_map',
           'Z': 'mem_unmap', 'PW': 'protect-write', 'PX': 'protect-exec', 'W': 'code-write', 'D': 'direct-libc-call',
           'FIN': 'finish'}


def build(variant='plain'):
    # the asan variant of vlib also enables UBSan, which stops at idioms the library relies on (unaligned hash loads,
    # shifts of negative values): only AddressSanitizer is wanted here
    # and allocas are not instrumented: the interpreter implements BSTART/BEND by resetting the host stack pointer below
    # its own alloca()s, the stale redzones of which ASan then reports as dynamic-stack-buffer-overflow (an artefact)
    # harness/c17_api.h is #included, not listed as a source: its hash goes into the flags so that an edit rebuilds
    hh = vlib.file_hash([os.path.join(vlib.VERIF, 'harness', 'c17_api.h')])
    impl = vlib.build_harness('c17_alloc', ['c17_alloc.c'], variant=variant, units=('mir', 'mir-gen', 'c2mir'),
                              defs=['-fno-sanitize=undefined', '--param=asan-instrument-allocas=0'] if variant == 'asan' else [],
                              extra_flags=['-Wl,' + ','.join('--wrap=' + w for w in WRAP), '-DC17_API_H_HASH=0x' + hh[:8]])
    model = vlib.ocaml_build('c17', 'Extract_C17', ['c17x'], 'driver_c17.ml')
    return impl, model


# every run of the harness has its own time limit: the longest histories (the fixed ones) take a few seconds, under
# ASan some tens of seconds; a child that is still running after the limit is killed and judged as a HANG (rc 124)
RUN_LIMIT = 150
SHRINK_LIMIT = 40


def run_script(impl, lines, timeout=RUN_LIMIT):
    # the harness ends itself at the limit (SIGALRM: trace flushed, rc 124); the kill 20 s later is the backstop
    rc, out, err = vlib.sh([impl], input=('\n'.join(lines) + '\nend\n').encode(), timeout=timeout + 20,
                           env={'C17_LIMIT': str(timeout), 'ASAN_OPTIONS': 'detect_leaks=0:handle_segv=0:allow_user_segv_handler=1:handle_abort=0'})
    return rc, out.split('\n'), err


def parse(out_lines):
    """-> dict ctx -> list of (event text, step index, [diagnostics]); steps; results; notes"""
    traces, steps, results, notes = {}, [], [], []
    last = None
    for l in out_lines:
        if l.startswith('E '):
            _, c, ev = l.split(' ', 2)
            last = [ev, len(steps) - 1, []]
            traces.setdefault(int(c), []).append(last)
        elif l.startswith('S '):
            p = l.split(' ', 3)
            steps.append((int(p[2]), p[3] if len(p) > 3 else ''))
            last = None
        elif l.startswith('R '):
            results.append(l)
        elif l.startswith('X '):
            if last is not None and not l.startswith('X STATS') and not l.startswith('X DONE'):
                last[2].append(l[2:])
            notes.append(l[2:])
    return traces, steps, results, notes


def monitor(model, trace_texts):
    rc, out, err = vlib.run_lines(model, trace_texts, timeout=600)
    if rc != 0 or len(out) != len(trace_texts):
        raise vlib.BuildError('monitor driver failed: rc=%d %s' % (rc, err[-400:]))
    return out


def symbolize(impl, off):
    rc, out, err = vlib.sh(['addr2line', '-f', '-e', impl, hex(max(off - 1, 0))])
    f = out.split('\n')
    return (f[0] if f and f[0] else '??'), (os.path.basename(f[1]) if len(f) > 1 else '??')


def live_blocks(events, upto):
    """blocks still live before event index upto: id -> (size, index of the allocating event)"""
    live = {}
    for i, (ev, st, _) in enumerate(events[:upto]):
        w = ev.split()
        if w[0] == 'M':
            live[w[1]] = (int(w[2]), i)
        elif w[0] == 'C':
            live[w[1]] = (int(w[2]) * int(w[3]), i)
        elif w[0] == 'R':
            live.pop(w[1], None)
            live[w[4]] = (int(w[3]), i)
        elif w[0] == 'F':
            live.pop(w[1], None)
    return live


def describe(impl, events, idx, steps):
    """signature + human text for the first rejected event of a trace"""
    ev, st, diag = events[idx]
    w = ev.split()
    cmd = steps[st][1].split()[0] if 0 <= st < len(steps) else '?'
    kind = EVNAMES.get(w[0], w[0])
    detail = {}
    if w[0] == 'D':
        site = '?'
        for d in diag:
            m = re.match(r'direct (\S+) \S+ caller\+0x([0-9a-f]+)', d)
            if m:
                fn, src = symbolize(impl, int(m.group(2), 16))
                site = '%s@%s' % (m.group(1), fn)
                detail['source'] = src
        sig = 'direct:' + site
        what = 'library code called %s directly instead of the user allocator (during %s)' % (site, cmd)
    elif w[0] == 'R':
        live = live_blocks(events, idx)
        true = live.get(w[1])
        if true is None:
            sig = 'realloc-unknown@' + cmd
            what = 'realloc of a block that is not live (block %s, during %s)' % (w[1], cmd)
        elif true[0] != int(w[2]):
            sig = 'realloc-old-size@' + cmd
            what = 'realloc reported old size %s for a block whose true size is %d (during %s)' % (w[2], true[0], cmd)
        else:
            sig = 'realloc@' + cmd
            what = 'realloc event rejected (during %s)' % cmd
    elif w[0] == 'F':
        sig = 'bad-free@' + cmd
        what = 'free of a block that is not live: double free or unknown pointer (block %s, during %s)' % (w[1], cmd)
    elif w[0] == 'FIN':
        live = live_blocks(events, idx)
        leaked = sorted(live.items(), key=lambda kv: kv[1][1])
        where = sorted({steps[events[i][1]][1].split()[0] for _, (_, i) in leaked if 0 <= events[i][1] < len(steps)})
        mapped = [e[0] for e in events[:idx] if e[0].split()[0] in ('A', 'Z')]
        detail['leaked_blocks'] = [dict(id=k, size=v[0], allocated_in=steps[events[v[1]][1]][1][:40]) for k, v in leaked[:20]]
        detail['map_unmap_events'] = mapped[-10:]
        sig = 'leak@finish:' + ('heap-from-' + '+'.join(where) if leaked else 'code-pages')
        what = ('after MIR_finish %d block(s) (%d bytes) are still live and/or code pages still mapped'
                % (len(leaked), sum(v[0] for _, v in leaked)))
    elif w[0] == 'W':
        sig = 'code-write-outside-window@' + cmd
        what = 'code memory written outside a write-access window (during %s)' % cmd
    elif w[0] == 'U':
        sig = 'use-after-free@' + cmd
        what = 'a freed block was written (detected during %s)' % cmd
    else:
        sig = 'reject-%s@%s' % (kind, cmd)
        what = 'allocator contract violated at a %s event (during %s)' % (kind, cmd)
    detail['event'] = ev
    detail['diagnostics'] = diag[:6]
    return sig, what, detail


def check_script(impl, model, lines, timeout=RUN_LIMIT):
    """-> list of (sig, what, detail, ctx, idx); status string"""
    rc, out, err = run_script(impl, lines, timeout=timeout)
    if rc == 124 and timeout >= RUN_LIMIT:
        # a run that normally takes seconds hit the limit: before it is judged a hang, run it once more with four
        # times the limit (a machine that is heavily oversubscribed must not turn into an alarm; a real hang repeats)
        rc, out, err = run_script(impl, lines, timeout=4 * timeout)
    traces, steps, results, notes = parse(out)
    if rc == 65:
        return [], 'not-error-free', traces, steps, results, notes
    problems = []
    ctxs = sorted(traces)
    work = {c: list(traces[c]) for c in ctxs}
    todo = list(ctxs)
    rounds = 0
    while todo and rounds < 40:
        rounds += 1
        verdicts = monitor(model, [';'.join(e[0] for e in work[c]) for c in todo])
        nxt = []
        for c, v in zip(todo, verdicts):
            if v.startswith('REJECT'):
                idx = int(v.split()[1])
                sig, what, detail = describe(impl, work[c], idx, steps)
                detail.update(ctx=c, index=idx, step=steps[work[c][idx][1]][1][:60] if work[c][idx][1] >= 0 else '',
                              before=[e[0] for e in work[c][max(0, idx - 4):idx]], after_removing_earlier_rejects=rounds - 1)
                if all(p[0] != sig for p in problems):
                    problems.append((sig, what, detail))
                # look for further, different breaches: drop the rejected event and judge the rest again
                if work[c][idx][0] == 'D':
                    # Direct events have no effect on the monitor state: drop every one from the same call site
                    site = [d for d in work[c][idx][2] if d.startswith('direct ')]
                    key = site[0].split()[1::2] if site else None   # (function called, caller offset)
                    work[c] = [e for i, e in enumerate(work[c]) if i != idx and not (
                        e[0] == 'D' and key is not None and [d.split()[1::2] for d in e[2] if d.startswith('direct ')][:1] == [key])]
                    nxt.append(c)
                # any other rejected event ends the judgement of this trace: what follows it would only be
                # consequences of the first breach
            elif not v.startswith('ACCEPT'):
                raise vlib.BuildError('monitor said: ' + v)
        todo = nxt
    if rc == 124:
        # the harness did not come back within the limit: the step it was in is the last one announced
        last = steps[-1][1][:40] if steps else ''
        if not problems:
            problems.append(('hang@' + (last.split()[0] if last else '?'),
                             'the library did not return within %d s under the checking allocators (last step announced: %s)' % (timeout, last),
                             dict(rc=rc, limit_seconds=timeout, steps_done=len(steps))))
    elif rc not in (0, 65):
        crash = [n for n in notes if n.startswith('CRASH') or n.startswith('OOM')]
        last = steps[-1][1][:40] if steps else ''
        if not problems:
            problems.append(('crash@' + (last.split()[0] if last else '?'),
                             'the library crashed under the checking allocators (rc %d) during %s' % (rc, last),
                             dict(rc=rc, notes=crash[:3], stderr=err[-300:])))
    return problems, 'ok', traces, steps, results, notes


def shrink(impl, model, lines, sig):
    def fails(sub):
        if not G.valid(sub):
            return False
        try:
            # a candidate that hangs (e.g. a module text cut down to a declaration cycle) is not the failure looked for,
            # unless the signature itself is a hang: short limit, its own signature
            probs, st, *_ = check_script(impl, model, sub, timeout=RUN_LIMIT if sig.startswith('hang@') else SHRINK_LIMIT)
        except vlib.BuildError:
            return False
        return st == 'ok' and any(p[0] == sig for p in probs)
    if len(lines) > 60:
        # a long (fixed) history: first try the usual skeleton around each single module-creating line
        small = None
        pre = [l for l in lines if l.split()[1] in ('init', 'file', 'c2m_init')]
        for l in lines:
            w = l.split()
            if w[1] not in ('c2m', 'c2mo', 'scan', 'api', 'apim'):
                continue
            c = w[0]
            f = G.module_funcs(l)
            for tail in (['load', 'link interp'] + (['interp %s 7' % f[0]] if f else []), ['load', 'gen_init', 'opt 2', 'link gen'] +
                         (['call %s 7' % f[0]] if f else []) + ['gen_finish']):
                mine = [x for x in pre if x.split()[0] == c]
                cand = mine + [l] + ['%s %s' % (c, t) for t in tail + (['c2m_finish'] if c + ' c2m_init' in mine else []) + ['finish']]
                if fails(cand):
                    small = cand
                    break
            if small:
                break
        if small is None:
            return lines
        lines = small
    lines = vlib.shrink_list(lines, fails, max_steps=150)
    if sig.startswith('hang@'):
        # a hang is shrunk over whole script lines only: cutting inside module texts could turn the history into an
        # ill-formed module on which the library loops for a reason of its own (same signature, different cause)
        return lines
    return shrink_payloads(lines, fails)


def shrink_payloads(lines, fails, budget=160):
    """shrinks INSIDE the module-creating lines of an already short failing script: declarations of an `apim` list,
    text lines of a MIR module or of a C unit are dropped while the script stays a legal error-free history (a removal
    that makes the scanner / compiler / API report an error turns the run `not-error-free`, which `fails` rejects)
    and still shows the same signature"""
    for i, l in enumerate(lines):
        w = l.split(' ')
        if len(w) < 3 or w[1] not in ('apim', 'scan', 'c2m', 'c2mo'):
            continue
        if w[1] == 'apim':
            parts, join = w[3].split(','), (lambda ps, w=w: ' '.join(w[:3] + [','.join(ps)]))
        else:
            try:
                txt = G._unhex(w[-1]).decode()
            except Exception:
                continue
            parts, join = txt.split('\n'), (lambda ps, w=w: ' '.join(w[:-1] + [G.hexs('\n'.join(ps))]))
        if len(parts) < 2:
            continue
        used = [0]

        def f2(ps, i=i, join=join):
            used[0] += 1
            return used[0] <= budget and fails(lines[:i] + [join(ps)] + lines[i + 1:])
        small = vlib.shrink_list(parts, f2, max_steps=budget)
        if len(small) < len(parts):
            lines = lines[:i] + [join(small)] + lines[i + 1:]
        budget -= min(used[0], budget)
        if budget <= 0:
            break
    return lines


def _hull(writes):
    """per page (first, last) byte written, as sorted list of (addr, len)"""
    pages = {}
    for a, n in writes:
        if n == 0:
            continue
        x = a
        while x < a + n:
            pg = x // 4096
            end = min(a + n, (pg + 1) * 4096)
            lo, hi = pages.get(pg, (x, end - 1))
            pages[pg] = (min(lo, x), max(hi, end - 1))
            x = end
    return sorted((lo, hi - lo + 1) for lo, hi in pages.values())


def _norm(evs):
    """canonical form of one op's code events: non-write events in order + per-page hull of the writes"""
    other = [e for e in evs if not e.startswith('W ')]
    writes = [(int(e.split()[1]), int(e.split()[2])) for e in evs if e.startswith('W ')]
    return other, _hull(writes)


def ch_case(impl, model, ops):
    """run code-holder ops on the implementation and on the model; -> (None | (index, op, impl, model)), status"""
    lines = ['0 init', '0 ch_new 0'] + ['0 ch_' + o for o in ops] + ['0 finish']
    rc, out, err = run_script(impl, lines)
    traces, steps, results, notes = parse(out)
    if rc == 64:
        return None, 'invalid'       # ill-formed op list (can only come from shrinking)
    if rc != 0:
        return ('run', 'harness rc %d' % rc, notes[-3:], ''), 'crash'
    per_step = {}
    for ev, st, diag in traces.get(0, []):
        if ev.split()[0] in ('A', 'Z', 'PW', 'PX', 'W'):
            per_step.setdefault(st, []).append(ev)
    regs = [(int(e.split()[1]), int(e.split()[2])) for e in per_step.get(0, []) if e.startswith('A ')]
    res = [int(r.split()[2]) for r in results if r.startswith('R ch ')]
    if not regs or len(res) != len(ops) + 1:
        return ('run', 'unexpected harness output', notes[-3:], ''), 'crash'
    free0 = res[0]
    hs = []
    for i, (st, ln) in enumerate(reversed(regs)):
        ln = (ln + 4095) // 4096 * 4096
        hs += [st, free0 if i == 0 else st + ln, st + ln]
    mline = 'CH ' + ' '.join(map(str, hs)) + ' : ' + ' ; '.join(['new 0'] + ops + ['fin'])
    rcm, outm, errm = vlib.run_lines(model, [mline])
    if rcm != 0 or len(outm) != 1:
        raise vlib.BuildError('code-holder model driver failed: %s' % errm[-300:])
    mops = outm[0].split(' | ')
    if len(mops) != len(ops) + 2:
        raise vlib.BuildError('code-holder model driver: %d results for %d ops' % (len(mops), len(ops) + 2))
    for i, m in enumerate(mops[1:]):
        mres, mev = m.split(':', 1)
        mev = [e.strip() for e in mev.split(',') if e.strip()]
        iev = per_step.get(i + 2, [])
        ires = res[i + 1] if i < len(ops) else 0
        if i == len(ops):
            # finish: only the unmaps belong to the code-holder layer
            iev = [e for e in iev if e.startswith('Z ')]
        (io, iw), (mo, mw) = _norm(iev), _norm(mev)
        zero_len = i < len(ops) and ops[i].split()[0] in ('pub', 'puba', 'chg') and ops[i].split()[-1] == '0'
        if zero_len:
            # reloc_size 0 stores the 8 bytes of a pointer the harness does not control: only changed bytes are
            # observed, so the implementation's write must lie inside the model's
            same_w = all(any(a >= ma and a + n <= ma + mn for ma, mn in mw) for a, n in iw)
        else:
            same_w = iw == mw
        if io != mo or not same_w or (i < len(ops) and int(mres) != ires):
            return (i, (ops + ['fin'])[i], dict(result=ires, events=iev), dict(result=int(mres), events=mev)), 'diff'
    return None, 'ok'


def ch_judge(impl, model, ops):
    """the contract monitor's verdict on the implementation's own trace of a code-holder op script:
    None = accepted, else (signature, text, detail)"""
    lines = ['0 init', '0 ch_new 0'] + ['0 ch_' + o for o in ops] + ['0 finish']
    rc, out, err = run_script(impl, lines)
    if rc == 64:
        return None
    traces, steps, results, notes = parse(out)
    tr = traces.get(0, [])
    if rc != 0:
        return ('codeholder-crash', 'the library crashed (rc %d) on a code-holder op script' % rc, dict(notes=notes[-3:]))
    v = monitor(model, [';'.join(e[0] for e in tr)])[0]
    if not v.startswith('REJECT'):
        return None
    idx = int(v.split()[1])
    sig, what, detail = describe(impl, tr, idx, steps)
    detail['index'] = idx
    return ('codeholder:' + sig, what, detail)


def ch_correspond(chk, impl, model, n):
    """code-holder op scripts on the real functions and on the Coq model.  Every script is also a history of its own:
    the implementation's trace is judged by the contract monitor (a rejection is a concrete failing input).  A mere
    difference between model and implementation breaks the tie; it is reported as such (no failing input) only when
    no script's implementation trace is rejected."""
    rng = chk.rng('codeholder')
    diffs, concrete = [], {}
    for _ in range(n):
        ops = G.ch_script(rng, rng.choice([4, 10, 25, 60]))
        bad, status = ch_case(impl, model, ops)
        chk.count(('ch', ops), nontrivial=len(ops) >= 4)
        chk.dist('codeholder_cases', status)
        for o in ops:
            chk.dist('codeholder_ops', o.split()[0])
        if bad is not None:
            diffs.append((ops, bad, status))
            if len(concrete) < 3:
                j = ch_judge(impl, model, ops)
                if j is not None and j[0] not in concrete:
                    concrete[j[0]] = (ops, j)
    for sig, (ops, j) in sorted(concrete.items()):
        def rejects(sub, sig=sig):
            try:
                jj = ch_judge(impl, model, sub)
            except vlib.BuildError:
                return False
            return jj is not None and jj[0] == sig
        small = vlib.shrink_list(ops, rejects, max_steps=120)
        jj = ch_judge(impl, model, small) or j
        chk.finding(sig, dict(ops=small, detail=jj[2],
                              how='ops are run by harness/c17_alloc.c (ch_* commands on _MIR_publish_code & co.); its trace is judged by the verified monitor'),
                    'code-holder operations: ' + jj[1])
    for ops, bad, status in diffs[:2]:
        def fails(sub, status=status):
            try:
                b, st = ch_case(impl, model, sub)
            except vlib.BuildError:
                return False
            return b is not None and st == status and b[0] != 'run' or (st == 'crash' and status == 'crash')
        small = vlib.shrink_list(ops, fails, max_steps=150)
        b2, st2 = ch_case(impl, model, small)
        if b2 is None:
            small, b2 = ops, bad
        what = 'code holders (mir.c) and their verified model disagree at op %s: implementation %s, model %s' % (
            b2[1], json.dumps(b2[2])[:200], json.dumps(b2[3])[:200])
        replay_obj = dict(ops=small, at=b2[0], op=b2[1], implementation=b2[2], model=b2[3],
                          how='ops are run by harness/c17_alloc.c (ch_* commands on _MIR_publish_code & co.) and by the Coq model chstep')
        if concrete or status == 'crash':
            # the failing input is reported above; this is the broken tie that goes with it
            chk.finding('codeholder-%s:%s' % (status, str(b2[1]).split()[0]), replay_obj, what, no_input=status != 'crash' and not concrete)
        else:
            chk.finding('codeholder-%s:%s' % (status, str(b2[1]).split()[0]), replay_obj,
                        what + '; the contract monitor accepts the implementation traces of all %d scripts: only the '
                        'correspondence chstep = mir.c (theorem code_holder_traces_accepted) no longer checks' % n, no_input=True)
    return len(diffs) + len(concrete)


def asan_pass(chk, model, scen, seen_sigs):
    """a subset of the histories again under AddressSanitizer with freed user blocks poisoned (reads after free)"""
    impl, _ = build('asan')
    n = 0

    def one(s):
        return run_script(impl, s[0])
    with ThreadPoolExecutor(max_workers=4) as ex:
        for (lines, info), (rc, out, err) in zip(scen, ex.map(one, scen)):
            n += 1
            chk.dist('asan_runs', 'clean' if rc == 0 else 'rc%d' % rc)
            if 'AddressSanitizer' in err:
                kind = re.search(r'AddressSanitizer: ([a-z-]+)', err)
                frames = re.findall(r'#\d+ 0x[0-9a-f]+ in (\S+)', err)
                lib = [f for f in frames if not f.startswith('__') and f not in ('ck_free', 'ck_realloc', 'retire')][:1]
                sig = 'asan:%s@%s' % (kind.group(1) if kind else '?', lib[0] if lib else '?')
                if not kind or kind.group(1) not in ('use-after-poison', 'heap-use-after-free', 'double-free',
                                                     'attempting', 'alloc-dealloc-mismatch', 'bad-free'):
                    # another kind of memory error (e.g. an out-of-bounds access): not what C17 states; recorded, not judged
                    chk.notes.append('ASan report outside the property (not judged): %s; script: %s' % (sig, ' | '.join(short(lines))[:400]))
                    chk.dist('asan_other', sig)
                    continue
                if sig not in seen_sigs:
                    seen_sigs[sig] = None
                    chk.finding(sig, dict(script=lines, report=err[:3000]),
                                'AddressSanitizer (freed blocks of the checking allocator poisoned): %s in %s' % (
                                    kind.group(1) if kind else '?', lib[0] if lib else '?'))
    chk.log('asan pass: %d histories' % n)


C_ERRORS = {
    'syntax': 'long f1 (long n) { return n + ; }\n',
    'undeclared': 'long f1 (long n) { return n + undeclared_var; }\n',
    'missing-include': '#include "nonexistent.h"\nlong f1 (long n) { return n; }\n',
    'unterminated-macro-call': '#define A(x) x\nlong f1 (long n) { return A(n; }\n',
    'error-directive': '#error stop here\nlong f1 (long n) { return n; }\n',
    'unterminated-if': '#if 1\nlong f1 (long n) { return n; }\n',
    'type': 'struct s { int a; }; long f1 (long n) { struct s x; return x + n; }\n',
    'redeclaration': 'long f1 (long n) { int n; return n; }\nint f1;\n',
    'several': 'long f1 (long n) { return n + ; }\nlong g (long n) { return m; }\n#define X(\nint y = X;\nstruct { int a : 70; } s;\n',
}


def error_path_observations(chk, impl, model):
    """NOT judged (the property quantifies over error-free histories): a C unit with a diagnosed error (c2mir_compile
    returns 0), then a good unit, then the finish calls.  What the monitor says is recorded in the evidence only."""
    good = 'long f2 (long n) { return n * 2; }\n'
    obs = {}
    for k, src in sorted(C_ERRORS.items()):
        L = ['0 init', '0 c2m_init', '0 c2mx u1.c ' + G.hexs(src), '0 c2m u2.c ' + G.hexs(good), '0 c2m_finish', '0 load',
             '0 link interp', '0 interp f2 4', '0 finish']
        try:
            probs, status, *_ = check_script(impl, model, L)
        except vlib.BuildError as e:
            obs[k] = 'harness: %s' % str(e)[:80]
            continue
        obs[k] = 'clean' if status == 'ok' and not probs else (status if status != 'ok' else '; '.join('%s (%s)' % (p[0], p[1][:70]) for p in probs))
    chk.cov['error_path_observations_not_judged'] = obs
    dirty = {k: v for k, v in obs.items() if v != 'clean'}
    if dirty:
        chk.notes.append('histories with a diagnosed C error (outside the property: not judged): %s' % dirty)
    chk.log('error-path observations (not judged): %d clean, %d not: %s' % (len(obs) - len(dirty), len(dirty), sorted(dirty)))


def short(lines):
    return [l if len(l) < 90 else l[:70] + '...(%d hex chars)' % (len(l) - 70) for l in lines]


def coqchk(chk, mods):
    """thorough: re-check the compiled property files and everything they depend on with the independent checker"""
    rc, out, err = vlib.sh(['coqchk', '-silent', '-o', '-Q', '.', 'MirV'] + mods, cwd=vlib.COQDIR, timeout=2400)
    flat = ' '.join((out + err).split())
    ok = rc == 0 and '* Axioms: <none>' in flat
    chk.cov['trusted_base'].append('coqchk -o on %s: %s' % (' '.join(mods), 'no axioms, no assumed positivity/guard/type-in-type' if ok
                                                             else 'FAILED rc=%d %s' % (rc, flat[-300:])))
    chk.log('coqchk: %s' % ('ok, Axioms: <none>' if ok else 'FAILED'))
    return ok


def run(chk):
    quick = chk.tier == 'quick'
    r1 = chk.prove('Properties_C17')
    # the regenerated file is specific to the tree under test: keep concurrent runs against different trees
    # (VERIF_REPO) from interleaving between regeneration and proof
    with vlib.Lock('c17-sites'):
        sites = tr_c17_sites.generate()
        chk.log('sites: %d direct, %d MIR_realloc callers, %d callback uses' % (
            len(sites['direct']), len(sites['realloc_callers']), len(sites['callback_uses'])))
        r2 = chk.prove('Properties_C17_Sites')
    impl, model = build()
    chk.cov['trusted_base'] += [
        'extraction: ExtrOcamlBasic only; ocaml/driver_c17.ml parses events and prints the verdict of the extracted accepts/first_reject',
        'harness/c17_alloc.c: the checking MIR_alloc/MIR_code_alloc callbacks, the SIGSEGV handler, the --wrap interposition and the page diffing are trusted to log faithfully',
        'tools/tr_c17_sites.py (readelf -r over -O0 -ffunction-sections objects; regex over comment-stripped sources)',
        'OS: mprotect really prevents writes to READ|EXEC pages']
    scen = []
    corpus = os.path.join(vlib.VERIF, 'corpus', 'c17_scripts.jsonl')
    if os.path.exists(corpus):
        for l in open(corpus):
            if l.strip():
                j = json.loads(l)
                scen.append((j['script'], dict(ctxs=0, kinds=['corpus'])))
    scen += G.fixed_scenarios()
    rng = chk.rng('scen')
    n = 60 if quick else 4000
    for _ in range(n):
        scen.append(G.scenario(rng))

    def one(s):
        return check_script(impl, model, s[0])
    seen_sigs = {}
    tot_events = 0
    evkinds = {}
    result_tab = {}
    with ThreadPoolExecutor(max_workers=4) as ex:
        for (lines, info), (probs, status, traces, steps, results, notes) in zip(scen, ex.map(one, scen)):
            nev = sum(len(t) for t in traces.values())
            tot_events += nev
            chk.count(lines, nontrivial=status == 'ok' and nev >= 400)
            chk.dist('status', status)
            chk.dist('contexts', len(traces))
            for k in info['kinds']:
                chk.dist('scenario_parts', k)
            for t in traces.values():
                for e in t:
                    k = e[0].split()[0]
                    evkinds[k] = evkinds.get(k, 0) + 1
            for p in probs:
                # keep the shortest history showing the signature (the fixed histories are long)
                if p[0] not in seen_sigs or len(lines) < len(seen_sigs[p[0]][0]):
                    seen_sigs[p[0]] = (lines, p)
    nef = chk.cov.get('status', {}).get('not-error-free', 0)
    if nef:
        chk.notes.append('%d of %d generated histories raised a MIR error / failed to compile and were discarded' % (nef, len(scen)))
    if nef * 4 > len(scen):
        raise vlib.BuildError('%d of %d histories are not error-free: the scenario generator no longer matches the library' % (nef, len(scen)))
    for k, v in evkinds.items():
        chk.dist('events', EVNAMES.get(k, k), v)
    chk.cov['rule'] = ('each case is an API history (script for harness/c17_alloc.c) run on the real library with checking '
                      'allocators; its per-context allocator-call traces are decided by the extracted Coq monitor; a case is '
                      'non-trivial when it is error-free and produced >= 400 allocator events; distinct by script text. '
                      'total events judged: %d' % tot_events)
    chk.cov['evaluations_note'] = 'evaluations = API histories; events judged = %d' % tot_events
    for s in scen[:1] + scen[len(G.fixed_scenarios()):len(G.fixed_scenarios()) + 2]:
        chk.sample(' | '.join(short(s[0]))[:600])
    chk.log('%d histories, %d allocator events, %d distinct problem signatures' % (len(scen), tot_events, len(seen_sigs)))
    for nshr, (sig, (lines, (s, what, detail))) in enumerate(sorted(seen_sigs.items())):
        small = shrink(impl, model, lines, sig) if nshr < 6 else lines
        chk.finding(sig, dict(script=small, detail=detail,
                              how='./check C17 --replay <this file>  (feeds the script to harness/c17_alloc.c and the trace to the verified monitor)'),
                    what)
    nfix = len(scen) - n
    error_path_observations(chk, impl, model)
    asan_pass(chk, model, scen[:nfix] + scen[-(10 if quick else 150):], seen_sigs)
    nbad = ch_correspond(chk, impl, model, 150 if quick else 20000)
    if nbad:
        seen_sigs['codeholder'] = None
    if not quick and r1['ok'] and r2['ok'] and not coqchk(chk, ['MirV.Properties_C17', 'MirV.Properties_C17_Sites']):
        r1['ok'] = False
        r1['log'] += '\ncoqchk failed'
    broken = [r for r in (r1, r2) if not r['ok']]
    if broken and not seen_sigs:
        extra = ''
        if not r2['ok']:
            bad = [x for x in sites['direct'] if not (x[0] == 'mir' and x[1].startswith('default_'))]
            extra = ' direct sites not exercised by any history: %s' % bad[:8]
        chk.proof_broken(broken[0], searched='%d API histories (%d allocator events) all accepted by the monitor.%s' % (
            len(scen), tot_events, extra))
    elif broken:
        chk.notes.append('proof/tie broken as well: ' + ', '.join('%s:%s' % x for b in broken for x in vlib.coq_failed_units(b['log'])[:3]))


def replay(chk, path):
    j = json.load(open(path))
    impl, model = build()
    if 'ops' in j['replay'] and j.get('signature', '').startswith('codeholder:'):   # contract breach on a code-holder op script
        jj = ch_judge(impl, model, j['replay']['ops'])
        print('ops:', j['replay']['ops'])
        print('monitor:', 'accepted' if jj is None else jj[:2])
        return 1 if jj is not None else 0
    if 'ops' in j['replay']:            # code-holder correspondence case
        bad, status = ch_case(impl, model, j['replay']['ops'])
        print('ops:', j['replay']['ops'])
        print('status:', status, '' if bad is None else json.dumps(bad[1:], indent=1)[:1500])
        return 1 if bad is not None else 0
    if 'report' in j['replay']:         # AddressSanitizer pass
        rc, out, err = run_script(build('asan')[0], j['replay']['script'])
        print('rc', rc)
        print(err[:2500])
        return 1 if 'AddressSanitizer' in err else 0
    lines = j['replay']['script']
    probs, status, traces, steps, results, notes = check_script(impl, model, lines)
    for l in short(lines):
        print('  ' + l)
    print('status:', status)
    for sig, what, detail in probs:
        print('REJECTED:', sig, '--', what)
        print(json.dumps(detail, indent=1)[:1500])
    return 1 if probs else 0

# C01: generated machine code behaves like the interpreter at -O0..-O3.
# Reference = Coq definitional interpreter of pre-link MIR (coq/Mir/Sem.v, extracted), engines =
# MIR_interp and MIR_gen at every optimisation level (harness/c01_engines.c).  Theorems:
# coq/Properties_C01.v.  Shared with C04 (checks/c04.py imports this module).
import os, sys, json, copy, random, time
import vlib
sys.path.insert(0, os.path.join(vlib.VERIF, 'tools'))
import tr_opcodes
import gen_c01_prog as G

LEVEL = 'proof'
ENGINES = 'i,g0,g1,g2,g3'
MODEL_FUEL = 60000
INFRA = ('MIR-ERROR', 'HARNESS-ERROR', 'DRIVER-ERROR')


def opnum_table():
    names = tr_opcodes.opcodes()
    return {n: i for i, n in enumerate(names)}


def opcode_tie():
    """the committed coq/Mir/Opcode.v must list exactly the enumerators of the current mir.h"""
    try:
        return tr_opcodes.committed() == tr_opcodes.opcodes()
    except Exception:
        return False


def build(defs=(), variant='plain'):
    impl = vlib.build_harness('c01_engines', ['c01_engines.c'], variant=variant, defs=list(defs))
    model = vlib.ocaml_build('c01', 'Extract_C01', ['c01x'], 'driver_c01.ml')
    return impl, model


def run_model(model, lines):
    rc, out, err = vlib.run_lines(model, lines, timeout=1800)
    if rc != 0 or len(out) != len(lines):
        raise vlib.BuildError('model driver failed: rc=%d out=%d/%d %s' % (rc, len(out), len(lines), err[-400:]))
    bad = [o for o in out if o.startswith('DRIVER-ERROR')]
    if bad:
        raise vlib.BuildError('model driver could not parse a case: %s' % bad[0])
    return out


def parse_engines(line):
    d = {}
    for e in line.split('\t'):
        if '=' in e:
            k, v = e.split('=', 1)
            d[k] = v.rstrip()
    return d


def run_impl(impl, lines, timeout=3000):
    CURRENT_IMPL[0] = impl
    rc, out, err = vlib.run_lines(impl, lines, timeout=timeout)
    if rc != 0 or len(out) != len(lines):
        raise vlib.BuildError('engine harness failed: rc=%d out=%d/%d %s' % (rc, len(out), len(lines), err[-400:]))
    return [parse_engines(o) for o in out]


def run_impl_parallel(impl, lines, jobs=4):
    """split the cases over a few harness processes"""
    from concurrent.futures import ThreadPoolExecutor
    if len(lines) < 8:
        return run_impl(impl, lines)
    chunks = [lines[i::jobs] for i in range(jobs)]
    with ThreadPoolExecutor(max_workers=jobs) as ex:
        res = list(ex.map(lambda c: run_impl(impl, c) if c else [], chunks))
    out = [None] * len(lines)
    for j, r in enumerate(res):
        for k, v in enumerate(r):
            out[j + k * jobs] = v
    return out


def run_model_parallel(model, lines, jobs=4):
    from concurrent.futures import ThreadPoolExecutor
    if len(lines) < 8:
        return run_model(model, lines)
    chunks = [lines[i::jobs] for i in range(jobs)]
    with ThreadPoolExecutor(max_workers=jobs) as ex:
        res = list(ex.map(lambda c: run_model(model, c) if c else [], chunks))
    out = [None] * len(lines)
    for j, r in enumerate(res):
        for k, v in enumerate(r):
            out[j + k * jobs] = v
    return out


_SYMS = {}


def crash_site(impl, bt):
    """name of the innermost library function of a backtrace printed by the harness crash handler
    (offsets relative to crash_handler); '' when it cannot be resolved (e.g. crash in JIT code)"""
    try:
        if impl not in _SYMS:
            rc, out, err = vlib.sh(['nm', impl])
            base = None
            for l in out.split('\n'):
                w = l.split()
                if len(w) == 3 and w[2] == 'crash_handler':
                    base = int(w[0], 16)
            _SYMS[impl] = base
        base = _SYMS[impl]
        if base is None:
            return ''
        addrs = ['%x' % (base + int(x, 16)) for x in bt.split(',') if x]
        rc, out, err = vlib.sh(['addr2line', '-f', '-e', impl] + addrs)
        names = [n for n in out.split('\n')[0::2]
                 if n and n not in ('??', 'crash_handler')
                 and not n.startswith(('_', 'killpg', 'gsignal', 'raise', 'abort'))]
        chain = []
        for n in names:
            if n not in chain:
                chain.append(n)
        return '<'.join(chain[:3])
    except Exception:
        pass
    return ''


CURRENT_IMPL = [None]


def kind_of(v):
    """short stable kind of an engine observation that differs from the model's"""
    if v.startswith('HARNESS-ERROR oracle exhausted'):
        return 'extra-external-calls'     # the engine made more external calls than the reference run
    if v.startswith(INFRA):
        return v.split()[0]
    if v.startswith('OK'):
        return 'value'
    w = v.split()
    if w[0] == 'CRASH':
        k = 'CRASH-' + (w[1].replace('=', '') if len(w) > 1 else '')
        if 'bt=' in v and CURRENT_IMPL[0]:
            site = crash_site(CURRENT_IMPL[0], v.split('bt=', 1)[1].split()[0])
            k = 'CRASH-in-' + site if site else k + '-in-generated-code'
        if 'msg=' in v:
            m = v.split('msg=', 1)[1].split()
            if m[:5] == ['Fatal', 'failure', 'in', 'matching', 'insn:'] and len(m) > 5:
                k = 'CRASH-nomatch-' + m[5]
            elif m:
                k += '-' + '-'.join(x for x in m[:4] if x.isalpha())
        return k
    return w[0]


def classify(model_obs, eng):
    """'' if all engines agree with the model; else a short category 'engine:kind ...'"""
    cats = []
    for k in sorted(eng):
        v = eng[k]
        if v == model_obs:
            continue
        cats.append(k + ':' + kind_of(v))
    return ' '.join(cats)


# crash sites of recorded (not repaired) defects: a generated program whose ONLY disagreement is a crash
# at such a site in MIR_gen -O2/-O3 is the recorded defect again, reported under its known signature
KNOWN_CRASH_SITES = {
    # keyed by the two innermost frames
    'move_p<process_bb_conflicts': 'known:coalesce-walks-off-insn-list',
}


def known_signature(cat):
    sigs = set()
    for c in cat.split():
        eng, kind = c.split(':', 1)
        if eng not in ('g2', 'g3') or not kind.startswith('CRASH-in-'):
            return None
        sigs.add(KNOWN_CRASH_SITES.get('<'.join(kind[len('CRASH-in-'):].split('<')[:2])))
    return sigs.pop() if len(sigs) == 1 and None not in sigs else None


def is_violation_cat(cat):
    """a disagreement that is about the property (not a harness/MIR rejection of the program)"""
    return any(not c.split(':', 1)[1] in INFRA for c in cat.split())


# ---- shrinking ------------------------------------------------------------------------------------

def remove_insns(prog, victims):
    """copy of prog without the instructions (funcname, index) in victims"""
    q = copy.copy(prog)
    q.items = []
    for it in prog.items:
        if it[0] != 'func':
            q.items.append(it)
            continue
        f = it[1]
        g = copy.copy(f)
        g.body = [ins for i, ins in enumerate(f.body) if (f.name, i) not in victims]
        q.items.append(('func', g))
    return q


def shrink_prog(prog, impl, model, opnum, engines, want, max_steps=250):
    """delta debugging over instructions: keep only what is needed for the program to stay
    well-defined (model says OK) and for some engine to disagree with the model in the same way"""
    units = []
    for it in prog.items:
        if it[0] == 'func':
            for i, ins in enumerate(it[1].body):
                if ins.op not in ('label', 'ret', 'jmpi'):   # every function keeps its labels, returns, indirect jumps
                    units.append((it[1].name, i))
    want_kind = set(c.split(':', 1)[1] for c in want.split())

    def fails(keep):
        victims = set(units) - set(keep)
        q = remove_insns(prog, victims)
        try:
            mo = run_model(model, [q.model_line(opnum, MODEL_FUEL)])[0]
        except vlib.BuildError:
            return False
        if not mo.startswith('OK'):
            return False
        try:
            eng = run_impl(impl, [q.harness_line(engines)], timeout=120)[0]
        except vlib.BuildError:
            return False
        cat = classify(mo, eng)
        if not cat or not is_violation_cat(cat):
            return False
        return bool(set(c.split(':', 1)[1] for c in cat.split() if c.split(':', 1)[1] not in INFRA) & want_kind)
    keep = vlib.shrink_list(units, fails, max_steps=max_steps)
    return remove_insns(prog, set(units) - set(keep))


def strip_unused(prog):
    """drop local declarations that are no longer used (cosmetic)"""
    for it in prog.items:
        if it[0] != 'func':
            continue
        f = it[1]
        used = set()
        for ins in f.body:
            for o in ins.ops:
                if isinstance(o, G.R): used.add(o.name)
                if isinstance(o, G.Mem):
                    used.add(o.base); used.add(o.index)
        f.locals = [(t, n) for t, n in f.locals if n in used]
    return prog


def replay_obj(prog, opnum, engines, mo, eng, defs=()):
    return dict(mir_text=prog.text(), model_line=prog.model_line(opnum, MODEL_FUEL),
                harness_line=prog.harness_line(engines), model=mo, engines=eng, lib_defs=list(defs),
                how='feed harness_line to the c01_engines harness built from $VERIF_REPO and model_line to the '
                    'extracted reference interpreter; ./check %s --replay <this file>')


def signature(cat, prog):
    import hashlib
    return 'diff:' + cat.replace(' ', ',') + ':' + hashlib.sha1(prog.text().encode()).hexdigest()[:10]


# ---- corpus ---------------------------------------------------------------------------------------

def corpus_cases(name):
    """corpus/<name>/*.json: saved replay objects (model_line + harness_line)"""
    d = os.path.join(vlib.VERIF, 'corpus', name)
    out = []
    if os.path.isdir(d):
        for fn in sorted(os.listdir(d)):
            if fn.endswith('.json'):
                try:
                    j = json.load(open(os.path.join(d, fn)))
                    out.append((fn, j['model_line'], j['harness_line']))
                except Exception:
                    pass
    return out


# ---- the differential run -------------------------------------------------------------------------

def differential(chk, impl, model, progs, engines, label, defs=(), max_report=3):
    """run the programs on the reference interpreter and on the engines; report findings.
    returns (n_well_defined, n_divergent)"""
    opnum = opnum_table()
    t0 = time.time()
    mlines = [p.model_line(opnum, MODEL_FUEL) for p in progs]
    mo = run_model_parallel(model, mlines)
    ok = [i for i, o in enumerate(mo) if o.startswith('OK')]
    for i, o in enumerate(mo):
        chk.dist(label + ':model-verdict', o.split()[0] + (' ' + o.split()[1] if o.startswith('STUCK') else ''))
    chk.log('%s: %d programs, %d well-defined (reference interpreter %.1fs)' % (label, len(progs), len(ok), time.time() - t0))
    t0 = time.time()
    eng = run_impl_parallel(impl, [progs[i].harness_line(engines) for i in ok])
    chk.log('%s: engines %s done (%.1fs)' % (label, engines, time.time() - t0))
    ndiv = 0
    for i, e in zip(ok, eng):
        p = progs[i]
        chk.count(p.text(), nontrivial=True, n=len(e))
        for ft in p.features:
            chk.dist(label + ':features', ft)
        cat = classify(mo[i], e)
        if not cat:
            continue
        if not is_violation_cat(cat):
            # the library rejected a generated program: generator/model problem, not a property verdict
            chk.dist(label + ':rejected-by-mir', cat)
            chk.notes.append('%s: program rejected by MIR (%s): %s' % (label, cat, list(e.values())[0][:200]))
            continue
        ks = known_signature(cat)
        if ks is not None:
            chk.dist(label + ':recorded-defect-hit', ks)
            chk.finding(ks, replay_obj(p, opnum, engines, mo[i], e, defs),
                        '%s: recorded defect reproduced by a generated program (%s)' % (label, cat))
            continue
        ndiv += 1
        if ndiv > max_report:
            continue
        chk.log('%s: DIVERGENCE %s — shrinking' % (label, cat))
        small = strip_unused(shrink_prog(p, impl, model, opnum, engines, cat))
        smo = run_model(model, [small.model_line(opnum, MODEL_FUEL)])[0]
        seng = run_impl(impl, [small.harness_line(engines)])[0]
        scat = classify(smo, seng)
        chk.finding(signature(scat, small), replay_obj(small, opnum, engines, smo, seng, defs),
                    '%s: engines disagree with the reference semantics of the program as written (%s)' % (label, scat))
    return len(ok), ndiv


def run_corpus(chk, impl, model, name, engines, defs=()):
    cases = corpus_cases(name)
    if not cases:
        return 0
    mo = run_model(model, [c[1] for c in cases])
    eng = run_impl(impl, [c[2].replace(c[2].split(' ', 1)[0], engines, 1) for c in cases])
    for (fn, ml, hl), m, e in zip(cases, mo, eng):
        chk.count(('corpus', fn), nontrivial=True, n=len(e))
        if not m.startswith('OK'):
            chk.notes.append('corpus case %s no longer well-defined in the model: %s' % (fn, m))
            continue
        cat = classify(m, e)
        if cat and is_violation_cat(cat):
            chk.finding('corpus:' + fn + ':' + cat.replace(' ', ','),
                        dict(model_line=ml, harness_line=hl, model=m, engines=e, lib_defs=list(defs)),
                        'corpus case %s: engines disagree with the reference semantics (%s)' % (fn, cat))
    return len(cases)


def run_known(chk, impl, model, name, engines):
    """corpus/<name>-known/*.json: reproducers of genuine defects that are recorded, not repaired
    (KNOWN_FINDINGS.txt, signature known:<file>).  A reproducer that still diverges is reported through
    chk.finding (KNOWN-FINDING when listed, VIOLATION otherwise); one that agrees again is noted."""
    cases = corpus_cases(name + '-known')
    if not cases:
        return
    mo = run_model(model, [c[1] for c in cases])
    eng = run_impl(impl, [c[2].replace(c[2].split(' ', 1)[0], engines, 1) for c in cases])
    for (fn, ml, hl), m, e in zip(cases, mo, eng):
        chk.count(('known', fn), nontrivial=True, n=len(e))
        cat = classify(m, e) if m.startswith('OK') else ''
        if cat and is_violation_cat(cat):
            chk.finding('known:' + fn[:-5], dict(model_line=ml, harness_line=hl, model=m, engines=e),
                        'recorded defect %s reproduces (%s)' % (fn[:-5], cat))
        else:
            chk.notes.append('known finding %s did not reproduce' % fn)


GEN_OPTS = dict()   # C01 runs the generator with its defaults


def gen_programs(chk, salt, n, opts=None):
    rng = chk.rng(salt)
    progs = []
    for i in range(n):
        sub = random.Random(rng.getrandbits(64))
        progs.append(G.gen_program(sub, opts))
    return progs


def run(chk):
    quick = chk.tier == 'quick'
    tie = opcode_tie()
    import tr_c01_phival
    phi_ok, phi_msg = tr_c01_phival.regenerate()     # coq/gen/C01PhiVal.v (git-ignored) before the proofs
    r = chk.prove()
    impl, model = build()
    chk.cov['trusted_base'] += [
        'extraction: ExtrOcamlBasic only, no Extract Constant/Inductive of our own',
        'ocaml/driver_c01.ml, harness/c01_engines.c (parse + run + print), tools/gen_c01_prog.py',
        'coq/Mir/Opcode.v tied to mir.h by tools/tr_opcodes.py (checked every run)',
        'tools/tr_c01_phival.py (regex over the body of gvn_phi_val in mir-gen.c: which of flag / number the scan compares)',
        'NOT proved: CFG/SSA/GVN structure, copy-prop, DSE, DCE, LICM, RA, combine, x86 encoder (differential run only)']
    n = 800 if quick else 3000
    run_corpus(chk, impl, model, 'c01', ENGINES)
    run_known(chk, impl, model, 'c01', ENGINES)
    progs = gen_programs(chk, 'c01', n, GEN_OPTS)
    nwd, ndiv = differential(chk, impl, model, progs, ENGINES, 'gen')
    chk.cov['rule'] = ('seeded well-defined MIR programs (tools/gen_c01_prog.py) run by the extracted Coq reference '
                      'interpreter, MIR_interp and MIR_gen -O0..-O3; compared: results, final bytes of writable '
                      'regions, ordered external-call log; an evaluation = one (program, engine) pair; a program '
                      'counts only when the reference interpreter finishes without Stuck; distinct by program text')
    for p in progs[:2]:
        chk.sample(p.text()[:1500])
    if not tie:
        chk.finding('opcode-tie', dict(what='coq/Mir/Opcode.v does not list the enumerators of mir.h'),
                    'opcode enumeration of mir.h changed: the model no longer matches the source', no_input=True)
    if not phi_ok:
        chk.notes.append('phi value translator: ' + phi_msg)
    if not r['ok'] and ndiv == 0:
        chk.proof_broken(r, searched='%d well-defined programs agreed on all engines; %s' % (nwd, phi_msg))


def replay(chk, path):
    j = json.load(open(path))['replay']
    impl, model = build(defs=j.get('lib_defs', ()))
    mo = run_model(model, [j['model_line']])[0]
    eng = run_impl(impl, [j['harness_line']])[0]
    print('model :', mo)
    for k in sorted(eng):
        print('%-6s:' % k, eng[k], '' if eng[k] == mo else '   <-- differs')
    cat = classify(mo, eng)
    return 1 if cat and is_violation_cat(cat) else 0


def save_corpus(dirname, name, prog, note=''):
    opnum = opnum_table()
    d = os.path.join(vlib.VERIF, 'corpus', dirname)
    os.makedirs(d, exist_ok=True)
    with open(os.path.join(d, name + '.json'), 'w') as f:
        json.dump(dict(note=note, mir_text=prog.text(), model_line=prog.model_line(opnum, MODEL_FUEL),
                       harness_line=prog.harness_line(ENGINES)), f, indent=1)


if __name__ == '__main__' and sys.argv[1] == '--add-corpus':
    # python3 checks/c01.py --add-corpus <dir> <name> <file.mir> [note]
    prog = G.parse_text(open(sys.argv[4]).read())
    save_corpus(sys.argv[2], sys.argv[3], prog, ' '.join(sys.argv[5:]))
    impl, model = build()
    mo = run_model(model, [prog.model_line(opnum_table(), MODEL_FUEL)])[0]
    eng = run_impl(impl, [prog.harness_line(ENGINES)])[0]
    print('model :', mo[:150])
    for k in sorted(eng):
        print('%-6s:' % k, eng[k][:150], '' if eng[k] == mo else '   <-- differs')
    sys.exit(0)

if __name__ == '__main__':
    # debugging aid: python3 checks/c01.py <seed> [shrink]
    seed = int(sys.argv[1])
    impl, model = build()
    opnum = opnum_table()
    p = G.gen_program(random.Random(seed))
    # (seed here is the raw generator seed, as in /var/tmp/c01_try.py)
    mo = run_model(model, [p.model_line(opnum, MODEL_FUEL)])[0]
    eng = run_impl(impl, [p.harness_line(ENGINES)])[0]
    cat = classify(mo, eng)
    print('category:', cat)
    if cat and len(sys.argv) > 2:
        s = strip_unused(shrink_prog(p, impl, model, opnum, ENGINES, cat))
        print(s.text())
        mo = run_model(model, [s.model_line(opnum, MODEL_FUEL)])[0]
        eng = run_impl(impl, [s.harness_line(ENGINES)])[0]
        print('model :', mo)
        for k in sorted(eng):
            print('%-6s:' % k, eng[k])
        open('/var/tmp/c01_last_%d.json' % seed, 'w').write(json.dumps(replay_obj(s, opnum, ENGINES, mo, eng)))

# C18: independent contexts can be used from different threads without interference.
#  proofs : coq/Properties_C18.v (noninterference, steps_commute: generic),
#           coq/Properties_C18_Statics.v (no_conflicting_access etc. over the list regenerated from the tree)
#           coq/Properties_C18_CtxInit.v (init establishes every context field: behaviour independent of the heap contents)
#  tie    : tools/tr_c18_statics.py, tools/tr_c18_ctxinit.py (every run)
#  search : harness/c18_threads.c under ThreadSanitizer, N threads x own context x seeded API scripts, results
#           compared with the sequential run
import os, sys, json, re, hashlib, time
import vlib

sys.path.insert(0, os.path.join(vlib.VERIF, 'tools'))
import tr_c18_statics, tr_c18_ctxinit, gen_c17_scen as G, gen_c17_csrc as CS, gen_c17_cgen as CG

LEVEL = 'proof'
TSAN_ENV = {'TSAN_OPTIONS': 'halt_on_error=0 report_signal_unsafe=0 exitcode=66 history_size=4'}


def build():
    # harness/c17_api.h is #included, not listed as a source: its hash goes into the flags so that an edit rebuilds
    hh = vlib.file_hash([os.path.join(vlib.VERIF, 'harness', 'c17_api.h')])
    return vlib.build_harness('c18_threads', ['c18_threads.c'], variant='tsan', units=('mir', 'mir-gen', 'c2mir'),
                              extra_flags=['-DC17_API_H_HASH=0x' + hh[:8]])


def build_ro():
    """the library as a shared object of its own (its statics get pages of their own) + harness/c18_rostatics.c"""
    d, objs = vlib.build_repo('plain', ('mir', 'mir-gen', 'c2mir'), defs=['-fPIC'])
    so = os.path.join(d, 'libmirv.so')
    with vlib.Lock('so-' + os.path.basename(os.path.dirname(d))):
        if not os.path.exists(so):
            rc, out, err = vlib.sh(['gcc', '-shared', '-o', so + '.tmp'] + objs + ['-Wl,-z,relro,-z,now', '-lm', '-ldl', '-lpthread'],
                                   timeout=600)
            if rc != 0:
                raise vlib.BuildError('linking libmirv.so failed: ' + (out + err)[-1500:])
            os.rename(so + '.tmp', so)
    hh = vlib.file_hash([os.path.join(vlib.VERIF, 'harness', 'c17_api.h')])
    exe = vlib.build_harness('c18_rostatics', ['c18_rostatics.c'], variant='plain', units=(),
                             extra_flags=['-DC17_API_H_HASH=0x' + hh[:8]],
                             libs=(so, '-Wl,-rpath,' + d, '-lm', '-ldl', '-lpthread'))
    return exe, so


def so_symbols(so):
    """[(offset, size, name)] of the data objects of the shared object, sorted"""
    rc, out, err = vlib.sh(['nm', '-n', '-S', '--defined-only', so], check=True)
    syms = []
    for l in out.split('\n'):
        p = l.split()
        if len(p) == 4 and p[2] in 'bBdDrRsS':
            syms.append((int(p[0], 16), int(p[1], 16), p[3]))
    return syms


def corpus_scripts(chk, quick):
    """compile-only scripts for the read-only-statics pass: (a) generated C units (tools/gen_c17_cgen.py: every expression
    kind x operand types, conditionals over void / qualified pointers, alloca, label addresses), (b) the C files of the
    tree's own c-tests directory -- all of them in the thorough tier, a deterministic seed-dependent sample in quick.
    Foreign files are compiled with `c2mt` (accepted or diagnosed: both fine, the pass looks at stores to statics only)."""
    import glob
    H = G.hexs
    scripts = []

    def pack(units, per_ctx=12, per_script=48):
        for i in range(0, len(units), per_script):
            L = []
            for j in range(i, min(i + per_script, len(units)), per_ctx):
                L += ['init', 'c2m_init'] + ['c2mt t%d.c %s' % (k, H(units[k])) for k in range(j, min(j + per_ctx, len(units), i + per_script))]
                L += ['c2m_finish', 'finish']
            scripts.append(L)
    rng = chk.rng('ro-cgen')
    gen = [CG.c_unit(rng)[1].replace('@N@', 'g%d' % i) for i in range(60 if quick else 1500)]
    # units of declaration histories (tools/gen_c17_decl.py): redeclarations make the checker build composite types and
    # complete recorded ones in place -- stores that could land in a shared static type object
    import gen_c17_decl as DCL
    rng2 = chk.rng('ro-redecl')
    gen += [DCL.c_redecl_unit(rng2)[1].replace('@N@', 'r%d' % i) for i in range(24 if quick else 500)]
    pack(gen)
    files = []
    for f in sorted(glob.glob(os.path.join(vlib.REPO, 'c-tests', '*', '*.c'))):
        try:
            if os.path.getsize(f) < 200000:
                files.append(f)
        except OSError:
            pass
    if quick and files:
        step = max(1, len(files) // 150)
        files = files[chk.seed % step::step]
    units = []
    for f in files:
        try:
            txt = open(f, errors='replace').read()
        except OSError:
            continue
        if '\0' not in txt:
            units.append(txt)
    pack(units)
    chk.cov['ro_statics_corpus'] = dict(generated_units=len(gen), c_tests_files=len(units))
    return scripts


def ro_statics_pass(chk, scripts):
    """every script in one thread with the library's writable data pages made read-only: any store to a library static
    (also through a pointer the translator cannot follow) is reported.  -> {object name: (script, detail)}"""
    exe, so = build_ro()
    syms = so_symbols(so)
    found = {}
    nrun = 0
    if not hasattr(chk, 'ro_crashes'):
        chk.ro_crashes = []
    for sc in scripts:
        rc, out, err = vlib.sh([exe], input=('\n'.join(sc) + '\nend\n').encode(), timeout=300)
        nrun += 1
        chk.dist('ro_statics_runs', 'ok' if rc == 0 else 'rc%d' % rc)
        if 'X PROTECTED' not in out:
            raise vlib.BuildError('c18_rostatics did not protect the library data: %s' % (out + err)[-300:])
        if rc == 124:
            # a spinning child is an outcome of its own (not a build error): reported by the caller with the script as replay
            chk.ro_hangs = getattr(chk, 'ro_hangs', []) + [sc]
            continue
        if rc not in (0, 65) and 'X STATIC-WRITE' not in out:
            # a crash of the single-threaded run says nothing about statics; it must not hide what the thread sets found
            # on a broken tree: judged by the caller (build error only if nothing else was found)
            chk.ro_crashes.append('c18_rostatics failed (rc %d): %s' % (rc, (out + err)[-400:]))
            continue
        for l in out.split('\n'):
            if l.startswith('R c2mt '):
                chk.dist('ro_corpus_units', l.split()[-1])
            m = re.match(r'^X STATIC-WRITE ([0-9a-f]+) pc ([0-9a-f]+)', l)
            if not m:
                continue
            off, pc = int(m.group(1), 16), int(m.group(2), 16)
            name = next((n for a, sz, n in syms if a <= off < a + max(sz, 1)), None) or 'offset-0x%x' % off
            fn = '?'
            if pc:
                rc2, o2, _ = vlib.sh(['addr2line', '-f', '-e', so, hex(pc)])
                fn = o2.split('\n')[0] if o2 else '?'
            found.setdefault(name, (sc, dict(object=name, so_offset=hex(off), written_by=fn,
                                             how='library linked as libmirv.so, its .data/.bss made read-only, script run by harness/c18_rostatics.c')))
    chk.log('read-only statics pass: %d scripts, %d written objects %s' % (nrun, len(found), sorted(found)))
    # shrink the witnesses: drop script lines while the history stays legal and the object is still written
    for name, (sc, detail) in list(found.items())[:3]:
        def still(sub, name=name):
            if not G.valid(['0 ' + l for l in sub]):
                return False
            try:
                rc, out, err = vlib.sh([exe], input=('\n'.join(sub) + '\nend\n').encode(), timeout=120)
            except Exception:
                return False
            for l in out.split('\n'):
                m = re.match(r'^X STATIC-WRITE ([0-9a-f]+) pc', l)
                if m:
                    off = int(m.group(1), 16)
                    if (next((n for a, sz, n in syms if a <= off < a + max(sz, 1)), None) or 'offset-0x%x' % off) == name:
                        return True
            return False
        if len(sc) > 3 and still(sc):
            found[name] = (vlib.shrink_list(sc, still, max_steps=80), detail)
    return found


def run_set(exe, threads, reps, mode, alloc='default', timeout=600):
    lines = ['threads %d reps %d mode %s alloc %s' % (len(threads), reps, mode, alloc)]
    for tid, sc in enumerate(threads):
        lines += ['%d %s' % (tid, l) for l in sc]
    lines.append('end')
    rc, out, err = vlib.sh([exe], input=('\n'.join(lines) + '\n').encode(), timeout=timeout, env=TSAN_ENV)
    return rc, out, err, lines


def per_thread(out):
    res = {}
    for l in out.split('\n'):
        m = re.match(r'^T(\d+) (.*)$', l)
        if m:
            res.setdefault(int(m.group(1)), []).append(m.group(2))
    return res


def parse_tsan(err):
    """-> list of dict(kind, location, frames, text)"""
    reps = []
    for blk in err.split('=================='):
        if 'ThreadSanitizer' not in blk or 'WARNING' not in blk:
            continue
        kind = re.search(r'WARNING: ThreadSanitizer: ([^\n(]+)', blk).group(1).strip()
        loc = re.search(r"Location is global '([^']+)'", blk)
        tops = re.findall(r'\n\s+(?:Write|Read|Previous write|Previous read|Atomic[^\n]*?)[^\n]*:\n\s+#0 (\S+) (\S+)', blk)
        frames = sorted({'%s@%s' % (f, os.path.basename(p).split(' ')[0]) for f, p in tops})
        funcs = sorted({f for f, _ in tops})
        if loc:
            sig = 'race:global:' + loc.group(1)
        elif funcs:
            sig = 'race:' + '/'.join(funcs)
        else:
            sig = 'tsan:' + kind.replace(' ', '-')
        reps.append(dict(kind=kind, location=loc.group(1) if loc else None, frames=frames, sig=sig, text=blk.strip()[:3000]))
    return reps


def focused_sets(rng):
    """thread sets aimed at one phase each: every thread does the same kind of work"""
    H = G.hexs
    sets = []
    n = [0]

    def nm():
        n[0] += 1
        return 'q%d' % n[0]
    # context creation / destruction only
    sets.append(('init-finish', [['init', 'finish']] * 4, 6))
    # generator init/finish and generation of a small function
    def gen_script(level, iface):
        x = nm()
        return ['init', 'scan ' + H(G.MIR_POOL[0].replace('@N@', x)), 'scan ' + H(G.MIR_POOL[2].replace('@N@', x + 'b')),
                'load', 'gen_init', 'opt %d' % level, 'link ' + iface, 'gen f' + x, 'call f%s 9' % x, 'call f%sb 3' % x,
                'gen_finish', 'finish']
    sets.append(('gen', [gen_script(l, i) for l, i in ((0, 'gen'), (2, 'gen'), (1, 'lazy'), (3, 'lazybb'))], 3))
    # interpreter
    def interp_script():
        x = nm()
        return ['init', 'scan ' + H(G.MIR_POOL[1].replace('@N@', x)), 'api 7 2', 'load', 'link interp', 'interp f%s 5' % x,
                'interp apif7 11', 'output', 'finish']
    sets.append(('interp', [interp_script() for _ in range(4)], 3))
    # C compiler
    def c2m_script(k):
        L = ['init'] + ['file %s %s' % (hn, H(CS.HEADERS[hn])) for hn in sorted(CS.HEADERS)] + ['c2m_init']
        fs = []
        for i in range(k, k + 4):
            x = nm()
            L.append('c2m u%s.c %s' % (x, H(G.C_POOL[i % len(G.C_POOL)].replace('@N@', x))))
            fs.append('f' + x)
        units = [u for u in CS.UNITS if u[0] not in G.EXCLUDE_TAGS]
        for i in range(k, k + 5):
            tag, src, need = units[i % len(units)]
            x = nm()
            extra = [['v'], ['asm'], ['obj'], ['d']][i % 4]
            if 'd' in extra and not G.debug_ok(src):
                extra = ['w']
            L.append('c2mo u%s.c %s %s' % (x, ','.join([o for o in [need.replace('@N@', x)] if o] + extra),
                                           H(src.replace('@N@', x))))
            fs.append('f' + x)
        L += ['c2m_finish', 'load', 'link interp'] + ['interp %s 6' % f for f in fs] + ['finish']
        return L
    sets.append(('c2mir', [c2m_script(k) for k in (0, 3, 6, 9)], 2))
    # binary / text IO
    def io_script(k):
        x, y = nm(), nm()
        big = G.stress_module(rng, y, rng.choice([60, 150]))
        rd, rd2 = (('read', 'fread'), ('fread', 'read'))[k % 2]
        return ['init', 'scan ' + H(G.MIR_POOL[1].replace('@N@', x)), 'api 3 1', 'scan ' + H(big), 'fwmod 1', 'wmod 2', 'fwrite',
                'output', 'outmod 2', 'outitems 0', 'write', 'finish',
                # a second context of the same thread reads the image back (twice: both reader variants) and runs it
                'init', rd, 'load', 'link interp', 'interp f%s 5' % x, 'interp apif3 4', 'interp f%s 3' % y, 'write', 'finish',
                'init', rd2, 'load', 'gen_init', 'opt %d' % (k % 4), 'link gen', 'call f%s 2' % y, 'call f%s 7' % x, 'gen_finish',
                'finish']
    sets.append(('io', [io_script(k) for k in range(4)], 2))
    # code pages: all contexts take their holders from one arena (neighbouring pages), publish code that ends exactly at
    # the end of a page, patch and run it; every protection change must stay inside the context's own pages
    def code_script(iface):
        x = nm()
        L = ['init', 'scan ' + H(G.MIR_POOL[0].replace('@N@', x)), 'load']
        if iface != 'interp':
            L += ['gen_init', 'opt 1']
        L += ['link ' + iface, 'fill', ('interp f%s 4' if iface == 'interp' else 'call f%s 4') % x, 'fill', 'patchend',
              'scan ' + H(G.MIR_POOL[2].replace('@N@', x + 'c')), 'load', 'link ' + iface,
              ('interp f%sc 5' if iface == 'interp' else 'call f%sc 5') % x, 'patchend']
        L += (['gen_finish'] if iface != 'interp' else []) + ['finish']
        return L
    sets.append(('codepages@arena', [code_script(i) for i in ('interp', 'gen', 'lazy', 'interp', 'lazybb', 'gen')], 3))
    sets.append(('ctxinit', ctxinit_scripts(nm), 2))
    return sets


def ctxinit_scripts(nm):
    """scripts whose observable behaviour depends on option state of the context and its sub-contexts: each runs a
    'dirty' context first (options set away from their defaults: redefinition permitted, optimize level, debug level),
    finishes it, and then uses fresh contexts with DEFAULT options.  Run under every heap fill (FILLS): a default that
    init does not establish itself shows as a difference between the fills."""
    H = G.hexs

    def two_defs(x):
        # two modules exporting the same function: rejected (repeated declaration) unless redefinition is permitted
        m = 'm%s%%d: module\n export f%s\n f%s: func i64, i64:a\n local i64:r\n add r, a, %%d\n ret r\n endfunc\n endmodule\n' % (x, x, x)
        return [m % (1, 1), m % (2, 2)]

    def dirty(x, level, redef=1):
        return ['init', 'redef %d' % redef, 'flags', 'scan ' + H(G.MIR_POOL[0].replace('@N@', x)), 'load', 'gen_init',
                'opt %d' % level, 'gen_dbg 1', 'link gen', 'gen f' + x, 'call f%s 3' % x, 'gen_finish', 'finish']
    out = []
    # (a) redefinition permission: default context after a permissive one
    x, y = nm(), nm()
    a, b = two_defs(y)
    out.append(dirty(x, 0) + ['init', 'flags', 'scan ' + H(a), 'scan ' + H(b), 'load', 'link interp', 'interp f%s 5' % y, 'finish'])
    # (b) permitted redefinition in the SECOND context only, default again in the third
    x, y, z = nm(), nm(), nm()
    a, b = two_defs(y)
    a2, b2 = two_defs(z)
    out.append(['init', 'flags', 'finish', 'init', 'redef 1', 'flags', 'scan ' + H(a), 'scan ' + H(b), 'load', 'link interp',
                'interp f%s 5' % y, 'finish', 'init', 'flags', 'scan ' + H(a2), 'load', 'scan ' + H(b2), 'load', 'finish'])
    # (c) generator defaults (optimize level, debug state) after generators with other settings, every interface
    for lv, iface in ((0, 'gen'), (3, 'lazy'), (1, 'lazybb'), (2, 'lazy')):
        x, y = nm(), nm()
        dbg = iface != 'lazybb'   # a whole-function MIR_gen of a function under the lazy-BB interface mixes two modes
        out.append(dirty(x, lv, redef=lv & 1) + ['init', 'flags', 'scan ' + H(G.MIR_POOL[2].replace('@N@', y)),
                                                 'scan ' + H(G.MIR_POOL[0].replace('@N@', y + 'd')), 'load', 'gen_init', 'link ' + iface]
                   + (['dbglines f' + y] if dbg else []) + ['call f%s 7' % y, 'call f%sd 2' % y, 'gen_finish']
                   + (['gen_init', 'dbglines f%sd' % y, 'gen_finish'] if dbg else []) + ['finish'])
    # (d) interpreter and IO state of a fresh context after a context that used them
    x, y = nm(), nm()
    out.append(['init', 'redef 1', 'scan ' + H(G.MIR_POOL[1].replace('@N@', x)), 'api 5 1', 'write', 'load', 'link interp', 'interp f%s 5' % x,
                'finish', 'init', 'flags', 'scan ' + H(G.MIR_POOL[1].replace('@N@', y)), 'load', 'link interp',
                'interp f%s 6' % y, 'output', 'finish', 'init', 'read', 'load', 'link interp', 'interp f%s 5' % x, 'interp apif5 3',
                'finish'])
    return out


FILLS = ('p00', 'pff', 'p5a', 'dirty')


def fill_pass(chk, exe, name, th, found):
    """the scripts one after another under a data allocator that pre-fills every block with 0x00 / 0xff / 0x5a or hands
    out the blocks of finished contexts again (dirty): identical per-thread output is required"""
    ref = None
    for fill in FILLS:
        alloc = fill + ('+arena' if name.endswith('@arena') else '')
        rc, out, err, lines = run_set(exe, th, 2, 'seq', alloc, timeout=300)
        chk.count(lines, nontrivial=True)
        chk.dist('heap_fill_runs', fill)
        res = per_thread(out)
        if rc == 124:
            found.setdefault('hang:heap-fill:' + fill, (lines, dict(set=name, fill=fill, stderr=err[-800:]),
                                                        'run under the heap fill %s did not terminate' % fill))
            continue
        if ref is None:
            ref = (fill, res, rc)
            continue
        if res != ref[1] or rc != ref[2]:
            bad = sorted(t for t in set(res) | set(ref[1]) if res.get(t) != ref[1].get(t))
            t = bad[0] if bad else 0
            a, b = ref[1].get(t, []), res.get(t, [])
            k = next((i for i in range(min(len(a), len(b))) if a[i] != b[i]), min(len(a), len(b)))
            found.setdefault('interference:heap-fill', (
                lines, dict(set=name, fills=[ref[0], fill], rc=[ref[2], rc], thread=t, first_difference=[a[k:k + 2], b[k:k + 2]],
                            stderr=err[-600:], script=th[t] if t < len(th) else None),
                'a context behaves differently depending on the bytes its allocator returned (fill %s vs %s): a field of the '
                'context is inherited from the heap, not initialised -- contexts are coupled through heap reuse; thread %d: %s vs %s' % (
                    ref[0], fill, t, a[k:k + 1], b[k:k + 1])))


def coqchk(chk, mods):
    """thorough: re-check the compiled property files and everything they depend on with the independent checker"""
    rc, out, err = vlib.sh(['coqchk', '-silent', '-o', '-Q', '.', 'MirV'] + mods, cwd=vlib.COQDIR, timeout=2400)
    flat = ' '.join((out + err).split())
    ok = rc == 0 and '* Axioms: <none>' in flat
    chk.cov['trusted_base'].append('coqchk -o on %s: %s' % (' '.join(mods), 'no axioms, no assumed positivity/guard/type-in-type' if ok
                                                             else 'FAILED rc=%d %s' % (rc, flat[-300:])))
    chk.log('coqchk: %s' % ('ok, Axioms: <none>' if ok else 'FAILED'))
    return ok


def run(chk):
    quick = chk.tier == 'quick'
    r1 = chk.prove('Properties_C18')
    # the regenerated file is specific to the tree under test: keep concurrent runs against different trees
    # (VERIF_REPO) from interleaving between regeneration and proof
    with vlib.Lock('c18-statics'):
        objs, stats = tr_c18_statics.generate()
        flagged = [o for o in objs if o['writers'] or o['src_writes']]
        chk.log('statics: %d data objects, %d in writable sections, %d with writes: %s' % (
            stats['total'], len(objs), len(flagged), [o['name'] for o in flagged]))
        r2 = chk.prove('Properties_C18_Statics')
        # which fields of struct MIR_context / gen_ctx / interp_ctx do the init functions establish (heap coupling)
        ctxinit = tr_c18_ctxinit.generate()
        unest = [(r['struct'], f) for r in ctxinit for f in r['missing']]
        chk.log('context fields: %s; not established by init: %s' % (
            ', '.join('%s %d/%d written (+%d audited)' % (r['struct'], len(r['written']), len(r['fields']), len(r['deferred'])) for r in ctxinit), unest))
        r3 = chk.prove('Properties_C18_CtxInit')
    exe = build()
    chk.cov['trusted_base'] += [
        'tools/tr_c18_statics.py (readelf/objdump over -O0 -fdata-sections objects, regex source scan for assignments)',
        'tools/tr_c18_ctxinit.py (regex scan: struct fields, stores in the init functions and their *init* callees); '
        'coq/C18/CtxInitFacts.v deferred_fields: 11 fields audited by reading as written before read by a later API call',
        'coq/C18/Audit.v: address-taken tables audited by reading as never written (17 entries)',
        'ThreadSanitizer (gcc 12 libtsan) for races through memory not named by a static object; the OS scheduler chooses the interleavings actually run',
        'harness/c18_threads.c, harness/c17_api.h']
    rng = chk.rng('threads')
    sets = []
    corpus = os.path.join(vlib.VERIF, 'corpus', 'c18_sets.jsonl')
    if os.path.exists(corpus):
        for l in open(corpus):
            if l.strip():
                j = json.loads(l)
                sets.append(('corpus:' + j['set'], j['threads'], j['reps']))
    sets += [(name, th, reps) for name, th, reps in focused_sets(rng)]
    nrand = 14 if quick else 600
    for _ in range(nrand):
        nt = rng.choice([2, 3, 4, 6, 8])
        th = [G.Scen(rng, [0], threads=True).lines for _ in range(nt)]
        kind = rng.choice(['random', 'random@arena'])
        if kind == 'random@arena':
            # patches at the page ends of the context's code holders, next to the other contexts' pages
            th = [[x for l in sc for x in ([l, 'patchend'] if l.startswith('link ') and rng.random() < 0.6 else [l])] for sc in th]
        sets.append((kind, th, rng.choice([1, 2, 3])))
    found = {}
    nrep = 0
    nrun = 0
    for name, th, reps in sets:
        if found and time.time() - chk.t0 > (150 if quick else 1200):
            # failing inputs are in hand and the time budget is used up (a mutated tree can make every set hang)
            chk.notes.append('search stopped after %d of %d thread sets: failures found and time budget used' % (nrun, len(sets)))
            break
        nrun += 1
        alloc = 'arena' if name.endswith('@arena') else 'default'
        t1 = time.time()
        rc2, out2, err2, lines2 = run_set(exe, th, reps, 'seq', alloc, timeout=300)
        tseq = time.time() - t1
        if rc2 == 124:
            found.setdefault('hang:sequential:' + name, (lines2, dict(set=name, rc=rc2, stderr=err2[-1500:]),
                                                         'the scripts run one after another did not terminate within 300 s'))
            chk.count(lines2, nontrivial=len(th) >= 2)
            continue
        # the parallel run gets a bound derived from the sequential one: interference can also show as a hang
        rc, out, err, lines = run_set(exe, th, reps, 'par', alloc, timeout=max(120, 25 * tseq))
        chk.count(lines, nontrivial=len(th) >= 2)
        chk.dist('sets', name)
        chk.dist('threads', len(th))
        for sc in th:
            for l in sc:
                chk.dist('api_calls', l.split()[0])
        if (rc2 != 0 or 'ThreadSanitizer' in err2) and 'FOREIGN-' not in err2 + out2:
            # The run of the scripts one after another in ONE process misbehaves.  Reference = every script alone, once, in a
            # fresh process: if those are fine, one context's work changed what a later context of the process does
            # (state surviving MIR_finish: hidden process-wide state); otherwise the history itself is not error-free
            # and nothing can be said about interference.
            alone = [run_set(exe, [sc], 1, 'seq', alloc) for sc in th]
            bad_alone = [(t, r[0], (r[2] or r[1])[-400:]) for t, r in enumerate(alone) if r[0] != 0 or 'ThreadSanitizer' in r[2]]
            if bad_alone:
                raise vlib.BuildError('reference run of a single script failed (thread %d, rc %d): %s' % bad_alone[0])
            found.setdefault('interference:sequential', (lines, dict(set=name, rc=rc2, stderr=err2[-1500:], stdout_tail=out2[-300:]),
                                                         'contexts used one after another in one process interfere: the run fails (rc %d) '
                                                         'although every script alone in a fresh process succeeds' % rc2))
            chk.count(lines, nontrivial=len(th) >= 2)
            chk.dist('sets', name)
            continue
        reports = parse_tsan(err)
        nrep += len(reports)
        for r in reports:
            found.setdefault(r['sig'], (lines, dict(set=name, threads=len(th), reps=reps, report=r['text'], frames=r['frames'],
                                                    location=r['location']),
                                        'unsynchronised conflicting access between threads using different contexts: %s (%s)' % (
                                            r['location'] or '/'.join(r['frames']), r['kind'])))
        incomplete = [t for t in range(len(th)) if ('T%d DONE' % t) not in out and ('T%d FAILED' % t) not in out]
        if rc == 124:
            found.setdefault('hang:' + name, (lines, dict(set=name, rc=rc, sequential_s=round(tseq, 1), stderr=err[-1500:]),
                                              'parallel run of independent contexts did not terminate (the sequential run of '
                                              'the same scripts took %.1f s)' % tseq))
        elif rc not in (0, 66) or 'DEADLYSIGNAL' in err or incomplete:
            found.setdefault('crash:' + name, (lines, dict(set=name, rc=rc, stderr=err[-1500:]),
                                               'parallel run of independent contexts crashed (rc %d)' % rc))
        for o, which in ((out + err, 'parallel'), (out2 + err2, 'sequential')):
            fl = [l for l in o.split('\n') if 'FOREIGN-' in l]
            if fl:
                kind = fl[0].split('FOREIGN-')[1].split()[0]
                found.setdefault('foreign-code-page:' + kind,
                                 (lines, dict(set=name, run=which, messages=fl[:5]),
                                  'a context changed the protection of / unmapped a code page it does not own: ' + fl[0][:160]))
        a, b = per_thread(out), per_thread(out2)
        if a != b and rc in (0, 66):
            bad = sorted(t for t in set(a) | set(b) if a.get(t) != b.get(t))
            found.setdefault('interference:results', (lines, dict(set=name, threads=bad, parallel={t: a.get(t) for t in bad},
                                                                  sequential={t: b.get(t) for t in bad}),
                                                      'a thread obtained different results in the parallel run than running alone'))
    # --- every field of a context is initialised by init, not inherited from the heap: the same scripts under a data
    #     allocator returning pre-filled / previously used blocks must behave identically
    fsets = [x for x in sets if x[0] in ('ctxinit', 'gen', 'interp', 'io', 'codepages@arena') or (not quick and x[0] == 'c2mir')]
    fsets += [x for x in sets if x[0].startswith('random')][:2 if quick else 40]
    for name, th, reps in fsets:
        if found and name != 'ctxinit' and time.time() - chk.t0 > (150 if quick else 1200):
            continue   # the option-state scripts are cheap and give the most precise witness: always run
        fill_pass(chk, exe, name, th, found)
    chk.cov['heap_fill_sets'] = [x[0] for x in fsets]
    # --- the library's static data made read-only (validates the translator's "nothing is written" fact dynamically,
    #     including stores through pointers): fixed histories covering every source kind and interface + random ones
    ro_rng = chk.rng('ro-statics')
    ro_scripts = [[l[2:] for l in sc] for sc, info in G.fixed_scenarios() if info['ctxs'] == 1]
    ro_scripts += [G.Scen(ro_rng, [0], threads=True).lines for _ in range(20 if quick else 400)]
    for name, th, reps in sets:
        if name.startswith('corpus:'):
            ro_scripts += [list(t) for t in th[:1]]
    ro_scripts += corpus_scripts(chk, quick)
    for sc in ro_scripts:
        chk.count(('ro', sc), nontrivial=True)
    chk.dist('sets', 'read-only-statics(single thread)', len(ro_scripts))
    for obj, (sc, detail) in sorted(ro_statics_pass(chk, ro_scripts).items()):
        detail['statics_entry'] = [o for o in objs if o['name'] == obj]
        found.setdefault('static-write:' + obj, (['threads 1 reps 1 mode seq alloc default'] + ['0 ' + l for l in sc] + ['end'], detail,
                                                 'a library function stored to the process-wide static object %s (in %s)' % (
                                                     obj, detail['written_by'])))
    chk.cov['ro_statics_scripts'] = len(ro_scripts)
    for sc in getattr(chk, 'ro_hangs', [])[:1]:
        found.setdefault('hang:read-only-statics', (['threads 1 reps 1 mode seq alloc default'] + ['0 ' + l for l in sc] + ['end'],
                                                    dict(how='single-threaded run by harness/c18_rostatics.c, limit 300 s'),
                                                    'a single-threaded API history did not terminate within 300 s'))
    if getattr(chk, 'ro_crashes', None):
        if not found:
            raise vlib.BuildError(chk.ro_crashes[0])
        chk.notes.append('read-only-statics pass: %d script(s) crashed (not judged here): %s' % (len(chk.ro_crashes), chk.ro_crashes[0][-200:]))
    chk.cov['rule'] = ('each case is either a set of per-thread API scripts run twice by harness/c18_threads.c under ThreadSanitizer: all '
                      'threads in parallel (each with its own context, scripts repeated so that creation/destruction overlap) '
                      'and one after another; TSan reports, hangs and per-thread result differences are failures; or one API script '
                      'run in one thread by harness/c18_rostatics.c with the library\'s static data pages read-only (a store to a '
                      'static is a failure); non-trivial = >= 2 threads or a read-only-statics script; distinct by script text')
    for name, th, reps in sets[:2] + sets[5:6]:
        chk.sample(('%s x%d: ' % (name, reps)) + ' || '.join(' ; '.join(l[:40] for l in sc[:8]) for sc in th[:2])[:500])
    chk.log('%d thread sets, %d TSan reports, %d distinct failure signatures' % (len(sets), nrep, len(found)))
    for sig, (lines, detail, what) in sorted(found.items()):
        detail['statics_entry'] = [o for o in flagged if o['name'] == detail.get('location')]
        chk.finding(sig, dict(script=lines, detail=detail,
                              how='./check C18 --replay <this file> (feeds the script to harness/c18_threads.c built with -fsanitize=thread)'),
                    what)
    if not quick and r1['ok'] and r2['ok'] and r3['ok'] and not coqchk(chk, ['MirV.Properties_C18', 'MirV.Properties_C18_Statics',
                                                                             'MirV.Properties_C18_CtxInit']):
        r1['ok'] = False
        r1['log'] += '\ncoqchk failed'
    broken = [r for r in (r1, r2, r3) if not r['ok']]
    if broken and not found:
        chk.proof_broken(broken[0], searched='%d thread sets under ThreadSanitizer without a report; objects flagged by the translator: %s' % (
            len(sets), [('field not established by init', x) for x in unest] or
            [(o['unit'], o['name'], o['writers'] or o['src_writes']) for o in flagged] or
            [(o['unit'], o['name']) for o in objs if (o['addr_takers'] or o['data_refs'])][:40]))
    elif broken:
        chk.notes.append('proof/tie broken as well: ' + ', '.join('%s:%s' % x for b in broken for x in vlib.coq_failed_units(b['log'])[:3]))


def replay(chk, path):
    j = json.load(open(path))
    if j.get('signature', '').startswith('static-write:'):
        sc = [l[2:] for l in j['replay']['script'] if l[:2] == '0 ']
        found = ro_statics_pass(chk, [sc])
        for k, (s_, d) in found.items():
            print('static object written:', k, 'by', d['written_by'])
        return 1 if found else 0
    exe = build()
    lines = j['replay']['script']
    rc, out, err = vlib.sh([exe], input=('\n'.join(lines) + '\n').encode(), timeout=600, env=TSAN_ENV)
    reps = parse_tsan(err)
    print('rc', rc, 'TSan reports:', len(reps))
    for r in reps[:3]:
        print(r['sig'])
        print(r['text'][:1200])
    return 1 if reps or rc not in (0,) else 0

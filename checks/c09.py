# C09: c2mir's preprocessor.  Theorems: coq/Properties_C09.v.  Tie / differential:
#   (1) #if: seeded controlling expressions -> group selection, value and type under `c2m -E`, under
#       `gcc -E`, under the extracted model of c2mir's evaluator (PpIf) and under the extracted C11
#       specification (C11If);
#   (2) macro expansion: seeded macro sets + invocation texts, token stream of `c2m -E` vs `gcc -E -P`
#       (and vs the extracted PpExpand model when available).
import os, sys, re, json, shutil, tempfile, concurrent.futures
import vlib
sys.path.insert(0, os.path.join(vlib.VERIF, 'tools'))
import gen_c09_if as G
import gen_c09_macro as M
import gen_c09_deco as D
import hashlib
import tr_c07_limits

LEVEL = 'proof'


def tools():
    c2m = vlib.build_harness('c2m', [os.path.join(vlib.REPO, 'c2mir', 'c2mir-driver.c')],
                             units=('mir', 'mir-gen', 'c2mir'))
    model = vlib.ocaml_build('c09', 'Extract_C09', ['c09x'], 'driver_c09.ml')
    return c2m, model


def tool_fn():
    """extracted PpExpandFn (function-like macro expansion) and PpCond (conditional directives) models"""
    return vlib.ocaml_build('c09fn', 'Extract_C09fn', ['c09fx'], 'driver_c09fn.ml')


class Scratch:
    def __enter__(self):
        self.d = tempfile.mkdtemp(prefix='c09-', dir='/var/tmp')
        return self.d

    def __exit__(self, *a):
        shutil.rmtree(self.d, ignore_errors=True)


# ------------------------------------------------------------------ #if
def model_if(model, cases):
    """cases: prefix strings -> list of dicts(c2m=(uns,val,err,stat), c11=(uns,val)|None)"""
    rc, out, err = vlib.run_lines(model, cases, timeout=600)
    if rc != 0 or len(out) != len(cases):
        raise vlib.BuildError('driver_c09 failed: rc=%d %s' % (rc, err[-400:]))
    res = []
    for l in out:
        a, b = l.split('|')
        w = a.split()
        c2 = (w[1] == '1', int(w[2], 16), w[3] == '1', w[4] == '1')
        w = b.split()
        c11 = None if w[1] == 'undef' else (w[1] == '1', int(w[2], 16))
        res.append(dict(c2m=c2, c11=c11))
    return res


def if_file(texts, probes):
    """texts: C spellings; probes[i] = None or (uns, val) predicted by the C11 model.
    Block k selects token T<k> or F<k>; per expression: truth, value-equality, signedness."""
    lines = []
    n = 0
    index = []
    for i, e in enumerate(texts):
        blocks = [e]
        if probes[i] is not None:
            uns, v = probes[i]
            blocks.append('(%s) == %s' % (e, G.value_literal(uns, v)))
            blocks.append('0 * (%s) - 1 < 0' % e)
        ids = []
        for b in blocks:
            lines += ['#if %s' % b, 'T%d' % n, '#else', 'F%d' % n, '#endif']
            ids.append(n)
            n += 1
        index.append(ids)
    return '\n'.join(lines) + '\n', index


def run_pp(cmd, src_text, d, name):
    p = os.path.join(d, name)
    open(p, 'w').write(src_text)
    rc, out, err = vlib.sh(cmd + [p], timeout=300, cwd=d)
    return rc, out, err


def selections(out):
    sel = {}
    for m in re.finditer(r'\b([TF])(\d+)\b', out):
        sel[int(m.group(2))] = (m.group(1) == 'T')
    return sel


def eval_if_batch(c2m, model, cases, d, tag='b'):
    """returns per case: dict(prefix, text, model, obs_c2m, obs_gcc, exp) where obs = tuple of
    booleans (truth[, value-eq, signed]) or None when the tool failed on the file"""
    trees = [G.parse(c) for c in cases]
    texts = [G.render(t) for t in trees]
    mres = model_if(model, cases)
    probes = [m['c11'] for m in mres]
    src, index = if_file(texts, probes)
    rc1, o1, e1 = run_pp([c2m, '-E'], src, d, tag + '.c')
    rc2, o2, e2 = run_pp(['gcc', '-E', '-P', '-w'], src, d, tag + '.c')
    s1, s2 = selections(o1), selections(o2)
    res = []
    for i, c in enumerate(cases):
        ids = index[i]
        oc = tuple(s1.get(k) for k in ids)
        og = tuple(s2.get(k) for k in ids)
        m = mres[i]
        if m['c11'] is not None:
            uns, v = m['c11']
            exp11 = (v != 0, True, not uns)
        else:
            exp11 = None
        u2, v2, er2, _ = m['c2m']
        # what the PpIf model predicts c2m shows on the same three probes (only used when C11 defined)
        res.append(dict(prefix=c, text=texts[i], model=m, obs_c2m=oc, obs_gcc=og, exp11=exp11,
                        rc=(rc1, rc2), err=(e1[-300:], e2[-300:])))
    return res


def shrink_if(c2m, model, case, d, still_bad):
    t = G.parse(case)
    steps = 0
    improved = True
    while improved and steps < 60:
        improved = False
        for cand in sorted(G.replace_children(t) + G.subtrees(t), key=G.size):
            if G.size(cand) >= G.size(t):
                continue
            steps += 1
            if steps > 200:
                break
            if still_bad(G.prefix(cand)):
                t = cand
                improved = True
                break
    return G.prefix(t)


def if_bad(r):
    """classify one evaluated case: None (agree) | ('impl', why) | ('spec', why)"""
    if r['exp11'] is None:
        return None
    if any(x is None for x in r['obs_gcc']) or r['obs_gcc'] != r['exp11']:
        return ('spec', 'gcc %s vs C11If %s' % (r['obs_gcc'], r['exp11']))
    if r['obs_c2m'] != r['obs_gcc']:
        names = ['group selected', 'value', 'signedness']
        k = [i for i in range(3) if r['obs_c2m'][i] != r['obs_gcc'][i]]
        return ('impl', '%s differs: c2m %s, gcc/C11 %s' % (names[k[0]], r['obs_c2m'], r['obs_gcc']))
    return None


def check_div0(chk, c2m, cases, d):
    """expressions whose *evaluated* part divides by zero: the model says c2m reports an error;
    both preprocessors must diagnose"""
    bad = []
    for i, (c, text) in enumerate(cases):
        src = '#if %s\nT0\n#else\nF0\n#endif\n' % text
        rc1, o1, e1 = run_pp([c2m, '-E'], src, d, 'z%d.c' % i)
        rc2, o2, e2 = run_pp(['gcc', '-E', '-P', '-w'], src, d, 'z%d.c' % i)
        d1 = rc1 != 0 and 'zero' in (e1 + o1)
        d2 = rc2 != 0 and 'zero' in e2
        if d2 and not d1:
            bad.append((c, text, 'gcc diagnoses division by zero, c2m does not (rc=%d)' % rc1))
    return bad


def run_if(chk, c2m, model, d, quick):
    rng = chk.rng('if')
    corpus = []
    cp = os.path.join(vlib.VERIF, 'corpus', 'c09_if.txt')
    if os.path.exists(cp):
        corpus = [l.strip() for l in open(cp) if l.strip() and not l.startswith('#')]
    want = 900 if quick else 12000
    cands = list(corpus)
    while len(cands) < len(corpus) + want * 3:
        cands.append(G.prefix(G.gen_expr(rng, rng.choice([1, 2, 2, 3, 3, 4]))))
    cands = list(dict.fromkeys(cands))
    mres = model_if(model, cands)
    defined = [c for c, m in zip(cands, mres) if m['c11'] is not None]
    div0 = [c for c, m in zip(cands, mres) if m['c11'] is None and m['c2m'][2]]
    chk.dist('if_candidates', 'defined', len(defined))
    chk.dist('if_candidates', 'undefined_div0_evaluated', len(div0))
    chk.dist('if_candidates', 'undefined_other(overflow/shift/untyped constant)', len(cands) - len(defined) - len(div0))
    defined = defined[:len(corpus) + want]
    # how many have a division by zero in an unevaluated operand, unsigned operands, etc.
    findings = []
    model_breaks = []
    B = 300
    for off in range(0, len(defined), B):
        batch = defined[off:off + B]
        res = eval_if_batch(c2m, model, batch, d, 'if%d' % off)
        for r in res:
            t = G.parse(r['prefix'])
            ops = G.ops_of(t)
            chk.count(r['prefix'], nontrivial=G.size(t) >= 3, n=3)
            for o in set(ops):
                chk.dist('if_ops', o)
            uns, v = r['model']['c11']
            chk.dist('if_result', ('unsigned' if uns else 'signed') + ('/zero' if v == 0 else '/nonzero'))
            chk.dist('if_size', min(G.size(t), 20))
            b = if_bad(r)
            if b is None:
                # tie of the PpIf model to the implementation: predicted (uns,val) == C11 (proved), so
                # agreement with gcc/C11 is agreement with the model; check the model really said so
                u2, v2, er2, _ = r['model']['c2m']
                if (u2, v2) != r['model']['c11'] or er2:
                    model_breaks.append(r)
                continue
            if b[0] == 'spec':
                raise vlib.BuildError('C11If specification disagrees with gcc on `#if %s`: %s' % (r['text'], b[1]))
            findings.append((r, b[1]))
    for r in defined[:4]:
        chk.sample('#if ' + G.render(G.parse(r)))
    # shrink + report
    seen = set()
    for r, why in findings[:6]:
        def still_bad(c):
            rr = eval_if_batch(c2m, model, [c], d, 'shr')[0]
            b = if_bad(rr)
            return b is not None and b[0] == 'impl'
        small = shrink_if(c2m, model, r['prefix'], d, still_bad)
        rr = eval_if_batch(c2m, model, [small], d, 'shr')[0]
        if rr['text'] in seen:
            continue
        seen.add(rr['text'])
        chk.finding('if:' + rr['text'], dict(kind='if', prefix=small, text=rr['text'], original=r['text'],
                                               c2m=rr['obs_c2m'], gcc=rr['obs_gcc'], c11=rr['model']['c11'],
                                               probes='(group selected, (e)==value, 0*(e)-1<0)'),
                    '#if %s : %s' % (rr['text'], if_bad(rr)[1] if if_bad(rr) else why))
    # evaluated division by zero must be diagnosed
    nz = 6 if quick else 40
    zc = [(c, G.render(G.parse(c))) for c in div0[:nz]]
    for c, t in zc:
        chk.count('div0:' + c, nontrivial=True)
    for c, text, why in check_div0(chk, c2m, zc, d)[:3]:
        chk.finding('if-div0:' + text, dict(kind='if-div0', prefix=c, text=text), '#if %s : %s' % (text, why))
    return len(defined), findings, model_breaks


# ------------------------------------------------------------------ macro expansion / conditionals
RAW = {}      # case index -> text `c2m -E` printed for it (filled by compare_cases, read by run_expand)


def pp_outputs(c2m, text, d, name):
    """token lists per tool (after the C09_START marker handling is done by the caller)"""
    p = os.path.join(d, name)
    open(p, 'w').write(text)
    inc = os.path.join(d, D.INC_NAME)
    if not os.path.exists(inc):
        open(inc, 'w').write(D.INC_TEXT)
    inc = os.path.join(d, M.LINE_INC_NAME)
    if not os.path.exists(inc):
        open(inc, 'w').write(M.LINE_INC_TEXT)
    outs = {}
    for tool, cmd in (('c2m', [c2m, '-E']), ('gcc', ['gcc', '-E', '-P', '-w', '-std=c11']),
                      ('clang', ['clang', '-E', '-P', '-w', '-std=c11'])):
        rc, out, err = vlib.sh(cmd + [p], timeout=120, cwd=d)
        outs[tool] = (rc, M.tokenize(M.strip_line_markers(out)), err[-300:])
        if tool == 'c2m':
            parts = re.split(r'C09_CASE_(\d+)\s*;', M.strip_line_markers(out))
            for k in range(1, len(parts) - 1, 2):
                RAW[int(parts[k])] = parts[k + 1]
    return outs


def separation_lost(words, raw):
    """words: the model's answer (driver tokens incl. `_` and `/`); raw: what c2m -E printed.  c2m prints a ' ' token
    as a space and nothing between tokens that have no white space between them, so where the model has a ' ' between
    two tokens the text must have white space too.  Returns the token pairs whose separation the text lost
    (None when the text does not spell the model's tokens in order)."""
    pos, lost, prev, sep = 0, [], None, False
    for w in words:
        if w in '_/':
            sep = sep or w == '_'
            continue
        sp = bytes.fromhex(w[1:]).decode('latin-1')
        q = pos
        while q < len(raw) and raw[q].isspace():
            q += 1
        if not raw.startswith(sp, q):
            return None
        if sep and q == pos and prev is not None:
            lost.append((prev, sp))
        pos, prev, sep = q + len(sp), sp, False
    return lost


def case_file(cases):
    s = ['C09_START ;\n']
    for i, text in cases:
        s.append('C09_CASE_%d ;\n' % i)
        s.append(text)
    return ''.join(s)


def one_by_one(c2m, cases, d, tag):
    res = {}
    with concurrent.futures.ThreadPoolExecutor(max_workers=4) as ex:
        for r in ex.map(lambda kc: compare_cases(c2m, [kc[1]], d, '%s_%d' % (tag, kc[0])), enumerate(cases)):
            res.update(r)
    return res


def one_by_one_idx(c2m, cases, d, tag):
    """each case as a file of its own; results in the order of the cases"""
    res = one_by_one(c2m, cases, d, tag)
    return [res[i] for i, _ in cases]


def compare_cases(c2m, cases, d, tag):
    """cases: [(index, text)] -> {index: ('ok'|'spacing'|'unspecified'|'diff', c2m tokens, gcc tokens)}"""
    outs = pp_outputs(c2m, case_file(cases), d, tag + '.c')
    split = {t: M.split_cases(outs[t][1]) for t in outs}
    res = {}
    want = [i for i, _ in cases]
    if any(outs[t][0] != 0 or split[t] is None or sorted(split[t]) != sorted(want) for t in ('gcc', 'clang')):
        # a reference tool rejects something or lost the marker structure: evaluate one by one
        if len(cases) == 1:
            return {cases[0][0]: ('unspecified', [], [])}
        return one_by_one(c2m, cases, d, tag)
    if split['c2m'] is None or sorted(split['c2m']) != sorted(want) or outs['c2m'][0] != 0:
        # (a text both reference preprocessors accept must be accepted by c2m too: exit status 0)
        if len(cases) == 1:
            toks = outs['c2m'][1]
            if split['c2m'] is not None and cases[0][0] in split['c2m']:
                toks = list(split['c2m'][cases[0][0]])
            if outs['c2m'][0] != 0:
                toks = toks + ['<c2m -E exit status %d: %s>' % (outs['c2m'][0], outs['c2m'][2].strip().split('\n')[0][:120])]
            return {cases[0][0]: ('diff', toks, split['gcc'][cases[0][0]])}
        return one_by_one(c2m, cases, d, tag)
    for i in want:
        g, cl, c = split['gcc'][i], split['clang'][i], split['c2m'][i]
        if g != cl:
            res[i] = ('unspecified', c, g)
        elif c == g:
            res[i] = ('ok', c, g)
        elif M.squash(c) == M.squash(g):
            res[i] = ('spacing', c, g)
        else:
            res[i] = ('diff', c, g)
    return res


def shrink_pp_case(c2m, text, d):
    lines = text.split('\n')

    strict = D.well_formed(text, True)

    def fails(sub):
        if not D.well_formed('\n'.join(sub) + '\n', strict):
            # e.g. a file ending in backslash-new-line (5.1.1.2p2, c2m crashes on it), a quote left over from a comment
            # whose opener was cut away (6.4p3): undefined, gcc/clang are lenient, c2m reports an error
            return False
        r = compare_cases(c2m, [(0, '\n'.join(sub) + '\n')], d, 'shr')
        return r[0][0] == 'diff'
    if not fails(lines):
        return text
    lines = vlib.shrink_list(lines, fails, max_steps=200)
    # then token-wise inside the non-directive lines (unbalanced results are rejected by gcc -> not failing)
    for li in range(len(lines)):
        if lines[li].lstrip().startswith('#') or len(lines[li]) < 12 or '/*' in lines[li] or '//' in lines[li] or '*/' in lines[li]:
            continue
        words = lines[li].split(' ')

        def fails_w(ws, li=li):
            return fails(lines[:li] + [' '.join(ws)] + lines[li + 1:])
        lines[li] = ' '.join(vlib.shrink_list(words, fails_w, max_steps=120))
    return '\n'.join(lines) + '\n'


def strip_marker(toks):
    return toks[1:] if toks[:1] == [';'] else toks      # the `;` of the case marker line


def run_expand(chk, c2m, model_fn, d, quick, model=None):
    cases = []
    feats = {}
    queries = {}       # case index -> (query line, kind, aux)
    cp = os.path.join(vlib.VERIF, 'corpus', 'c09_pp')
    idx = 0
    if os.path.isdir(cp):
        for f in sorted(os.listdir(cp)):
            cases.append((idx, open(os.path.join(cp, f)).read()))
            feats[idx] = ['corpus:' + f]
            q = M.model_query(cases[-1][1])
            if q is not None:
                queries[idx] = (q, 'fn', None)
            idx += 1
    nmac, ncond = (500, 150) if quick else (8000, 2000)
    for k in range(nmac):
        rng = chk.rng('macro%d' % k)
        text, fs = M.gen_macro_case(rng, idx)
        cases.append((idx, text))
        feats[idx] = ['macro'] + fs
        q = M.model_query(text)
        if q is not None:
            queries[idx] = (q, 'fn', None)
        idx += 1
    for k in range(ncond):
        rng = chk.rng('cond%d' % k)
        tree, names, px, fs = M.gen_cond_tree(rng, idx)
        cases.append((idx, M.cond_text(tree, names, px)))
        feats[idx] = ['cond'] + sorted(fs)
        queries[idx] = (M.cond_query(tree), 'cond', (names, px))
        idx += 1
    # line structure (round 3, wave z): text lines ending in every kind of token sequence (bare function-like macro names,
    # aliases, calls whose expansion ends with such a name, names inside arguments / before other macros, calls across
    # lines, empty expansions) interleaved with directives whose effect is observable
    nline = 160 if quick else 3000
    eof_cases = []
    for k in range(nline):
        rng = chk.rng('line%d' % k)
        text, fs, _ = M.gen_line_case(rng, idx, M.LINE_INC_NAME)
        cases.append((idx, text))
        feats[idx] = ['lines'] + fs
        if 'bare-function-like-name-ends-the-case' in fs and len(eof_cases) < (12 if quick else 100):
            eof_cases.append(idx)           # also run as a file of its own: the name is the last token of the translation unit
        idx += 1
    # pp-number lexing (round 3, wave 6): pp-numbers of every shape of C11 6.4.8 directly next to macro / parameter names,
    # seen through plain expansion, # (also of the pre-expanded argument), ##, arguments and replacement lists
    nnum = 150 if quick else 4000
    for k in range(nnum):
        rng = chk.rng('ppnum%d' % k)
        text, fs = M.gen_ppnum_case(rng, idx)
        cases.append((idx, text))
        feats[idx] = ['ppnum'] + fs
        q = M.model_query(text)
        if q is not None:
            queries[idx] = (q, 'fn', None)
        idx += 1
    # decoration layer (round 3): the same kinds of input -- macro sets + uses, conditional structures, #if expressions,
    # #include, the corpus -- with comments (one line, several lines, //), other white space and backslash-new-line
    # splices put in at token boundaries / any character position (translation phases 2-3 make them invisible)
    ndeco = 520 if quick else 8000
    with open(os.path.join(d, D.INC_NAME), 'w') as f:
        f.write(D.INC_TEXT)
    rc, out, err = run_pp([c2m, '-E'], '#define C09_H(x) x\n#include C09_H("%s" )\n' % D.INC_NAME, d, 'incprobe.c')
    D.INCLUDE_TRAILING_WS_OK = rc == 0
    chk.dist('pp_forms_accepted_by_this_tree', 'macro-expanded #include operand ending in white space', 1 if rc == 0 else 0)
    # (corpus files with a `\` pp-token outside literals are not decorated: a comment next to it changes what # makes of it)
    corpus_texts = [t for _, t in cases[:len([f for f in feats.values() if f[0].startswith('corpus:')])] if D.well_formed(t, True)]
    for k in range(ndeco):
        rng = chk.rng('deco%d' % k)
        w = rng.random()
        names = ()
        if w < 0.42:
            base, fs = M.gen_macro_case(rng, idx)
            names = sorted(set(re.findall(r'\bc%d_\w+' % idx, base)))
            src = 'macro'
        elif w < 0.5:
            base, fs, names = M.gen_line_case(rng, idx, M.LINE_INC_NAME, comments=False)
            src = 'lines'
        elif w < 0.7:
            tree, nm, px, fs = M.gen_cond_tree(rng, idx)
            base, names, src = M.cond_text(tree, nm, px), nm, 'cond'
        elif w < 0.85:
            et = G.gen_expr(rng, rng.choice([1, 2, 2, 3]))
            if model is not None and model_if(model, [G.prefix(et)])[0]['c11'] is None:
                continue            # C11 gives the expression no value (overflow, bad shift, division by zero)
            e = G.render(et)
            base = '#if %s\nd%d_T ;\n#else\nd%d_F ;\n#endif\n' % (e, idx, idx)
            fs, src = [], 'if-expression'
        elif w < 0.95 or not corpus_texts:
            base, fs = D.gen_include_case(rng, idx)
            src = 'include'
        else:
            base, fs, src = rng.choice(corpus_texts), [], 'corpus'
        text, dfs = D.decorate(rng, base, names)
        for _retry in range(8):
            if D.well_formed(text):
                break
            # the decoration layer's own filter rejects its output (e.g. a comment opener formed by a decoration
            # next to a '/' of the base text): draw another decoration; this concerns the generator only
            chk.dist('decorations', 'redrawn', 1)
            text, dfs = D.decorate(rng, base, names)
        else:
            if not D.well_formed(base):
                chk.dist('decorations', 'dropped', 1)
                continue
            chk.dist('decorations', 'dropped', 1)
            text, dfs = base, ['undecorated']
        cases.append((idx, text))
        if src == 'macro':
            q = M.model_query(base)
            if q is not None:
                queries[idx] = (q, 'fn-undecorated', None)   # only to know whether c2mir's code rejects the text
        feats[idx] = ['deco:' + src] + ['deco-of-' + src] + dfs
        idx += 1
    texts = dict(cases)
    RAW.clear()
    qi = sorted(queries)
    rc, answers, err = vlib.run_lines(model_fn, [queries[i][0] for i in qi], timeout=900)
    if rc != 0 or len(answers) != len(qi):
        raise vlib.BuildError('driver_c09fn failed: rc=%d %s' % (rc, err[-400:]))
    answers = dict(zip(qi, answers))
    results = {}
    B = 60
    for off in range(0, len(cases), B):
        results.update(compare_cases(c2m, cases[off:off + B], d, 'pp%d' % off))
    for k, (i, r) in enumerate(zip(eof_cases, one_by_one_idx(c2m, [(i, texts[i]) for i in eof_cases], d, 'eof'))):
        chk.dist('pp_features', 'bare-function-like-name-is-the-last-token-of-the-file')
        if r[0] == 'diff' and results[i][0] != 'diff':
            results[i] = r
    bad = []
    model_breaks = []
    for i, (st, c, g) in sorted(results.items()):
        kind = feats[i][0]
        if st == 'diff' and c and c[-1].startswith('<c2m -E exit status') and answers.get(i, '').startswith('err') \
                and M.squash(c[:-1]) == M.squash(g):
            # c2m rejects, and the model of its code says it must: a constraint violation (e.g. no argument for
            # `...`, C11 6.10.3p4) that gcc and clang accept as an extension; outside the property's quantifier
            st = 'unspecified'
            results[i] = (st, c, g)
            chk.dist('pp_outcome', kind.split(':')[0] + ':rejected-by-c2m-and-model(extension of gcc/clang)')
            continue
        chk.dist('pp_outcome', kind.split(':')[0] + ':' + st)
        if st == 'unspecified':
            continue
        chk.count('pp:' + texts[i], nontrivial=len(g) >= 3)
        for f in feats[i][1:]:
            chk.dist('pp_features', f)
        if st == 'diff':
            bad.append(i)
        # the Coq models against c2m -E, token for token (up to c2m's unspaced printing of adjacent tokens)
        if i in answers:
            q, mk, aux = queries[i]
            if mk == 'fn-undecorated':
                continue
            if mk == 'fn':
                want = M.model_tokens(answers[i])
                tag = 'fn-model:' + (answers[i].split()[0] if want is None else 'defined')
            else:
                want = M.cond_expected(answers[i], *aux)
                tag = 'cond-model:' + ('error' if want is None else 'defined')
            if want is None:
                # the model leaves its domain (c2mir reports an error, an unsupported ## result): nothing to compare,
                # except that running out of fuel or a driver error is a broken tie
                if not answers[i].startswith('err'):
                    model_breaks.append((texts[i], answers[i], c))
            elif M.squash(want) != M.squash(strip_marker(c)):
                tag += ':DISAGREES'
                model_breaks.append((texts[i], ' '.join(want), ' '.join(strip_marker(c))))
            elif want != strip_marker(c):
                tag += ':agree-modulo-spacing'
            else:
                tag += ':agree'
            if mk == 'fn' and want is not None and not tag.endswith('DISAGREES') and i in RAW:
                lost = separation_lost(answers[i].split()[1:], RAW[i])
                if lost:
                    # two tokens the model keeps apart are printed without white space: the token stream differs as text
                    tag += ':SEPARATION-LOST'
                    model_breaks.append((texts[i], 'white space between %r' % (lost[:3],), 'printed adjacent by c2m -E'))
            chk.dist('pp_models', tag)
    for i in [c[0] for c in cases if c[0] in results and results[c[0]][0] == 'ok'][:3]:
        chk.sample('pp case: ' + texts[i].replace('\n', ' \\n ')[:300])
    seen = set()
    for i in bad[:5]:
        small = shrink_pp_case(c2m, texts[i], d)
        r = compare_cases(c2m, [(0, small)], d, 'shr')[0]
        if small in seen:
            continue
        seen.add(small)
        chk.finding('pp:' + hashlib.sha1(small.encode()).hexdigest()[:12],
                    dict(kind='pp', text=small, original=texts[i], c2m=' '.join(r[1]), gcc=' '.join(r[2])),
                    'preprocessing of %s gives tokens `%s` under c2m -E but `%s` under gcc/clang -E'
                    % (json.dumps(small)[:400], ' '.join(r[1])[:200], ' '.join(r[2])[:200]))
    return len(results), bad, model_breaks


# ------------------------------------------------------------------ PpExpand model vs c2m (object-like macros)
OTHERS = ['+', '-', '*', '(', ')', '[', ']', '1', '22', ';', '"s"', '<', '==', ',', '0x3']


def run_objlike(chk, c2m, model, d, quick):
    """the extracted PpExpand.expand against c2m -E (and gcc) on object-like macro tables"""
    n = 300 if quick else 5000
    cases, queries, meta = [], [], []
    for k in range(n):
        rng = chk.rng('obj%d' % k)
        nm = rng.randint(1, 5)
        nplain = rng.randint(1, 3)

        def tok():
            r = rng.random()
            if r < 0.45:
                return 'i%d' % rng.randrange(nm)
            if r < 0.6:
                return 'i%d' % (nm + rng.randrange(nplain))
            return 'o%d' % rng.randrange(len(OTHERS))
        bodies = [[tok() for _ in range(rng.randint(0, 5))] for _ in range(nm)]
        inp = [tok() for _ in range(rng.randint(1, 6))]
        queries.append('X %d ; %s ; %s' % (nm, ' ; '.join(' '.join(b) for b in bodies), ' '.join(inp)))

        def spell(t, k=k):
            return 'e%d_I%s' % (k, t[1:]) if t[0] in 'ip' else OTHERS[int(t[1:])]
        text = ''.join('#define e%d_I%d %s\n' % (k, i, ' '.join(spell(t) for t in b)) for i, b in enumerate(bodies))
        text += ' '.join(spell(t) for t in inp) + '\n'
        cases.append((k, text))
        meta.append(spell)
    rc, out, err = vlib.run_lines(model, queries, timeout=600)
    if rc != 0 or len(out) != len(queries):
        raise vlib.BuildError('driver_c09 (expand) failed: rc=%d %s' % (rc, err[-300:]))
    results = {}
    B = 100
    for off in range(0, len(cases), B):
        results.update(compare_cases(c2m, cases[off:off + B], d, 'obj%d' % off))
    breaks, diffs = [], []
    for (k, text), mo, spell in zip(cases, out, meta):
        st, c, g = results[k]
        if st == 'unspecified':
            chk.dist('objlike', 'unspecified')
            continue
        c, g = c[1:] if c[:1] == [';'] else c, g[1:] if g[:1] == [';'] else g   # the `;` of the case marker line
        want = [spell(t) for t in mo.split()] if mo != 'OUT-OF-FUEL' else None
        chk.count('obj:' + text, nontrivial=len(g) >= 2)
        chk.dist('objlike', st)
        if st == 'diff':
            diffs.append((k, text, c, g))
        if want is None or M.squash(want) != M.squash(c):
            breaks.append((text, want, c))
        if want is not None and M.squash(want) != M.squash(g):
            raise vlib.BuildError('PpExpand model disagrees with gcc on %r: %s vs %s' % (text, want, g))
    for k, text, c, g in diffs[:3]:
        small = shrink_pp_case(c2m, text, d)
        r = compare_cases(c2m, [(0, small)], d, 'shr')[0]
        chk.finding('pp:' + hashlib.sha1(small.encode()).hexdigest()[:12],
                    dict(kind='pp', text=small, original=text, c2m=' '.join(r[1]), gcc=' '.join(r[2])),
                    'object-like expansion of %s gives `%s` under c2m -E but `%s` under gcc/clang and the PpExpand model'
                    % (json.dumps(small)[:300], ' '.join(r[1])[:200], ' '.join(r[2])[:200]))
    return len(cases), breaks


# ------------------------------------------------------------------ driver
def run(chk):
    quick = chk.tier == 'quick'
    lim = tr_c07_limits.check()
    r = chk.prove()
    r2 = chk.prove('Properties_C09fn')      # function-like expansion and conditional directives
    if not r2['ok']:
        r = dict(r, ok=False, log=r['log'] + '\n' + r2['log'])
    c2m, model = tools()
    model_fn = tool_fn()
    chk.cov['trusted_base'] += ['extraction: ExtrOcamlBasic only, no Extract Constant/Inductive of our own',
                                'ocaml/driver_c09.ml, ocaml/driver_c09fn.ml (parse + print only), tools/gen_c09_if.py (renders expressions)',
                                'tools/gen_c09_macro.py lex_c2m/model_query: the pp-token lexer is NOT modelled in Coq; the text is cut into tokens '
                                '(white space = one token per run) by this Python lexer before it reaches PpExpandFn',
                                'gcc -E as the reference C11 preprocessor (cross-checked against the Coq C11If specification)',
                                'tools/tr_c07_limits.py: coq/C07/Limits.v re-checked against c2mir/x86_64/cx86_64.h']
    with Scratch() as d:
        mine = os.path.join(d, 'c2m')      # the shared build cache may be pruned by concurrent checks
        shutil.copy(c2m, mine)
        c2m = mine
        n_if, if_findings, if_model_breaks = run_if(chk, c2m, model, d, quick)
        n_pp, pp_bad, fn_breaks = run_expand(chk, c2m, model_fn, d, quick, model)
        n_obj, obj_breaks = run_objlike(chk, c2m, model, d, quick)
    chk.cov['rule'] = ('#if: each generated controlling expression to which the C11 model gives a value is run as three '
                       'directives (group selection; (e)==predicted value; 0*(e)-1<0 for the type) under c2m -E and gcc -E '
                       'and compared with the extracted PpIf and C11If models; non-trivial = at least 3 nodes; distinct by text.  '
                       'pp: seeded macro sets + uses and nested conditional structures, token stream of c2m -E vs gcc -E -P, '
                       'counted only where gcc and clang agree (otherwise C11 leaves the nesting unspecified); non-trivial = at least 3 output tokens; '
                       'on the same texts the extracted PpExpandFn (function-like expansion) and PpCond (conditional stack) models must produce '
                       'the token stream of c2m -E (pp_models distribution), and c2m -E must exit 0 wherever gcc and clang do')
    tie_broken = bool(lim) or not r['ok'] or bool(if_model_breaks) or bool(obj_breaks) or bool(fn_breaks)
    if tie_broken and not chk.violations:
        if lim:
            r = dict(r)
            r['log'] = r['log'] + '\nLimits tie: ' + '; '.join(lim)
        if obj_breaks:
            r = dict(r)
            r['log'] += '\nPpExpand model disagrees with c2m -E on: %r' % (obj_breaks[:2],)
        if fn_breaks:
            r = dict(r)
            r['log'] += '\nPpExpandFn/PpCond model disagrees with c2m -E on (text, model, c2m): %r' % (fn_breaks[:2],)
        chk.proof_broken(r, searched='%d #if expressions, %d macro/conditional cases and %d object-like tables agreed between c2m, gcc and the models' % (n_if, n_pp, n_obj))


def replay(chk, path):
    j = json.load(open(path))['replay']
    c2m, model = tools()
    with Scratch() as d:
        if j.get('kind') == 'if':
            r = eval_if_batch(c2m, model, [j['prefix']], d, 'rp')[0]
            print('#if', r['text'])
            print('c2m probes (selected, ==value, signed):', r['obs_c2m'])
            print('gcc probes                            :', r['obs_gcc'])
            print('C11 model (unsigned, value)           :', r['model']['c11'])
            return 1 if if_bad(r) else 0
        if j.get('kind') == 'if-div0':
            bad = check_div0(chk, c2m, [(j['prefix'], j['text'])], d)
            print(bad or 'diagnosed by both')
            return 1 if bad else 0
        if j.get('kind') == 'pp':
            r = compare_cases(c2m, [(0, j['text'])], d, 'rp')[0]
            print(j['text'])
            print('c2m  :', ' '.join(r[1]))
            print('gcc  :', ' '.join(r[2]))
            print('verdict:', r[0])
            return 1 if r[0] == 'diff' else 0
    print('nothing to replay in', path)
    return 1

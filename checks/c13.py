# C13: load/load_external/link histories.  Model coq/C13/Link.v (theorems in coq/Properties_C13.v),
# tied to mir.c by running the extracted model and harness/c13_link.c on the same histories.
import os, sys, json, itertools
from concurrent.futures import ThreadPoolExecutor
import vlib

LEVEL = 'proof'
JOBS = 4

# C13_MODE for the harness and the model driver (see run()): '' = a rejected load has no effect and
# the history goes on (tree with fixes/C13-1.patch); 'ps' = the pinned tree: the model's variant
# [step false], and a rejected load ends the history (what follows it on that tree is garbage: the
# table of globals points into a module that is never linked)
MODE = {'C13_MODE': ''}

# the witness of fixes/C13-1.patch
PROBE = 'L e0 F0 ; L e0 F0 ; L i0 ; K 0 i'
# the witness of fixes/C13-2.patch: `K .. q` links with the interpreter interface and executes nothing;
# the importer runs for the first time after a NEWER definition has been loaded
PROBE2 = 'R 1 ; L e0 D0 ; L i0 ; K 0 q ; L e0 D0 ; K 0 i'
QUIET = {'ok': False}    # are `K .. q` links generated?'


# ------------------------------------------------------------------ generators

def gen_module(rng, nnames, valid_bias=0.9):
    """declaration list of one module"""
    ds = []
    if rng.random() < valid_bias:
        # mostly well-formed: each name plays one role
        for n in rng.sample(range(nnames), rng.randint(1, nnames)):
            role = rng.random()
            if role < 0.30:
                ds += rng.choice([['e%d', 'F%d'], ['F%d', 'e%d'], ['f%d', 'e%d', 'F%d'], ['e%d', 'f%d', 'F%d'],
                                  ['f%d', 'F%d', 'e%d'], ['e%d', 'F%d', 'e%d']])
            elif role < 0.60:
                ds += rng.choice([['i%d'], ['i%d'], ['i%d', 'i%d']])
            elif role < 0.70:
                ds += rng.choice([['e%d', 'D%d'], ['D%d', 'e%d']])
            elif role < 0.80:
                ds += rng.choice([['F%d'], ['f%d', 'F%d'], ['D%d'], ['F%d', 'f%d']])
            elif role < 0.86:
                ds += rng.choice([['e%d', 'P%d'], ['P%d'], ['f%d', 'P%d']])
            elif role < 0.97:
                ds += rng.choice([['e%d'], ['f%d'], ['f%d', 'e%d'], ['e%d', 'f%d']])
            else:
                ds += rng.choice([['i%d', 'F%d'], ['F%d', 'F%d'], ['P%d', 'e%d'], ['e%d', 'i%d'], ['F%d', 'i%d'],
                                  ['F%d', 'D%d'], ['i%d', 'e%d'], ['P%d', 'i%d'], ['f%d', 'i%d']])
            ds = [d % n if '%' in d else d for d in ds]
            if rng.random() < 0.25:   # a function too big to be inlined: calls go through its thunk
                ds = [('B' + d[1:]) if d[0] == 'F' else d for d in ds]
            if rng.random() < 0.4:    # data as a section of several items (named head + anonymous followers)
                ds = [('S' + d[1:]) if d[0] == 'D' else d for d in ds]
        if rng.random() < 0.3:
            rng.shuffle(ds)
    else:
        for _ in range(rng.randint(1, 7)):
            ds.append(rng.choice('ieffFFBDSP') + str(rng.randrange(nnames)))
    return 'L ' + ' '.join(ds)


def gen_script(rng, nnames, gen_share):
    """`J` op: MIR_link with a scripted resolver that LOADS modules while the link is running (libraries loaded on
    demand).  Entries for 1..nnames names; an entry loads 0-2 modules (a library exporting/defining the name, often
    importing further names: chains) and answers with the library's definition (m), an external (x<a>) or NULL (0)."""
    mask = rng.choice([0, 0, (1 << nnames) - 1, rng.randrange(1 << nnames)])
    iface = rng.choice('gl') if rng.random() < gen_share else rng.choice('iiiq' if QUIET['ok'] else 'i')
    out = ['J %d %s' % (mask, iface)]
    for n in rng.sample(range(nnames), rng.randint(1, nnames)):
        ans = rng.choice(['m', 'm', 'm', 'm', 'x%d' % rng.randrange(8), '0'])
        out.append('@ %d %s' % (n, ans))
        for j in range(rng.choice([0, 1, 1, 1, 1, 2])):
            if rng.random() < 0.7:
                # a library: defines n (exported or not, small / big function, data), imports others
                d = rng.choice(['F', 'F', 'B', 'D', 'S', 'P'])
                ds = rng.choice([['e%d' % n, '%s%d' % (d, n)], ['%s%d' % (d, n), 'e%d' % n], ['%s%d' % (d, n)],
                                 ['f%d' % n, '%s%d' % (d, n), 'e%d' % n]])
                for o in range(nnames):
                    if o != n and rng.random() < 0.5:
                        ds = ds + rng.choice([['i%d' % o], ['i%d' % o], ['e%d' % o, 'F%d' % o], ['e%d' % o, 'D%d' % o]])
                if rng.random() < 0.2:
                    rng.shuffle(ds)
                out.append('+ ' + ' '.join(ds))
            else:
                out.append('+ ' + gen_module(rng, nnames, 0.97)[2:])
    return ' '.join(out)


# values of `int enable_p` that permit redefinition: the model (and the documentation) take any non-zero value as TRUE
TRUTHY = [1, 2, -1, 4, 256, 0x10000, -2, 0x7ffffffe, 0x40000000, -2147483648, 6, 0x100, 3, -256]


def truthy_perm(rng, h, p):
    if 'R 1' not in h:
        return h
    return ' ; '.join(('R %d' % rng.choice(TRUTHY)) if o.strip() == 'R 1' and rng.random() < p else o.strip() for o in h.split(';'))


def gen_history(rng, nops, gen_share, reent=0.0):
    return truthy_perm(rng, gen_history1(rng, nops, gen_share, reent), 0.6)


def gen_history1(rng, nops, gen_share, reent=0.0):
    nnames = rng.choice([1, 2, 2, 3, 3, 4])
    ops = []
    if rng.random() < 0.6:
        ops.append('R 1')
    for _ in range(nops):
        k = rng.random()
        if reent and rng.random() < reent:
            ops.append(gen_script(rng, nnames, gen_share))
        elif k < 0.50:
            ops.append(gen_module(rng, nnames))
        elif k < 0.64:
            ops.append('X %d %d' % (rng.randrange(nnames), rng.randrange(8)))
        elif k < 0.70:
            ops.append('R %d' % rng.choice([0, 1, 1, 1]))
        else:
            mask = rng.choice([0, (1 << nnames) - 1, (1 << nnames) - 1, (1 << nnames) - 1, rng.randrange(1 << nnames),
                               rng.randrange(1 << nnames)])
            iface = rng.choice('gl') if rng.random() < gen_share else 'i'
            if iface == 'i' and QUIET['ok'] and rng.random() < 0.3:
                iface = 'q'      # interpreter interface, nothing executed until a later link
            if rng.random() < 0.08:
                iface = 'n'      # MIR_link with a NULL set_interface: binds, keeps the queue
            ops.append('K %d %s' % (mask, iface))
    if not ops[-1].startswith('K') and not ops[-1].startswith('J'):
        ops.append('K %d i' % ((1 << nnames) - 1))
    return ' ; '.join(ops)


EXH_ALPHABET = ['L e0 F0', 'L i0', 'L e0 F0 i1', 'L e1 B1 i0', 'L e1 F1', 'L i0 i1', 'X 0 0', 'X 1 1', 'R 1',
                'K 0 i', 'K 3 i']


# a second small alphabet: declaration orders, data and proto exports, revoking the permission, the
# generator interfaces
EXH_ALPHABET2 = ['L f0 e0 F0', 'L e0 S0', 'L i0', 'L e0 P0', 'L F0 e0 i1', 'X 0 1', 'R 1', 'R 0', 'K 0 g', 'K 3 l']

# a third one aimed at histories that go on after an error: rejected loads (also of a module that
# exports something new besides the clashing function), failed links (resolver answers before the
# failing import), retries, interface-less links
# with fixes/C13-2.patch: links after which nothing is executed (the importer first runs later)
EXH_ALPHABET4 = ['R 1', 'L e0 D0', 'L e0 F0 e1 S1', 'L i0', 'L i0 i1', 'X 0 2', 'X 1 3', 'K 0 q', 'K 0 i', 'K 0 l']

EXH_ALPHABET3 = ['L e0 F0', 'L e1 S1 e0 B0', 'L i1 i0', 'L i0', 'X 0 2', 'R 1', 'K 0 i', 'K 2 i', 'K 2 n', 'K 3 g']


# round 3: ONE name defined in every way a name can be defined (small / big function, data, section, proto, external
# address, resolver answer for an importer), permission switched on and off: the redefinition rule is about the
# whole history of the name ("a second exported function"), not about what the table of globals holds at the moment
EXH_ALPHABET5 = ['L e0 F0', 'L e0 B0', 'L e0 D0', 'L e0 S0', 'L e0 P0', 'X 0 1', 'L i0', 'K 1 i', 'K 0 i', 'R 1', 'R 0']


# round 3 (wave 5): links whose resolver loads modules itself (MIR_load_module re-entered from the import resolver while
# MIR_link walks the queue): a library that imports a name defined by an external / by an earlier or later load / by a
# second library the resolver loads (chain), answers m / x / NULL, a rejected library load, before and after plain links
EXH_ALPHABET6 = ['L i0', 'L i0 i1', 'L e1 F1', 'X 1 3', 'R 1', 'J 0 i @ 0 m + e0 F0 i1',
                 'J 0 i @ 0 m + e0 B0 i1 @ 1 m + e1 D1', 'J 2 g @ 0 x5 + e0 F0 i1', 'J 0 i @ 1 m + e0 F0 + F1 i0', 'J 0 i @ 0 0 + e0 F0',
                 'K 0 i', 'K 3 i']


# wave 6: the boundary seeded C13-v2 lives on - what MIR_link does with the EXPORT items of the modules it walks.  One name
# with several definitions registered between the loads and one link (older exporter queued before the importer, newer
# exporter / external registered after it), observed through paths that are not inlined (big function, address in a
# register, generator interfaces), and modules that declare `export` / `forward` of a name they do NOT define (the item
# finds itself in the module table: nothing may be published for it, and nothing may follow its ref_def)
EXH_ALPHABET7 = ['R 1', 'L e0 B0', 'L e0 F0', 'L i0', 'L e0', 'L f0 e0', 'L e0 f0 i1', 'X 0 1', 'K 0 i', 'K 0 g', 'K 1 l']


def exhaustive(maxlen, alphabet=None):
    out = []
    alphabet = alphabet or EXH_ALPHABET
    for n in range(1, maxlen + 1):
        for t in itertools.product(alphabet, repeat=n):
            if t[-1][0] not in 'KLJ':
                continue  # a history ending in X/R shows nothing its prefix did not
            out.append(' ; '.join(t))
    return out


# ------------------------------------------------------------------ running

HANG_RC = 124     # harness/c13_link.c: the watchdog of a history fired; its line ends in ` HANG@<phase>`
NOT_RUN = []      # histories skipped after too many hangs / crashes in their chunk
HANGS = []        # histories on which the implementation did not terminate (per correspond() call)
MAX_HANGS = 6     # per chunk: each one costs C13_HANG_CPU seconds


def is_hang(line):
    return ' HANG@' in line or line.startswith('HANG')


def run_chunk(exe, lines, env=None):
    """run all lines; if the process dies, mark the line it died on and carry on after it.  The harness stops a
    history that does not terminate itself (CPU-time watchdog, exit code 124, line closed with HANG@<phase>): that
    line is the history's outcome, the run goes on with a fresh process after it.  The subprocess timeout is only
    the backstop behind the per-history watchdog (a chunk of 20 000 histories takes ~5 s)."""
    out = []
    start = 0
    crashes = 0
    hangs = 0
    while start < len(lines):
        rc, o, e = vlib.run_lines(exe, lines[start:], timeout=900, env=dict(MODE, **(env or {})))
        if o and o[-1] == '' and len(o) > len(lines) - start:
            o = o[:-1]
        if rc == 0 and len(o) == len(lines) - start:
            out += o
            break
        if rc == HANG_RC and o and is_hang(o[-1]) and len(o) <= len(lines) - start:
            out += o
            start += len(o)
            hangs += 1
            if hangs >= MAX_HANGS:
                out += ['HANG (not run: %d histories of this chunk did not terminate)' % hangs] * (len(lines) - start)
                break
            continue
        k = min(len(o), len(lines) - start - 1)
        out += o[:k]
        out.append('%s rc=%d %s' % ('HANG (chunk timeout)' if '[timeout]' in e else 'CRASH', rc, e[-200:].replace('\n', ' ')))
        start += k + 1
        crashes += 1
        if crashes > 20:
            out += ['CRASH (not run: too many crashes)'] * (len(lines) - start)
            break
    return out


def run_parallel(exe, lines, jobs=JOBS, env=None):
    """-> (rc, output lines, '') ; bounded chunks so that one process never runs too long"""
    size = 20000
    chunks = [lines[i:i + size] for i in range(0, len(lines), size)]
    if len(chunks) <= 1:
        outs = [run_chunk(exe, c, env) for c in chunks]
    else:
        with ThreadPoolExecutor(max_workers=jobs) as ex:
            outs = list(ex.map(lambda c: run_chunk(exe, c, env), chunks))
    out = [l for o in outs for l in o]
    return (0 if len(out) == len(lines) else 1), out, ''


def impl_line(impl, h):
    rc, o, e = vlib.run_lines(impl, [h], timeout=120, env=dict(MODE, C13_HANG_CPU='2'))
    if rc == HANG_RC and len(o) == 1 and is_hang(o[0]):
        return o[0]
    if rc != 0 or len(o) != 1:
        return 'CRASH rc=%d %s' % (rc, (o[0] if o else '') + e[-200:])
    return o[0]


def model_line(model, h, env=None):
    b = vlib.run_lines(model, [h], env=env or MODE)[1]
    return b[0] if b else None


def prop_view(line):
    """the observables the property talks about: error codes, and for every linked module what each
    IMPORT is bound to (address identity / value obtained through it).  Dropped: the order and
    multiplicity of resolver calls and the module-local export/forward bindings (these only tie the
    model to the code more tightly)."""
    import re
    out = []
    for st in line.split(' | '):
        if st.startswith('ok res='):
            mods = re.findall(r'([mp]\d+)\{([^}]*)\}', st)
            out.append('ok ' + ' '.join('%s{%s}' % (m, ' '.join(b for b in bs.split() if b.startswith('i')))
                                        for m, bs in mods))
        elif st.startswith('E:') and ' res=' in st:
            out.append(st.split(' res=')[0])
        else:
            out.append(st)
    return ' | '.join(out)


def prop_pair(a, b):
    """(implementation, model) restricted to the property's observables.  A step the model rejects
    with `repeated_decl*` (a function clashing with something that is NOT an exported MIR function:
    the property text does not speak about it) ends the property-level comparison."""
    sa, sb = unwild(a, b).split(' | '), b.split(' | ')
    for i, t in enumerate(sb):
        if t == 'E:repeated_decl*':
            sa, sb = sa[:i], sb[:i]
            break
    return prop_view(' | '.join(sa)), prop_view(' | '.join(sb))


KNOWN_SIG = 'reent-load-redef-inline'
KNOWN_HITS = []     # (implementation line, model line) on which the known finding reproduced


def unwild(a, b, hits=None):
    """Known finding reent-load-redef-inline (KNOWN_FINDINGS.txt, design/C13.md "Wave 5"): an import whose table entry
    was REDEFINED with a MIR function by a load the resolver performed inside the same link step, after the import was
    bound.  The model prints its call value as `?<older>|<newer>` (the value through the address it is bound to | the
    value of the newer function, whose body process_inlines may have inlined).  Exactly these two values are accepted
    at exactly these places - the implementation's token is then rewritten to the model's; anything else stays a
    difference.  `hits` collects the places where the NEWER value was observed (= the finding reproduced)."""
    if '/?' not in b:
        return a
    ta, tb = a.split(' '), b.split(' ')
    if len(ta) != len(tb):
        return a
    out = []
    for x, y in zip(ta, tb):
        yy = y.rstrip('}')
        if '/?' in yy and '/' in x:
            head, alts = yy.rsplit('/?', 1)
            old, new = alts.split('|')
            xh, xv = x.rstrip('}').rsplit('/', 1)
            if xh == head and xv in (old, new):
                if xv == new and hits is not None:
                    hits.append(y)
                x = yy + ('}' if x.endswith('}') else '')
        out.append(x)
    return ' '.join(out)


def full_eq(a, b):
    return unwild(a, b) == b.replace('E:repeated_decl*', 'E:repeated_decl')


def correspond(impl, model, hs):
    rc2, o2, e2 = run_parallel(model, hs)
    if rc2 != 0 or len(o2) != len(hs):
        raise vlib.BuildError('C13 model driver failed: rc=%d %s' % (rc2, e2[-500:]))
    rc1, o1, e1 = run_parallel(impl, hs)
    bad = []
    for h, a, b in zip(hs, o1, o2):
        if '(not run' in a:
            NOT_RUN.append(h)
            continue
        if is_hang(a):
            HANGS.append(h)
        if not full_eq(a, b):
            bad.append((h, a, b))
        elif '/?' in b:
            hits = []
            unwild(a, b, hits)
            if hits:
                KNOWN_HITS.append((h, a, b))
    return bad


def differs(a, b, prop):
    if prop:
        x, y = prop_pair(a, b)
        return x != y
    return not full_eq(a, b)


def shrink(impl, model, h, prop=False):
    ops = [o.strip() for o in h.split(';') if o.strip()]
    # the kind of failure is kept: a history on which the implementation answers wrongly is not shrunk into one on
    # which it does not terminate (and vice versa) - these are different defects (and a hanging candidate costs seconds)
    hang0 = is_hang(impl_line(impl, ' ; '.join(ops)))

    def fails(sub):
        s = ' ; '.join(sub)
        b = model_line(model, s)
        if b is None:
            return False
        a = impl_line(impl, s)
        return is_hang(a) == hang0 and differs(a, b, prop)
    sub = vlib.shrink_list(ops, fails)
    # also try dropping single declarations inside each L op
    changed = True
    while changed:
        changed = False
        for i, o in enumerate(sub):
            if not o.startswith('L'):
                continue
            ds = o.split()[1:]
            for j in range(len(ds)):
                cand = sub[:i] + ['L ' + ' '.join(ds[:j] + ds[j + 1:])] + sub[i + 1:]
                if fails(cand):
                    sub = cand
                    changed = True
                    break
            if changed:
                break
    # drop script entries / script modules / single declarations of J ops
    changed = True
    while changed:
        changed = False
        for i, o in enumerate(sub):
            if not o.startswith('J'):
                continue
            w = o.split()
            cands = []
            for j in range(3, len(w)):
                if w[j] == '@':      # the whole entry
                    k = j + 1
                    while k < len(w) and w[k] != '@':
                        k += 1
                    cands.append(w[:j] + w[k:])
                elif w[j] == '+':    # one module
                    k = j + 1
                    while k < len(w) and w[k] not in '@+':
                        k += 1
                    cands.append(w[:j] + w[k:])
                elif w[j - 1] != '@' and w[j - 2] != '@':   # one declaration
                    cands.append(w[:j] + w[j + 1:])
            for c in cands:
                cand = sub[:i] + [' '.join(c)] + sub[i + 1:]
                if fails(cand):
                    sub = cand
                    changed = True
                    break
            if changed:
                break
    return ' ; '.join(sub)


def classify(h, a, b):
    """which clause of the property the disagreement is about (for the report)"""
    ta, tb = a.split(' | '), b.split(' | ')
    for x, y in zip(ta, tb):
        if x != y:
            if is_hang(x):
                return 'the implementation does not terminate: "%s" (model "%s")' % (x, y)
            if x.startswith('E:') or y.startswith('E:'):
                return 'error reporting (model %s, implementation %s)' % (y.split()[0], x.split()[0])
            return 'binding after link (model "%s", implementation "%s")' % (y, x)
    return 'different number of completed steps'


def build(variant='plain'):
    impl = vlib.build_harness('c13_link', ['c13_link.c'], variant=variant)
    model = vlib.ocaml_build('c13', 'Extract_C13', ['c13x'], 'driver_c13.ml')
    return impl, model


def coqchk(chk):
    """thorough tier: re-check the compiled property file and its whole dependency closure with Coq's
    independent checker and record the axioms it reports"""
    import re
    rc, out, err = vlib.sh(['timeout', '1500', 'coqchk', '-o', '-silent', '-Q', '.', 'MirV',
                            'MirV.Properties_%s' % chk.prop], cwd=vlib.COQDIR)
    txt = out + err
    m = re.search(r'\* Axioms:(.*?)\* Constants', txt, re.S)
    chk.cov['coqchk'] = dict(rc=rc, axioms=(m.group(1).strip() if m else '?'))
    if rc != 0:
        chk.notes.append('coqchk failed: ' + txt[-400:])
    return rc == 0


def select_mode(chk, impl, model):
    """Decides on the witness history of fixes/C13-1.patch which variant of a rejected load the tree
    has.  -> False when the run cannot go on."""
    MODE['C13_MODE'] = ''
    a = impl_line(impl, PROBE)
    fixed_b = model_line(model, PROBE, {'C13_MODE': ''})
    pinned_b = model_line(model, PROBE, {'C13_MODE': 'p'})
    registered = any('C13-1' in t for t in chk.fixed)
    chk.cov['rejected_load_probe'] = dict(history=PROBE, impl=a, model_no_effect=fixed_b, model_pinned=pinned_b)
    if full_eq(a, fixed_b):
        chk.cov['rejected_load'] = 'has no effect (fixes/C13-1.patch is in): histories go on after it'
        return True
    if full_eq(a, pinned_b):
        if registered:
            chk.finding('C13-1:rejected-load-publishes', dict(history=PROBE, impl=a, model=fixed_b),
                        'C13 a module rejected by MIR_load_module (repeated_decl) is visible to later links: %s gives %s' % (PROBE, a))
        else:
            chk.notes.append('fixes/C13-1.patch not in this tree: a rejected MIR_load_module has already published the '
                             'module\'s items (witness %s -> %s); histories are cut at a rejected load and compared with '
                             'the model\'s pinned variant up to there' % (PROBE, a))
            chk.cov['rejected_load'] = 'publishes (pinned tree): histories end at a rejected load'
        MODE['C13_MODE'] = 'ps'
        return True
    chk.finding('diff:' + PROBE, dict(history=PROBE, impl=a, model=fixed_b, model_pinned=pinned_b),
                'C13 binding after a rejected load matches neither variant of the model: %s' % PROBE)
    return False


def select_quiet(chk, impl, model):
    """fixes/C13-2.patch: does a module linked with the interpreter interface keep its link-time binding
    of an address-taken import when it first runs only after a newer definition was loaded?"""
    a = impl_line(impl, PROBE2)
    b = model_line(model, PROBE2)
    registered = any('C13-2' in t for t in chk.fixed)
    chk.cov['late_first_run_probe'] = dict(history=PROBE2, impl=a, model=b)
    QUIET['ok'] = full_eq(a, b)
    if QUIET['ok']:
        chk.cov['late_first_run'] = 'keeps the link-time binding (fixes/C13-2.patch is in): `K .. q` links are generated'
    elif registered:
        chk.finding('C13-2:interp-late-binding', dict(history=PROBE2, impl=a, model=b),
                    'C13 a module linked with the interpreter interface but first run after a newer definition was '
                    'loaded reads the NEWER definition through its import: %s gives %s' % (PROBE2, a))
    else:
        chk.notes.append('fixes/C13-2.patch not in this tree: the interpreter refreshes the address of an import used '
                         'as `mov reg, import` when it first translates the function, so a module linked earlier sees a '
                         'definition loaded later (witness %s -> %s); every accessor is executed right after each link, '
                         'no `K .. q` links are generated' % (PROBE2, a))
        chk.cov['late_first_run'] = 'tracks later loads until the first run (pinned tree): not explored further'


def run(chk):
    quick = chk.tier == 'quick'
    r = chk.prove()
    if not quick and r['ok'] and not coqchk(chk):
        r = dict(r, ok=False, log=r['log'] + '\ncoqchk rejected the compiled proofs')
    impl, model = build()
    chk.cov['trusted_base'] += ['extraction: ExtrOcamlBasic only, no Extract Constant/Inductive of our own',
                                'ocaml/driver_c13.ml, harness/c13_link.c (parse, build tiny modules through the public API, print)',
                                'gcc; mir-gen/mir-interp as the engines through which bindings are observed']
    if not select_mode(chk, impl, model):
        return
    select_quiet(chk, impl, model)
    hs = []
    corpus = os.path.join(vlib.VERIF, 'corpus', 'c13.txt')
    if os.path.exists(corpus):
        hs += [l.strip() for l in open(corpus) if l.strip() and not l.startswith('#')]
    # witnesses of the known finding reent-load-redef-inline: run on every run
    wfile = os.path.join(vlib.VERIF, 'corpus', 'c13_reent_inline_redef.txt')
    if os.path.exists(wfile):
        hs += [l.strip() for l in open(wfile) if l.strip() and not l.startswith('#')]
    ncorpus = len(hs)
    ex = (exhaustive(4 if quick else 6) + exhaustive(3 if quick else 5, EXH_ALPHABET2)
          + exhaustive(4 if quick else 5, EXH_ALPHABET3) + exhaustive(4 if quick else 5, EXH_ALPHABET5)
          + exhaustive(3 if quick else 5, EXH_ALPHABET6) + exhaustive(4 if quick else 5, EXH_ALPHABET7))
    if QUIET['ok']:
        ex += [h for h in exhaustive(5 if quick else 6, EXH_ALPHABET4) if 'q' in h and h.startswith('R 1')]
    rng = chk.rng('hist')
    if quick:  # a seeded sample of the length-5/6 part of the exhaustive space
        for _ in range(12000):
            t = [rng.choice(rng.choice([EXH_ALPHABET, EXH_ALPHABET2, EXH_ALPHABET3, EXH_ALPHABET5])) for _ in range(rng.choice([5, 6, 7]))]
            t[-1] = rng.choice(['K 0 i', 'K 3 i', 'K 3 g', 'L i0 i1', 'L e0 F0'])
            ex.append(' ; '.join(t))
        rng6 = chk.rng('reent-exh')
        for _ in range(6000):   # length 4-6 over the re-entrant alphabet
            t = [rng6.choice(EXH_ALPHABET6) for _ in range(rng6.choice([4, 5, 6]))]
            t[-1] = rng6.choice([o for o in EXH_ALPHABET6 if o[0] in 'KJ'])
            ex.append(' ; '.join(t))
        rng7 = chk.rng('batch-exh')   # own stream: length 5-7 over the several-definitions-per-batch alphabet
        for _ in range(3000):
            t = [rng7.choice(EXH_ALPHABET7) for _ in range(rng7.choice([5, 6, 7]))]
            t[-1] = rng7.choice([o for o in EXH_ALPHABET7 if o[0] == 'K'])
            ex.append(' ; '.join(t))
    # round 3 (seeded C13-u2): the permission is an `int` truth value - every `R 1` of the exhaustive part is given, with
    # probability 1/2 and on its own random stream, another truthy int (low bit clear, negative, one high bit, INT_MIN ...)
    rng_t = chk.rng('truthy')
    ex = [truthy_perm(rng_t, h, 0.5) for h in ex]
    hs += ex
    nrand = 20000 if quick else 150000
    for i in range(nrand):
        hs.append(gen_history(rng, rng.choice([2, 4, 6, 9, 14]), gen_share=0.25 if quick else 0.4))
    rng_re = chk.rng('reent')   # own stream: the histories above stay what they were
    nre = 6000 if quick else 50000
    for i in range(nre):
        hs.append(gen_history(rng_re, rng_re.choice([2, 3, 4, 6, 9]), gen_share=0.25 if quick else 0.4, reent=0.3))
    nrand += nre
    chk.log('%d histories (%d corpus, %d exhaustive, %d random)' % (len(hs), ncorpus, len(ex), nrand))
    for h in hs:
        ops = [o.strip() for o in h.split(';')]
        chk.count(h, nontrivial=sum(1 for o in ops if o[:1] in ('K', 'J')) >= 1 and len(ops) >= 3)
    for h in hs[ncorpus + len(ex):]:
        for o in h.split(';'):
            w = o.split()
            if w:
                chk.dist('ops', w[0] + (w[2] if w[0] in 'KJ' else ''))
                if w[0] == 'J':
                    chk.dist('resolver_script', 'entries=%d modules=%d answers=%s' % (
                        w.count('@'), w.count('+'), ''.join(sorted(set(w[j + 2][0] for j in range(len(w)) if w[j] == '@')))))
        chk.dist('history_len', min(20, h.count(';') + 1))
    chk.cov['rule'] = ('histories of Load/LoadExternal/SetRedef/Link run on mir.c (harness/c13_link.c, fresh context per '
                      'history) and on the extracted Coq model; compared: error code of every step, resolver calls, and '
                      'after every link the address identity of every import/export/forward item of every module linked '
                      'so far plus the value obtained by calling/reading through each import; non-trivial = has a link '
                      'and >= 3 ops; exhaustive part = all histories over %d fixed ops up to length %d and over %d other ops '
                      'up to length %d and over %d more (rejected loads, failed links, retries, NULL-interface links) up to '
                      'length %d and over 11 ops defining ONE name in every way (functions, data, section, proto, external, resolver '
                      'answer) up to the same length and over 11 ops with several definitions of one name per link batch + definition-less '
                      'export/forward modules (wave 6) up to the same length; a history GOES ON after a failed link and - when fixes/C13-1.patch is in - after a rejected '
                      'load' % (len(EXH_ALPHABET), 4 if quick else 6, len(EXH_ALPHABET2), 3 if quick else 5,
                                len(EXH_ALPHABET3), 4 if quick else 5))
    for h in hs[ncorpus + len(ex):][:4]:
        chk.sample(h)
    del KNOWN_HITS[:], HANGS[:], NOT_RUN[:]
    bad = correspond(impl, model, hs)
    chk.cov['watchdog'] = dict(rule='every history runs under a CPU-time limit in the harness (4 s; 2 s while shrinking; a healthy history takes '
                                    '< 10 ms); a history that does not terminate is closed with HANG@<phase> = a disagreement with the model',
                               histories_that_did_not_terminate=len(HANGS), histories_not_run_after_too_many_hangs_or_crashes=len(NOT_RUN))
    if NOT_RUN:
        chk.notes.append('%d histories were not run: too many hangs/crashes in their chunk' % len(NOT_RUN))
    chk.cov['reent_load_redef_inline'] = dict(histories_where_the_newer_body_was_observed=len(KNOWN_HITS),
                                              rule='call value of an import whose table entry was redefined with a MIR function by a load '
                                                   'performed inside the same link step: exactly the older or the newer value is accepted, '
                                                   'the newer one is the known finding; every other call value is compared exactly')
    if KNOWN_HITS:
        h, a, b = min(KNOWN_HITS, key=lambda x: (len(x[0]), x[0]))
        chk.finding(KNOWN_SIG, dict(history=h, impl=a, model=b, witness_file='corpus/c13_reent_inline_redef.txt',
                                    histories=len(KNOWN_HITS)),
                    'C13 an import bound by a link step during which the resolver loaded a module that redefines the name executes the '
                    'NEWER function body (inlined through import->ref_def) while its address is the older definition: %s gives %s' % (h, a))
    # measured outcome distribution (from the model's side)
    outs = run_parallel(model, hs[ncorpus + len(ex):])[1]
    for o in outs:
        steps = o.split(' | ')
        last = steps[-1] if steps else ''
        chk.dist('outcome', last.split()[0] if last else 'empty')
        chk.dist('links_completed', min(8, sum(1 for s in steps if s.startswith('ok res='))))
        # steps taken AFTER an error in the same context
        errs = [i for i, s_ in enumerate(steps) if s_.startswith('E:')]
        chk.dist('steps_after_first_error', min(8, len(steps) - 1 - errs[0]) if errs else 'no error')
        chk.dist('rejected_loads', min(4, sum(1 for s_ in steps if s_.startswith('E:repeated_decl'))))
        chk.dist('failed_links', min(4, sum(1 for s_ in steps if s_.startswith('E:undeclared_op_ref'))))
        chk.dist('links_completed_after_error', min(4, sum(1 for s_ in steps[errs[0]:] if s_.startswith('ok res='))) if errs else 0)
    prop_bad = [x for x in bad if differs(x[1], x[2], True)]
    seen = set()
    # wrong answers first (up to 3 shrunk witnesses, 2 when some history also hangs), then one history on which the
    # implementation does not terminate
    wrong = [x for x in prop_bad if not is_hang(x[1])]
    hung = [x for x in prop_bad if is_hang(x[1])]
    for group, quota in ((wrong[:40], 2 if hung else 3), (hung[:5], 1)):
        got = 0
        for h, a, b in group:
            small = shrink(impl, model, h, True)
            if small in seen:
                continue
            seen.add(small)
            ia = impl_line(impl, small)
            mb = model_line(model, small)
            chk.finding('diff:' + small, dict(history=small, impl=ia, model=mb, original=h),
                        'C13 %s on history: %s' % (classify(small, *prop_pair(ia, mb)), small))
            got += 1
            if got >= quota:
                break
    if bad and not prop_bad:
        h, a, b = bad[0]
        small = shrink(impl, model, h)
        ia = impl_line(impl, small)
        mb = model_line(model, small)
        chk.finding('tie:link-trace', dict(correspondence='C13 Link.v vs mir.c on resolver-call order / local export+forward bindings',
                                           history=small, impl=ia, model=mb, disagreements=len(bad),
                                           searched='%d histories: all error codes and import bindings agreed' % len(hs)),
                    'C13 model/implementation tie broken (%s) but every import binding and error code agrees; e.g. %s' % (
                        classify(small, ia, mb), small), no_input=True)
    if not quick and not bad:
        # sanitizer build on a sample
        try:
            impl_asan = vlib.build_harness('c13_link', ['c13_link.c'], variant='asan')
            sample = hs[:ncorpus] + ex[:3000] + hs[ncorpus + len(ex):][:3000]
            rc, o, e = vlib.run_lines(impl_asan, sample, timeout=3000,
                                      env=dict(MODE, ASAN_OPTIONS='detect_leaks=0', UBSAN_OPTIONS='print_stacktrace=1'))
            mo = vlib.run_lines(model, sample, env=MODE)[1]
            if rc != 0 or len(o) != len(mo) or not all(full_eq(x, y) for x, y in zip(o, mo)):
                for h, b in zip(sample, mo):
                    rc1, o1, e1 = vlib.run_lines(impl_asan, [h], timeout=120, env=dict(MODE, ASAN_OPTIONS='detect_leaks=0'))
                    if rc1 != 0 or len(o1) != 1 or not full_eq(o1[0], b):
                        chk.finding('asan:' + h, dict(history=h, impl=o1, stderr=e1[-1500:], model=b),
                                    'C13 sanitizer build disagrees/crashes on history: %s' % h)
                        break
            chk.notes.append('asan/ubsan build: %d histories' % len(sample))
        except vlib.BuildError as ex_:
            chk.notes.append('asan build failed: %s' % str(ex_)[:200])
    if not r['ok'] and not bad:
        chk.proof_broken(r, searched='%d histories agreed between model and implementation' % len(hs))


def replay(chk, path):
    j = json.load(open(path))
    impl, model = build()
    h = j['replay']['history']
    if j.get('signature', '').startswith('C13-1'):
        MODE['C13_MODE'] = ''
    else:
        select_mode(chk, impl, model)
    a = impl_line(impl, h)
    b = model_line(model, h)
    print('history:', h)
    print('impl :', a)
    print('model:', b)
    return 0 if b is not None and full_eq(a, b) else 1

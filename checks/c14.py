# C14: data/bss/ref/lref/expr sections.  Model coq/C14/DataSection.v (theorems in
# coq/Properties_C14.v), tied to mir.c by running harness/c14_data.c and the extracted model on the
# same item sequences (the model gets the addresses the allocator/thunk pool handed out as oracle).
import os, sys, json
from concurrent.futures import ThreadPoolExecutor
import vlib

LEVEL = 'proof'
JOBS = 4

TYPES = ['i8', 'u8', 'i16', 'u16', 'i32', 'u32', 'i64', 'u64', 'f', 'd', 'ld', 'p']
TSIZE = dict(i8=1, u8=1, i16=2, u16=2, i32=4, u32=4, i64=8, u64=8, f=4, d=8, ld=16, p=8)
INT_TYPES = TYPES[:8] + ['p']


def rand_pattern(rng, nbytes):
    k = rng.random()
    bits = 8 * nbytes
    if k < 0.25:
        v = rng.choice([0, 1, 2, 0x7f, 0x80, 0xff, (1 << (bits - 1)) - 1, 1 << (bits - 1), (1 << bits) - 1,
                        (1 << bits) - 2])
    else:
        v = rng.getrandbits(bits)
    return v & ((1 << bits) - 1)


def rand_float_bits(rng, t):
    import struct
    x = rng.choice([0.0, 1.0, -1.0, 1.5, 3.141592653589793, -2.5e10, 1e-3, 65536.0, rng.uniform(-1e6, 1e6)])
    if t == 'f':
        return struct.unpack('<I', struct.pack('<f', x))[0]
    if t == 'd':
        return struct.unpack('<Q', struct.pack('<d', x))[0]
    # x87 extended from a double: sign, 15-bit exponent, explicit integer bit
    b = struct.unpack('<Q', struct.pack('<d', x))[0]
    sign, e, m = b >> 63, (b >> 52) & 0x7ff, b & ((1 << 52) - 1)
    if e == 0 and m == 0:
        return sign << 79
    return (sign << 79) | ((e - 1023 + 16383) << 64) | (1 << 63) | (m << 11)


def rand_disp(rng):
    k = rng.random()
    if k < 0.3:
        return 0
    if k < 0.7:
        return rng.choice([1, 2, 4, 8, 16, 100, -1, -4, -8, -100]) & ((1 << 64) - 1)
    return rng.getrandbits(64)


def gen_expr(rng, depth, addressable):
    k = rng.random()
    if depth <= 0 or k < 0.3:
        if addressable and rng.random() < 0.35:
            return 'a%d' % rng.choice(addressable)
        return 'c%x' % rand_pattern(rng, rng.choice([1, 2, 4, 8]))
    if k < 0.65:
        return '%s %s %s' % (rng.choice('+-*&|^'), gen_expr(rng, depth - 1, addressable),
                             gen_expr(rng, depth - 1, addressable))
    if k < 0.72:
        return 'n ' + gen_expr(rng, depth - 1, addressable)
    if k < 0.735:
        return 'm ' + gen_expr(rng, depth - 1, addressable)   # memory operand: not an expression function
    if k < 0.87:
        return '%s%d %s' % (rng.choice('su'), rng.choice([8, 16, 32]), gen_expr(rng, depth - 1, addressable))
    return '%s %s %d' % (rng.choice('<>]'), gen_expr(rng, depth - 1, addressable),
                         rng.choice([0, 1, 7, 8, 31, 32, 33, 63]))


G_TOKENS = 'rfnjbis'


def g_next(shape, k):
    t = shape[k]
    if t[0] == 'r':
        return None
    if t[0] in 'fn':
        return k + 1
    return int(t[1])


def g_terminates(shape):
    """no label's body chain runs in a cycle (the harness jumps to every label)"""
    for k in range(len(shape)):
        steps = 0
        while k is not None and k < len(shape):
            k = g_next(shape, k)
            steps += 1
            if steps > len(shape):
                return False
    return True


def gen_gshape(rng):
    """bodies of the labels of the G function: what follows an address-taken label is what mir.c's simplification
    looks at (adjacent labels, a jump right after the label, a jump to the next label, branches, ordinary insns)"""
    if rng.random() < 0.3:
        return ['r', 'r', 'r']
    for _ in range(30):
        n = rng.choice([1, 2, 3, 3, 4, 5, 6, 8])
        shape = []
        for k in range(n):
            t = rng.choice('rrfnjjjbis')
            if t in 'jbis':
                # aim at the neighbours: the next label, the label itself, the previous one, any
                cand = [(k + 1) % n, (k + 1) % n, (k + 2) % n, (k - 1) % n, rng.randrange(n)]
                t += str(rng.choice(cand))
            shape.append(t)
        if g_terminates(shape):
            return shape
    return ['r', 'r', 'r']


def gen_case(rng, nitems):
    """a module as a list of item strings (see harness/c14_data.c)"""
    weights = [('D', 30), ('B', 12), ('R', 14), ('E', 9), ('L', 7), ('F', 7), ('Oi', 4), ('Op', 2), ('Of', 5),
               ('Ox', 3)]
    kinds = rng.choices([k for k, _ in weights], [w for _, w in weights], k=nitems)
    want_l = 'L' in kinds
    if want_l and rng.random() < 0.97:   # rarely: lrefs without a function holding the labels
        kinds.insert(rng.randrange(len(kinds) + 1), 'G')
    n = len(kinds)
    gshape = gen_gshape(rng) if 'G' in kinds else ['r', 'r', 'r']
    nlab = len(gshape)
    # names: data-like items are named with probability pn (a sequence-wide choice)
    pn = rng.choice([0.1, 0.3, 0.3, 0.6])
    named = [k in 'DBREL' and rng.random() < pn for k in kinds]
    # an E needs an earlier F, an R an earlier addressable item: repair by downgrading
    items = [None] * n
    aliased_f, aliased_x = set(), set()
    for i, k in enumerate(kinds):
        nm = str(i) if named[i] else '-'
        earlier_addr = [j for j in range(i) if items[j] is not None and not items[j].startswith('Op')
                        and not (items[j][0] == 'D' and False)]
        if k == 'E':
            fs = [j for j in range(i) if kinds[j] == 'F' and items[j] is not None and items[j].startswith('F')]
            if not fs:
                k = 'D'
            else:
                items[i] = 'E %s %d' % (nm, rng.choice(fs))
                continue
        if k == 'R':
            if not earlier_addr:
                k = 'D'
            else:
                items[i] = 'R %s %d %x' % (nm, rng.choice(earlier_addr), rand_disp(rng))
                continue
        if k in ('Of', 'Ox'):
            used = aliased_f if k == 'Of' else aliased_x
            # forward: prefer later definitions; export: any.  Definitions: named data-like, F, G
            cands = [j for j in range(n) if j != i and j not in used
                     and ((kinds[j] in 'DBREL' and named[j]) or kinds[j] in ('F', 'G'))]
            if k == 'Of':
                later = [j for j in cands if j > i]
                if later and rng.random() < 0.8:
                    cands = later
            # a definition downgraded later would break the alias: only D/B/F/G are safe targets
            cands = [j for j in cands if kinds[j] in ('D', 'B', 'F', 'G')]
            if not cands:
                k = 'Op'
            else:
                j = rng.choice(cands)
                used.add(j)
                items[i] = '%s %d' % (k, j)
                continue
        if k == 'L':
            l2 = '-' if rng.random() < 0.55 else str(rng.randrange(nlab))
            items[i] = 'L %s %d %s %x' % (nm, rng.randrange(nlab), l2, rand_disp(rng) if rng.random() < 0.7 else 0)
            continue
        if k == 'F':
            rt = rng.choice(TYPES)
            if rt in ('f', 'd', 'ld'):
                items[i] = 'F %s f%x' % (rt, rand_float_bits(rng, rt))
            else:
                items[i] = 'F %s %s' % (rt, gen_expr(rng, rng.choice([0, 1, 2, 3]), earlier_addr))
            continue
        if k == 'G':
            items[i] = 'G' if gshape == ['r', 'r', 'r'] and rng.random() < 0.5 else 'G ' + ' '.join(gshape)
            continue
        if k in ('Oi', 'Op'):
            items[i] = k
            continue
        if k == 'B':
            items[i] = 'B %s %d' % (nm, rng.choice([0, 1, 2, 3, 4, 7, 8, 9, 15, 16, 31, 100]))
            continue
        # D
        t = rng.choice(TYPES)
        nel = rng.choice([0, 1, 1, 1, 2, 3, 5, 8, 17])
        if nel == 0:
            els = '-'
        elif t in ('f', 'd', 'ld'):
            els = ','.join('%x' % rand_float_bits(rng, t) for _ in range(nel))
        else:
            els = ','.join('%x' % rand_pattern(rng, TSIZE[t]) for _ in range(nel))
        items[i] = 'D %s %s %s' % (nm, t, els)
    iface = rng.choice('iigglb')
    if iface == 'g':
        # an unrelated use-after-free in mir-gen.c (ssa_dead_code_elimination / pressure_relief, -O2 and up)
        # is triggered by some integer expression functions; those modules are generated at -O0/-O1
        risky = any(s.startswith('F') and len(s.split()) > 3 for s in items)
        iface += str(rng.choice([0, 1]) if risky else rng.choice([0, 1, 2, 2, 3]))
    elif iface in ('l', 'b'):   # lazy function / lazy basic-block generation
        iface += str(rng.choice([0, 1, 2, 2, 3]))
    return '%s : %s' % (iface, ' ; '.join(items))


EXH_ITEMS = ['D N u8 1', 'D - u8 2', 'D - u32 3', 'D - u8 -', 'B - 0', 'B - 5', 'B N 1', 'Op', 'D N ld 3fff8000000000000000']


def exhaustive(maxlen):
    """all sequences over EXH_ITEMS (N = named) up to the given length"""
    import itertools
    out = []
    for n in range(1, maxlen + 1):
        for t in itertools.product(EXH_ITEMS, repeat=n):
            out.append('i : ' + ' ; '.join(s.replace(' N ', ' %d ' % i) for i, s in enumerate(t)))
    return out


def label_shapes(quick):
    """all G functions with three labels over the bodies {ret, nothing (adjacent labels), ordinary insn, jmp / branch /
    indirect jump / switch to the next or the one after} that terminate, each with lrefs to every label, every label
    difference and a displaced lref, under every engine (rotating in the quick tier)"""
    import itertools
    out = []
    alpha = lambda k: ['r', 'f', 'n', 'j%d' % ((k + 1) % 3), 'j%d' % ((k + 2) % 3), 'b%d' % ((k + 1) % 3),
                       'i%d' % ((k + 2) % 3), 's%d' % ((k + 1) % 3)]
    lrefs = ' ; '.join(['L 1 0 - 0', 'L - 1 - 0', 'L - 2 - 1', 'L - 1 0 0', 'L - 2 1 0', 'L - 0 2 0', 'L - 2 0 fffffffffffffff9',
                        'D - u8 7', 'L - 1 - 8'])
    engines = ['i', 'g0', 'g1', 'g2', 'g3', 'l2', 'b0', 'b2']
    n = 0
    for shape in itertools.product(alpha(0), alpha(1), alpha(2)):
        if not g_terminates(list(shape)):
            continue
        for e in (engines if not quick else [engines[n % len(engines)], engines[(n // 3 + 3) % len(engines)]]):
            g = 'G ' + ' '.join(shape)
            out.append('%s : %s ; %s' % (e, g, lrefs) if n % 2 == 0 else '%s : %s ; %s' % (e, lrefs, g))
        n += 1
    return out


def two_function_modules(quick, rng):
    """wave 6: TWO functions with labels in one module (G and the fixed two-label function H), lref items to the labels
    of either (L -> G, M -> H) in every interleaving: mir.c keeps one list of lrefs per FUNCTION (func->first_lref,
    built by link_module_lrefs walking the module once, filled in when that function is prepared), so the order of the
    lref items in the module and which function is prepared first must not matter.  All L/M patterns of length 2..4,
    functions before / after / between the lrefs, engines rotating (quick) or all (thorough), + random mixes with data
    and bss between."""
    import itertools
    ls = ['L - 0 - 0', 'L - 1 - 8', 'L - 2 1 0', 'L - 2 - fffffffffffffff9', 'L - 0 2 4']
    ms = ['M - 0 - 0', 'M - 1 - 8', 'M - 1 0 0', 'M - 0 1 4', 'M - 1 - 0']
    engines = ['i', 'g0', 'g2', 'l2', 'b0', 'b2', 'g1', 'g3']
    out = []
    n = 0
    for ln in (2, 3, 4):
        for pat in itertools.product('LM', repeat=ln):
            items = [(ls if k == 'L' else ms)[(i + n) % 5] for i, k in enumerate(pat)]
            for place in range(4):
                mod = {0: ['G', 'H'] + items, 1: ['H', 'G'] + items, 2: items + ['G', 'H'],
                       3: ['G'] + items[:1] + ['H'] + items[1:]}[place]
                for e in (engines if not quick else [engines[n % 8], engines[(n + 3) % 8]]):
                    out.append('%s : %s' % (e, ' ; '.join(mod)))
                n += 1
    for _ in range(1500 if quick else 12000):
        k = rng.choice([2, 3, 4, 6, 9])
        items = []
        for i in range(k):
            r = rng.random()
            if r < 0.4:
                l2 = '-' if rng.random() < 0.6 else str(rng.randrange(3))
                items.append('L - %d %s %x' % (rng.randrange(3), l2, rand_disp(rng) if rng.random() < 0.5 else 0))
            elif r < 0.8:
                l2 = '-' if rng.random() < 0.6 else str(rng.randrange(2))
                items.append('M - %d %s %x' % (rng.randrange(2), l2, rand_disp(rng) if rng.random() < 0.5 else 0))
            elif r < 0.9:
                items.append('D - u8 %x' % rng.randrange(256))
            else:
                items.append('B - %d' % rng.choice([1, 3, 8]))
        items.insert(rng.randrange(len(items) + 1), 'G')
        items.insert(rng.randrange(len(items) + 1), 'H')
        out.append('%s : %s' % (rng.choice(engines), ' ; '.join(items)))
    return out


def two_round_modules(quick, rng):
    """wave 6: the module under test is linked in a SECOND MIR_link round: it imports functions (`Oe`) of a module that
    was loaded, linked with the same interface and executed (machine code generated, also for the lazy interfaces) in
    an earlier round, and holds ref items to them with displacements, next to refs to externals (`Oi`), data and bss.
    A ref holds the address of the referenced item + disp whatever earlier rounds did to the definition."""
    engines = ['g2', 'l2', 'b2', 'i', 'g0', 'b0', 'g1', 'l0']
    disps = ['0', '8', 'fffffffffffffff8', '1', '7fffffff']
    out = []
    for e in engines:
        out.append('%s : Oe ; R - 0 0' % e)
        out.append('%s : Oe ; R 1 0 0 ; D - u8 1 ; R - 0 8 ; Oi ; R - 4 0 ; Oe ; R - 6 fffffffffffffff8 ; R - 1 4' % e)
        out.append('%s : D 0 i64 1 ; Oe ; Oe ; R - 2 0 ; R - 1 0 ; R - 0 0 ; B - 3 ; R - 1 1' % e)
    for _ in range(800 if quick else 8000):
        items = []
        for i in range(rng.choice([2, 3, 4, 6, 9])):
            tg = [j for j, t in enumerate(items) if t.split()[0] in ('Oe', 'Oi') or (t[0] in 'DBR' and t.split()[1] != '-')]
            pre = [j for j in tg if items[j] == 'Oe']
            r = rng.random()
            if r < 0.45 and tg:
                j = rng.choice(pre) if pre and rng.random() < 0.7 else rng.choice(tg)
                items.append('R %s %d %s' % (str(i) if rng.random() < 0.3 else '-', j, rng.choice(disps)))
            elif r < 0.7 or not tg:
                items.append('Oe')
            elif r < 0.8:
                items.append('Oi')
            elif r < 0.92:
                items.append('D %s u8 %x' % (str(i) if rng.random() < 0.5 else '-', rng.randrange(256)))
            else:
                items.append('B %s %d' % (str(i) if rng.random() < 0.5 else '-', rng.choice([1, 3, 8])))
        out.append('%s : %s' % (rng.choice(engines), ' ; '.join(items)))
    return out


BOUNDARY = [
    'T',
    'i : D - u8 -',
    'i : D - u8 - ; B 1 0 ; B - 0 ; D - i16 -',
    'i : D 0 u8 1 ; D - u8 2 ; D - u8 3 ; D - u8 4 ; D - u8 5 ; D - u8 6 ; D - u8 7 ; D - u8 8',
    'i : D 0 u8 1 ; D - u8 2 ; D - u8 3 ; D - u8 4 ; D - u8 5 ; D - u8 6 ; D - u8 7 ; D - u8 8 ; D - u8 9',
    'g : D 0 u8 1 ; D - u16 2 ; D - u32 3 ; D - u64 4 ; D - ld 3fff8000000000000000 ; D - u8 5',
    'i : D - i8 7f ; Op ; D - i8 80 ; D 3 i8 1 ; D 4 i8 2 ; D - i8 3',
    'i : B 0 3 ; R - 0 1 ; B - 1 ; R - 1 fffffffffffffff0 ; Oi ; R - 4 8 ; Of 7 ; B 7 1 ; R 8 6 2',
    'g : F i8 c1ff ; F u8 c1ff ; F i16 c1ffff ; F u16 c1ffff ; F i32 c1ffffffff ; F u32 c1ffffffff ; F i64 cffffffffffffffff ; '
    'F p c123456789 ; D 8 u8 1 ; E - 0 ; E - 1 ; E - 2 ; E - 3 ; E - 4 ; E - 5 ; E - 6 ; E - 7',
    'i : F f f3fc00000 ; F d f400921fb54442d18 ; F ld f4000c90fdaa22168c235 ; E 3 0 ; E - 1 ; E - 2 ; D - u8 1',
    'i : D 0 i64 1 ; F p + a0 c10 ; E - 1 ; R - 0 10',
    'i : G ; L 1 0 - 0 ; L - 1 - 0 ; L - 2 - 8 ; L - 1 0 0 ; L - 2 0 0 ; L - 0 2 0 ; L - 2 1 fffffffffffffff9',
    'g : G ; L 1 0 - 0 ; L - 1 - 0 ; L - 2 - 8 ; L - 1 0 0 ; L - 2 0 0 ; L - 0 2 0 ; L - 2 1 fffffffffffffff9',
    'l : L 0 0 - 0 ; D - u8 1 ; L - 1 0 4 ; G ; L - 2 - 0 ; B - 3',
    'b : G ; L 1 0 - 0 ; L - 1 - 0 ; L - 2 - 8 ; L - 1 0 0 ; L - 2 0 0 ; L - 0 2 0 ; L - 2 1 fffffffffffffff9',
    'b1 : L 0 0 - 0 ; D - u8 1 ; L - 1 0 4 ; G ; L - 2 - 0 ; B - 3',
    'i : F i64 m c10 ; D 1 u8 1 ; E - 0',
    'i : F i64 c10 ; F i32 + c1 m a0 ; E 2 0 ; E - 1',
    'g : D 0 u8 1 ; L - 0 - 0',
    'i : F i64 m c10 ; E 1 0 ; L - 0 - 0',
]


# ------------------------------------------------------------------ running

HANG_RC = 124     # harness/c14_data.c: the watchdog of a case fired; its line ends in ` HANG@case`
MAX_HANGS = 6     # per chunk: each one costs C14_HANG_CPU seconds


def is_hang(line):
    return line.startswith('HANG')


def hang_line(line):
    """the harness' partial line of a case that did not terminate -> the outcome `HANG ...` (no oracle part)"""
    return 'HANG (the implementation did not terminate) after: ' + line.replace(' HANG@case', '').strip()


def run_chunk(exe, lines, env=None):
    """run all lines; if the process dies, mark the line it died on and carry on after it.  The harness stops a case
    that does not terminate itself (CPU-time watchdog, exit code 124, line closed with HANG@case): that is the case's
    outcome, the run goes on with a fresh process after it; the subprocess timeout is only the backstop."""
    out = []
    start = 0
    crashes = 0
    hangs = 0
    while start < len(lines):
        rc, o, e = vlib.run_lines(exe, lines[start:], timeout=1200, env=env)
        if o and o[-1] == '' and len(o) > len(lines) - start:
            o = o[:-1]
        if rc == 0 and len(o) == len(lines) - start:
            out += o
            break
        if rc == HANG_RC and o and ' HANG@case' in o[-1] and len(o) <= len(lines) - start:
            out += o[:-1] + [hang_line(o[-1])]
            start += len(o)
            hangs += 1
            if hangs >= MAX_HANGS:
                out += ['HANG (not run: %d cases of this chunk did not terminate)' % hangs] * (len(lines) - start)
                break
            continue
        k = min(len(o), len(lines) - start - 1)
        out += o[:k]
        out.append('%s rc=%d %s' % ('HANG (chunk timeout)' if '[timeout]' in e else 'CRASH', rc, e[-200:].replace('\n', ' ')))
        start += k + 1
        crashes += 1
        if crashes > 20:
            out += ['CRASH (not run: too many crashes)'] * (len(lines) - start)
            break
    return out


def run_parallel(exe, lines, jobs=JOBS, env=None):
    """-> (rc, output lines, '') ; bounded chunks so that one process never runs too long"""
    size = 20000
    chunks = [lines[i:i + size] for i in range(0, len(lines), size)]
    if len(chunks) <= 1:
        outs = [run_chunk(exe, c, env) for c in chunks]
    else:
        with ThreadPoolExecutor(max_workers=jobs) as ex:
            outs = list(ex.map(lambda c: run_chunk(exe, c, env), chunks))
    out = [l for o in outs for l in o]
    return (0 if len(out) == len(lines) else 1), out, ''


def impl_line(impl, c, env=None):
    rc, o, e = vlib.run_lines(impl, [c], timeout=120, env=dict(env or {}, C14_HANG_CPU='3'))
    if rc == HANG_RC and len(o) == 1 and ' HANG@case' in o[0]:
        return hang_line(o[0])
    if rc != 0 or len(o) != 1:
        return 'CRASH rc=%d %s' % (rc, ((o[0] if o else '') + ' ' + e[-300:]).strip())
    return o[0]


def split_impl(line):
    """-> (oracle string, observable line without the A part)"""
    if not line.startswith('ok A'):
        return '', line
    a, rest = line[4:].split(' P', 1) if ' P' in line else (line[4:], '')
    return a.strip(), 'ok P' + rest


def hex_match(x, y):
    return len(x) == len(y) and all(cy == '?' or cx == cy for cx, cy in zip(x, y))


def tok_same(x, y, strict):
    """x: implementation token, y: model token.  strict=False compares only what the property talks
    about (a section must be big enough and hold the right bytes); strict=True also demands the
    model's exact allocation size (faithfulness of the model to the size pass)."""
    if y.count(':') == 2 and '/' in y.split(':')[1] and x.count(':') == 2:
        hx, ax, bx = x.split(':')
        hy, ay, by = y.split(':')
        alloc, need = ay.split('/')
        if hx != hy or not ax.lstrip('-').isdigit():
            return False
        if strict:
            return ax == alloc and hex_match(bx, by)
        return int(ax) >= int(need) and hex_match(bx[:2 * int(need)], by[:2 * int(need)])
    return x == y or hex_match(x, y)


def same(impl_obs, model_obs, strict=True):
    ta, tb = impl_obs.split(), model_obs.split()
    return len(ta) == len(tb) and all(tok_same(x, y, strict) for x, y in zip(ta, tb))


def model_lines(model, cases, impl_out):
    ml = [c + ' @ ' + split_impl(o)[0] for c, o in zip(cases, impl_out)]
    rc, o, e = run_parallel(model, ml)
    if rc != 0 or len(o) != len(cases):
        raise vlib.BuildError('C14 model driver failed: rc=%d %s' % (rc, e[-500:]))
    return o


def first_diff(a, b):
    ta, tb = a.split(), b.split()
    sect = ''
    for x, y in zip(ta, tb):
        if y in ('P', 'S', 'LR') or y.startswith('J:'):
            sect = y
        if not tok_same(x, y, True):
            what = {'P': 'item offset/section head', 'S': 'section size or contents', 'LR': 'label reference value'}.get(
                sect, 'jmpi through label table' if y.startswith('J:') else 'outcome')
            if y.startswith('LA:'):
                what = 'addresses of adjacent labels (model C14/Labels.v: a label and its last_label have one address)'
            return '%s: implementation %s, model %s' % (what, x[:80], y[:80])
    return 'different number of observations (implementation: %s)' % a[:120]


def correspond(impl, model, cases, env=None):
    rc, o1, e1 = run_parallel(impl, cases, env=env)
    o2 = model_lines(model, cases, o1)
    bad = []
    for c, a, b in zip(cases, o1, o2):
        if '(not run' in a:     # after too many hangs / crashes in the chunk: says nothing about this case
            continue
        if not same(split_impl(a)[1], b):
            bad.append((c, a, b))
    return bad, o1


def fails(impl, model, c, env=None, strict=True):
    a = impl_line(impl, c, env)
    if a.startswith('badcase'):
        return False
    b = vlib.run_lines(model, [c + ' @ ' + split_impl(a)[0]])[1]
    if not b or b[0].startswith('modelerror'):
        return False
    return not same(split_impl(a)[1], b[0], strict)


def shrink(impl, model, c, env=None, strict=True):
    """drop items (renumbering references) while the disagreement persists"""
    hd, body = c.split(':', 1)
    items = [s.strip() for s in body.split(';') if s.strip()]

    def drop(items, k):
        out = []
        for i, s in enumerate(items):
            if i == k:
                continue
            w = s.split()

            def fix(j):
                j = int(j)
                if j == k:
                    raise ValueError
                return str(j - 1 if j > k else j)
            try:
                if w[0] == 'R':
                    w[2] = fix(w[2])
                elif w[0] == 'E':
                    w[2] = fix(w[2])
                elif w[0] in ('Of', 'Ox'):
                    w[1] = fix(w[1])
                elif w[0] == 'F':
                    w = [('a' + fix(t[1:])) if t[0] == 'a' and t[1:].isdigit() else t for t in w]
            except ValueError:
                return None
            out.append(' '.join(w))
        return out
    changed = True
    while changed and len(items) > 1:
        changed = False
        for k in range(len(items) - 1, -1, -1):
            cand = drop(items, k)
            if cand is None or not cand:
                continue
            cc = hd + ': ' + ' ; '.join(cand)
            if fails(impl, model, cc, env, strict):
                items = cand
                changed = True
                break
    return hd + ': ' + ' ; '.join(items)


def build(variant='plain'):
    impl = vlib.build_harness('c14_data', ['c14_data.c'], variant=variant)
    model = vlib.ocaml_build('c14', 'Extract_C14', ['c14x'], 'driver_c14.ml')
    return impl, model


def kinds_of(c):
    if ':' not in c:
        return []
    return [s.split()[0] for s in c.split(':', 1)[1].split(';') if s.strip()]


def coqchk(chk):
    """thorough tier: re-check the compiled property file and its whole dependency closure with Coq's
    independent checker and record the axioms it reports"""
    import re
    rc, out, err = vlib.sh(['timeout', '1500', 'coqchk', '-o', '-silent', '-Q', '.', 'MirV',
                            'MirV.Properties_%s' % chk.prop], cwd=vlib.COQDIR)
    txt = out + err
    m = re.search(r'\* Axioms:(.*?)\* Constants', txt, re.S)
    chk.cov['coqchk'] = dict(rc=rc, axioms=(m.group(1).strip() if m else '?'))
    if rc != 0:
        chk.notes.append('coqchk failed: ' + txt[-400:])
    return rc == 0


def run(chk):
    quick = chk.tier == 'quick'
    r = chk.prove()
    if not quick and r['ok'] and not coqchk(chk):
        r = dict(r, ok=False, log=r['log'] + '\ncoqchk rejected the compiled proofs')
    impl, model = build()
    chk.cov['trusted_base'] += ['extraction: ExtrOcamlBasic only, no Extract Constant/Inductive of our own',
                                'ocaml/driver_c14.ml, harness/c14_data.c (parse, build the module through the public API, '
                                'size-recording allocator, print addresses/bytes)',
                                'gcc; little-endian x86-64 (the harness stores element patterns with memcpy)']
    cases = list(BOUNDARY)
    corpus = os.path.join(vlib.VERIF, 'corpus', 'c14.txt')
    if os.path.exists(corpus):
        cases += [l.strip() for l in open(corpus) if l.strip() and not l.startswith('#')]
    cases += exhaustive(3 if quick else 5)
    cases += label_shapes(quick)
    cases += two_function_modules(quick, chk.rng('two-functions'))
    cases += two_round_modules(quick, chk.rng('two-rounds'))
    nfixed = len(cases)
    rng = chk.rng('items')
    nrand = 15000 if quick else 120000
    for i in range(nrand):
        cases.append(gen_case(rng, rng.choice([1, 2, 3, 5, 8, 12, 20, 30])))
    chk.log('%d cases (%d boundary/corpus/exhaustive, %d random)' % (len(cases), nfixed, nrand))
    for c in cases:
        ks = kinds_of(c)
        chk.count(c, nontrivial=sum(1 for k in ks if k in 'DBRELM') >= 2)
        for k in ks:
            chk.dist('items', k)
        chk.dist('iface', c[0])
        for g in [x.split()[1:] for x in c.split(':', 1)[1].split(';') if x.split()[:1] == ['G']] if ':' in c else []:
            for t in g:
                chk.dist('g_label_bodies', t[0])
        chk.dist('n_items', min(32, len(ks)))
    chk.cov['rule'] = ('item sequences (data of every element type incl. 0 elements, bss, ref to data/functions/imports/'
                      'forwards with displacement, expr data over integer/float expression functions, lref, section '
                      'breakers) built through the public API, loaded and linked by mir.c; compared with the extracted '
                      'Coq model: section head and offset of every item, malloc size of every section, every byte of '
                      'every section (lref bytes from the engine\'s laddr addresses; long-double padding is a wildcard), jmpi through label addresses, '
                      'lref values against label addresses in the same engine; the _MIR_type_size table against tsize; all '
                      'sequences over %d fixed items up to length %d; non-trivial = >= 2 data-like items' % (
                          len(EXH_ITEMS), 3 if quick else 5))
    for c in cases[nfixed:nfixed + 3]:
        chk.sample(c)
    bad, outs = correspond(impl, model, cases)
    for o in outs:
        chk.dist('impl_outcome', o.split()[0] if o else 'empty')
    # disagreements on what the property talks about come first; a disagreement only on the exact
    # allocation size means the model no longer mirrors the size pass (tie broken, no failing input)
    prop_bad = [x for x in bad if not same(split_impl(x[1])[1], x[2], strict=False)]
    seen = set()
    for c, a, b in prop_bad[:30]:
        small = shrink(impl, model, c, strict=False)
        if small in seen:
            continue
        seen.add(small)
        ia = impl_line(impl, small)
        mb = vlib.run_lines(model, [small + ' @ ' + split_impl(ia)[0]])[1][0]
        chk.finding('diff:' + small, dict(case=small, impl=ia, model=mb, original=c),
                    'C14 %s on: %s' % (first_diff(split_impl(ia)[1], mb), small))
        if len(seen) >= 3:
            break
    if bad and not prop_bad:
        c, a, b = bad[0]
        small = shrink(impl, model, c)
        ia = impl_line(impl, small)
        mb = vlib.run_lines(model, [small + ' @ ' + split_impl(ia)[0]])[1][0]
        chk.finding('tie:alloc-size', dict(correspondence='C14 size pass (sec_alloc) vs malloc size', case=small,
                                           impl=ia, model=mb, disagreements=len(bad),
                                           searched='%d item sequences: every section was large enough and held the '
                                                    'right bytes at the right offsets' % len(cases)),
                    'C14 model/implementation tie broken (%s) but no property failure found; e.g. %s' % (
                        first_diff(split_impl(ia)[1], mb), small), no_input=True)
    if not quick and not bad:
        try:
            # AddressSanitizer is what this pass is for (section overflows).  UBSan checks that fire on
            # code outside the property are switched off: typed stores of lref values at unaligned
            # offsets (alignment is the user's business per MIR.md), `addr + disp` with a wild disp
            # (pointer-overflow; the wrapped value is what is asked for), and the interpreter's
            # C-level shifts / signed arithmetic in expression functions (C02's subject)
            impl_asan = vlib.build_harness('c14_data', ['c14_data.c'], variant='asan',
                                           defs=['-fno-sanitize=alignment,pointer-overflow,shift,signed-integer-overflow'])
            env = {'ASAN_OPTIONS': 'detect_leaks=0'}
            sample = cases[:nfixed] + cases[nfixed:nfixed + 4000]
            bad2, _ = correspond(impl_asan, model, sample, env=env)
            for c, a, b in bad2[:2]:
                chk.finding('asan:' + c, dict(case=c, impl=a, model=b),
                            'C14 sanitizer build disagrees/crashes (%s) on: %s' % (first_diff(split_impl(a)[1], b), c))
            chk.notes.append('asan/ubsan build: %d cases' % len(sample))
        except vlib.BuildError as ex_:
            chk.notes.append('asan build failed: %s' % str(ex_)[:200])
    if not r['ok'] and not bad:
        chk.proof_broken(r, searched='%d item sequences agreed between model and implementation' % len(cases))


def replay(chk, path):
    j = json.load(open(path))
    impl, model = build()
    c = j['replay']['case']
    a = impl_line(impl, c)
    b = vlib.run_lines(model, [c + ' @ ' + split_impl(a)[0]])[1]
    print('case :', c)
    print('impl :', a)
    print('model:', b[0] if b else None)
    ok = bool(b) and same(split_impl(a)[1], b[0])
    if not ok and b:
        print('diff :', first_diff(split_impl(a)[1], b[0]))
    return 0 if ok else 1

# C12: mir-reduce.h (binary-MIR compression layer) vs the Coq model coq/C12/*.v; theorems in
# coq/Properties_C12.v.  Tie: (1) tools/tr_c12_params.py regenerates coq/gen/ReduceParams.v from the
# headers of the checked tree, (2) two-way correspondence of the extracted model with the real
# reduce_encode / reduce_decode built with ASan+UBSan and -DNDEBUG (harness/c12_reduce.c).
import os, sys, json, hashlib, resource, time
from concurrent.futures import ThreadPoolExecutor
import vlib
sys.path.insert(0, os.path.join(vlib.VERIF, 'tools'))
import tr_c12_params
import gen_c12_cases as G

LEVEL = 'proof'
ENV = {'ASAN_OPTIONS': 'detect_leaks=0:abort_on_error=0:allocator_may_return_null=1',
       'UBSAN_OPTIONS': 'print_stacktrace=1:halt_on_error=1'}
JOBS = 4


def hx(b):
    return b.hex() if len(b) else '-'


def unhx(s):
    return b'' if s == '-' else bytes.fromhex(s)


def build():
    impl = vlib.build_harness('c12_reduce', ['c12_reduce.c'], variant='asan', units=(),
                              extra_flags=['-fno-sanitize=alignment'])
    model = vlib.ocaml_build('c12', 'Extract_C12', ['c12x'], 'driver_c12.ml')
    return impl, model


def run_shard(exe, lines, env, timeout):
    """run lines; a crash (sanitizer abort / signal) yields ('CRASH', stderr tail) for that line and
    the run resumes with the next line"""
    res = []
    i = 0
    crashes = 0
    while i < len(lines):
        rc, out, err = vlib.run_lines(exe, lines[i:], timeout=timeout, env=env)
        out = [o for o in out if o != '']
        res += out[:len(lines) - i]
        i += len(out)
        if i < len(lines):
            if rc == 0:
                raise vlib.BuildError('driver %s stopped early without error (line %d)' % (exe, i))
            res.append('CRASH rc=%d %s' % (rc, summarize(err)))
            i += 1
            crashes += 1
            if crashes > 40:   # a broken tree: do not spend the budget on thousands of aborts
                res += ['SKIPPED'] * (len(lines) - i)
                break
    return res


def summarize(err):
    for l in err.split('\n'):
        if 'SUMMARY:' in l or 'runtime error:' in l:
            return l.strip()[:300]
    if '[timeout]' in err:
        return 'timeout'
    return err.strip().split('\n')[-1][:200] if err.strip() else 'no stderr'


def run_par(exe, lines, env=None, timeout=1500, costs=None):
    """run the lines in JOBS processes (longest-processing-time-first assignment by estimated cost),
    results in the order of the lines"""
    if not lines:
        return []
    n = min(JOBS, max(1, len(lines) // 50))
    if costs is None:
        costs = [2000 + len(l) for l in lines]
    order = sorted(range(len(lines)), key=lambda i: -costs[i])
    load = [0] * n
    shards = [[] for _ in range(n)]
    for i in order:
        k = load.index(min(load))
        shards[k].append(i); load[k] += costs[i]
    with ThreadPoolExecutor(max_workers=JOBS) as ex:
        rs = list(ex.map(lambda sh: run_shard(exe, [lines[i] for i in sh], env, timeout), shards))
    res = [None] * len(lines)
    for sh, r in zip(shards, rs):
        for i, x in zip(sh, r):
            res[i] = x
    return res


# ---------------------------------------------------------------------------------------------

def gen_inputs(chk, P):
    """encoder inputs: list of (kind, bytes)"""
    quick = chk.tier == 'quick'
    rng = chk.rng('inputs')
    B = P['BUF_LEN']
    ins = []
    for d in G.exhaustive(b'a', 12 if quick else 40):
        ins.append(('exh1', d))
    for d in G.exhaustive(b'ab', 7 if quick else 11):
        ins.append(('exh2', d))
    for d in G.exhaustive(b'abc', 5 if quick else 7):
        ins.append(('exh3', d))
    for i in range(60 if quick else 1500):
        alpha = rng.choice([b'ab', b'abc', b'abcdefgh', bytes(range(256))])
        ins.append(('lz', G.lz_like(rng, rng.choice([10, 40, 150, 600]), alpha)))
    for i in range(30 if quick else 600):
        ins.append(('rand', G.rand_bytes(rng, rng.choice([1, 5, 9, 17, 33, 100]), rng.choice([None, b'ab', b'xyz']))))
    # boundaries of the format: symbol-length escape (7), symbol buffer flush (2047), reference
    # length escape (ref_len - 3 = 31), offsets 128 / 16384
    for n in (6, 7, 8, 2046, 2047, 2048, 2049, 4094, 4095):
        ins.append(('symrun', G.rand_bytes(rng, n)))
    for n in (33, 34, 35, 36):
        u = G.rand_bytes(rng, n)
        ins.append(('reflen', u + b'#' + u))
    for gap in (120, 125, 130, 16380, 16390):
        u = G.rand_bytes(rng, 9)
        ins.append(('offset', u + G.rand_bytes(rng, gap) + u))
    for n in (1, 4, 5, 8, 100, 5000, 70000):
        ins.append(('rep', b'z' * n))
    ins.append(('periodic', G.periodic(rng, 30000, 97, 40)))
    ins.append(('incompr', G.rand_bytes(rng, 12000 if quick else 60000)))
    # buffer boundary and multi-buffer inputs (compressible, so that the model stays fast)
    for n in (B - 1, B, B + 1):
        ins.append(('buf%+d' % (n - B), G.periodic(rng, n, rng.choice([251, 1000, 4099]), 60)))
    ins.append(('3buf', G.periodic(rng, 2 * B + 12345, 997, 150)))
    # more than TABLE_SIZE symbols in one buffer (the dictionary runs out of free elements and
    # recycles the oldest of a chain), followed by repeats of earlier data
    rnd = G.rand_bytes(rng, P['TABLE_SIZE'] + 1500)
    tail = b''.join(rnd[o:o + rng.choice([5, 9, 40])] for o in [rng.randrange(len(rnd) - 50) for _ in range(150)])
    ins.append(('table_dry', rnd + tail))
    ins.append(('2buf_exact', G.periodic(rng, 2 * B, 509, 200)))
    if not quick:
        ins.append(('incompr_buf', G.rand_bytes(rng, B + 1)))
        ins.append(('ab_big', G.rand_bytes(rng, 30000, b'ab')))
    # ---- round 3 (own random stream: the inputs above stay what they were)
    rng = chk.rng('inputs3')
    # what lies behind buf_bound must not matter.  Single buffer: the never written part of buf holds the
    # allocator's fill byte ('encf <fill>'): inputs ending in a match whose source is followed by fill
    # bytes, and all short strings over {fill, 'a'} (kind 'fill<f>:...')
    for d in G.exhaustive(b'\x00a', 9 if quick else 13):
        if len(d) >= 9 or not quick:
            ins.append(('fill0:exh', d))
    for i in range(60 if quick else 1500):
        f = rng.choice([0, 255, 0xbe, 0x61])
        ins.append(('fill%d:tail' % f, G.tail_fill(rng, f, rng.choice([1, 1, 2, 3, 4, 5, 31, 32, 33, 300]))))
    # multi buffer: a PARTIAL last buffer sees the bytes of the previous full buffer behind buf_bound.
    # Constant data, periods dividing BUF_LEN, X ++ X[:k], spliced tails; many lengths k of the last
    # buffer.  A few run through the model as well, the rest ('rt:' = round trip on the implementation
    # only, the model needs ~8 s per 256 KiB buffer)
    st = G.stale_tail_inputs(rng, B, 2 if quick else 5)
    seen = set()
    for k, d in st:
        if k not in seen and len(d) < 2 * B:
            seen.add(k)
            ins.append(('stale:' + k, d))
        else:
            ins.append(('rt:stale:' + k, d))
    # pool exhaustion followed by repeated re-occurrences (references found through recycled elements)
    pd = G.pool_dry_inputs(rng, P, 1 if quick else 4)
    for j, (k, d) in enumerate(pd):
        ins.append((('' if j == 0 else 'rt:') + 'pool:' + k, d))
    for i in range(3 if quick else 12):
        rnd = G.rand_bytes(rng, P['TABLE_SIZE'] + rng.choice([1, 2, 50, 3000]), rng.choice([None, None, bytes(range(64))]))
        ins.append(('rt:pool:dry+lowtail', rnd + G.pieces_tail(rng, rnd, rng.choice([3, 12, 40]), rng.choice([300, 3000]))))
    # ---- wave 5 (own random stream again)
    rng = chk.rng('inputs5')
    # the trailer: inputs whose stored check hash ends / starts in 0xff, 0x00 (0xffff, 0x0000, ...): every proper prefix
    # and every trailer alteration of their encodings is decoded (section 2)
    for pat, d in G.special_trailer_inputs(rng, P):
        ins.append(('trailer:' + pat, d))
    # the decoder reaches the trailer with an EMPTY current buffer exactly when the input length is a non-zero multiple
    # of BUF_LEN: k * BUF_LEN and its neighbours for k = 1, 2, 3, several kinds of content (the model runs buf-1/+0/+1 and
    # 2buf_exact above, ~8 s per buffer; the rest is judged by the round trip on the implementation alone)
    for k in (1, 2, 3):
        for dlt in (-1, 0, 1):
            style = rng.randrange(4)
            n = k * B + dlt
            if style == 0:
                d = bytes([rng.randrange(256)]) * n
            elif style == 1:
                d = G.periodic(rng, n, rng.choice([7, 64, 997, 65536]), rng.choice([0, 30, 3000]))
            elif style == 2:
                d = G.low_entropy(rng, n, rng.choice([2, 16, 64]))
            else:
                d = (G.lz_like(rng, 5000, b'abcdefgh') * (n // 5000 + 1))[:n]
            ins.append(('rt:bufx:%d*B%+d' % (k, dlt), d))
    ins.append(('rt:bufx:incompr:%d*B' % 1, G.rand_bytes(rng, B)))
    if not quick:
        ins.append(('rt:bufx:incompr:%d*B' % 2, G.rand_bytes(rng, 2 * B)))
        ins.append(('rt:bufx:4*B', G.periodic(rng, 4 * B, 1000, 100)))
    return ins


def enc_line(kind, d):
    if kind.startswith('fill'):
        return 'encf %s %s' % (kind[4:kind.index(':')], hx(d))
    return 'enc ' + hx(d)


def run(chk):
    quick = chk.tier == 'quick'
    try:
        resource.setrlimit(resource.RLIMIT_STACK, (resource.RLIM_INFINITY, resource.RLIM_INFINITY))
    except (ValueError, OSError):
        pass
    P = tr_c12_params.regenerate()
    chk.log('params: BUF_LEN=%d TABLE_SIZE=%d START_LEN=%d MAX_SYMB_LEN=%d tag=%d+%d' % (
        P['BUF_LEN'], P['TABLE_SIZE'], P['START_LEN'], P['MAX_SYMB_LEN'], P['SYMB_TAG_LEN'], P['REF_TAG_LEN']))
    r = chk.prove()
    impl, model = build()
    chk.cov['trusted_base'] += [
        'harness/c12_glue.c (MIR_scan_string / MIR_write_with_func / MIR_read_with_func over memory, error function longjmps)',
        'tools/tr_c12_params.py (prints the _REDUCE_* / hash constants from a C program compiled against the tree)',
        'extraction: ExtrOcamlBasic only, no Extract Constant/Inductive of our own; ocaml/driver_c12.ml (hex parse/print)',
        'harness/c12_reduce.c (memory reader/writer, filling allocator); gcc -fsanitize=address,undefined '
        '-fno-sanitize=alignment -DNDEBUG (mir-hash.h does deliberate unaligned loads on x86-64)',
        'tools/gen_c12_cases.py builds decoder inputs only (its Python parser/hash never decide a verdict)']
    bad = []          # (kind, lines, what)
    tie_broken = []   # model != impl on something that is not itself a property failure

    # ---------------- 0. hash tie
    rng = chk.rng('hash')
    hl = ['hash %x %s' % (rng.choice([0, 24, 42, (1 << 64) - 1, rng.getrandbits(64)]), hx(G.rand_bytes(rng, n)))
          for n in list(range(0, 40)) + [rng.randrange(40, 300) for _ in range(60)]]
    a, b = run_par(impl, hl, ENV), run_par(model, hl)
    for l, x, y in zip(hl, a, b):
        chk.count(l, nontrivial=len(l) > 12); chk.dist('cases', 'hash')
        if x != y:
            tie_broken.append(('hash', [l], 'mir_hash_strict: impl %s model %s' % (x, y)))

    # ---------------- 1. encoder: model == implementation byte for byte
    ins = gen_inputs(chk, P)
    corpus = os.path.join(vlib.VERIF, 'corpus', 'c12.txt')
    clines = [l.strip() for l in open(corpus) if l.strip() and not l.startswith('#')] if os.path.exists(corpus) else []
    for l in clines:
        if l.startswith('enc '):
            ins.insert(0, ('corpus', unhx(l.split()[1])))
    el = [enc_line(k, d) for k, d in ins]
    t0 = time.time()
    ei = run_par(impl, el, ENV)
    chk.log('encoder: %d inputs, impl %.1fs' % (len(el), time.time() - t0))
    t0 = time.time()
    # kinds 'rt:...' are judged by the round trip on the implementation alone (no model run)
    mi = [i for i, (k, _) in enumerate(ins) if not k.startswith('rt:')]
    cheap = ('rep', 'periodic', '3buf', '2buf_exact', 'stale:const', 'stale:period|B', 'stale:X+X[:k]', 'stale:splice')
    mr = run_par(model, [el[i] for i in mi],
                 costs=[2000 + len(el[i]) * (1 if ins[i][0] in cheap or ins[i][0].startswith('buf') else 12) for i in mi])
    em = [None] * len(el)
    for i, y in zip(mi, mr):
        em[i] = y
    chk.log('encoder: model %.1fs (%d inputs)' % (time.time() - t0, len(mi)))
    encs = []   # (kind, data, encoding by impl)
    for (kind, d), l, x, y in zip(ins, el, ei, em):
        chk.count(('enc', d), nontrivial=len(d) >= 4); chk.dist('cases', 'enc:' + kind)
        chk.dist('enc_input_len', '<8' if len(d) < 8 else '<64' if len(d) < 64 else '<4096' if len(d) < 4096
                 else '<BUF' if len(d) < P['BUF_LEN'] else '>=BUF')
        if x.startswith('CRASH'):
            bad.append(('enc-crash', [l], 'reduce_encode aborts under the sanitizers: ' + x))
        elif y is not None and x != y:
            tie_broken.append(('enc', [l], 'encoder output differs: impl %s... model %s...' % (x[:80], y[:80])))
        if x.startswith('E '):
            encs.append((kind, d, unhx(x[2:])))
            r_ = len(unhx(x[2:])) / max(1, len(d))
            chk.dist('enc_ratio', '<0.1' if r_ < 0.1 else '<0.5' if r_ < 0.5 else '<1' if r_ < 1 else '>=1')
    for k, d, e in encs[:400:57]:
        chk.sample('enc %s (%d bytes) -> %s' % (k, len(d), hx(e)[:120]))

    # ---------------- 2. decoder: valid streams, byte mutants, structural mutants, crafted streams
    rng = chk.rng('mut')
    dl = []      # (line, kind, original data or None)
    encl = {}    # decoder line of a valid stream -> the encoder line that produced it
    for kind, d, e in encs:
        # kinds ending in '-rt' run on the implementation only (property-level oracle, no model verdict)
        dl.append(('dec 1 %d %s' % (rng.choice([0, 255, 0xbe]), hx(e)), 'valid-rt' if kind.startswith('rt:') else 'valid', d))
        encl[dl[-1][0]] = enc_line(kind, d)
    small = [(k, d, e) for k, d, e in encs if len(e) <= (26 if quick else 40)]
    rng.shuffle(small)
    # always swept exhaustively: the empty input and a few fixed tiny ones (trailer-only streams,
    # one symbol, one reference), then a seeded sample of the rest
    forced = [x for x in small if x[1] in (b'', b'a', b'ab', b'aaaaaaaa', b'abababababa')]
    full_budget = 25 if quick else 1200
    for k, d, e in forced + [x for x in small if x not in forced][:full_budget]:
        for mk, s_ in G.byte_mutants(e):
            dl.append(('dec 1 %d %s' % (rng.choice([0, 255]), hx(s_)), mk, d))
    medium = [(k, d, e) for k, d, e in encs if 26 < len(e) <= 3000 and len(d) <= (5000 if quick else 80000)]
    rng.shuffle(medium)
    for k, d, e in medium[:(25 if quick else 400)]:
        ms = list(G.byte_mutants(e, rng, 1))
        cap = 250 if len(d) <= 700 else 60
        for mk, s_ in (ms if len(ms) <= cap else rng.sample(ms, cap)):
            dl.append(('dec 1 %d %s' % (rng.choice([0, 255]), hx(s_)), mk, d))
    # wave 5: the trailer family (every proper prefix; each of the 9 trailer bytes -> 0x00 / 0xff / +-1; trailer bytes
    # dropped from the middle; extensions) of the encodings whose stored hash has special end bytes: the inputs searched
    # for that (kind trailer:*) and whatever other short encoding of this run happens to end in 0xff / 0x00
    rng5 = chk.rng('trailer')
    tr = [x for x in encs if x[0].startswith('trailer:')]
    nat = [x for x in encs if not x[0].startswith(('trailer:', 'rt:')) and 12 <= len(x[2]) <= 80 and x[2][-1] in (0, 255)]
    rng5.shuffle(nat)
    for k, d, e in tr + nat[:(8 if quick else 200)]:
        chk.dist('trailer_family', 'stream ends in %02x' % e[-1] if e[-1] in (0, 1, 254, 255) else 'other last byte')
        if e[-2:] in (b'\xff\xff', b'\0\0'):
            chk.dist('trailer_family', 'stream ends in %s' % e[-2:].hex())
        if e[-9:-7] in (b'\0\0', b'\0\xff'):
            chk.dist('trailer_family', 'first hash byte %02x' % e[-8])
        for mk, s_ in G.trailer_mutants(e):
            dl.append(('dec 1 %d %s' % (rng5.choice([0, 255]), hx(s_)), mk, d))
    # every encoding of the run that ends in a run of 0xff / 0x00 bytes, whatever its size: cut inside and before that run
    for k, d, e in encs:
        if e[-1] in (0, 255) and len(e) < (20000 if k.startswith('rt:') else 200000):
            run_ = len(e) - len(e.rstrip(e[-1:]))
            for c in range(1, min(run_, 8) + 2):
                dl.append(('dec 1 0 ' + hx(e[:len(e) - c]), 'trunc-rt' if k.startswith('rt:') else 'trunc', d))
    # inputs of exactly k * BUF_LEN bytes (the trailer is met with an empty current buffer): the whole trailer cut off
    # byte by byte and each trailer byte altered
    for k, d, e in encs:
        if len(d) >= P['BUF_LEN'] and len(d) % P['BUF_LEN'] == 0 and len(e) < (20000 if k.startswith('rt:') else 200000):
            rt_ = '-rt' if k.startswith('rt:') else ''
            # (through the model only two of them in the quick tier: ~2 s per buffer and stream)
            for c in (range(1, 12) if rt_ or not quick else (rng5.choice([1, 2, 8]), 9)):
                dl.append(('dec 1 0 ' + hx(e[:len(e) - c]), 'trunc' + rt_, d))
            for i in (range(len(e) - 9, len(e)) if rt_ or not quick else ()):
                dl.append(('dec 1 0 ' + hx(e[:i] + bytes([e[i] ^ (1 << rng5.randrange(8))]) + e[i + 1:]), 'sub' + rt_, d))
            dl.append(('dec 1 0 ' + hx(e + b'\xff'), 'ext' + rt_, d))
    singles = [(k, d, e) for k, d, e in encs if len(d) <= 700]
    rng.shuffle(singles)
    singles_big = [(k, d, e) for k, d, e in encs if 700 < len(d) <= (5000 if quick else 40000) and len(e) <= 20000]
    rng.shuffle(singles_big)
    for k, d, e in singles[:(100 if quick else 2500)] + singles_big[:(6 if quick else 60)]:
        for mk, s in G.struct_mutants(e, P, rng):
            dl.append(('dec 1 %d %s' % (rng.choice([0, 255]), hx(s)), mk, d if mk == 'noncanon' else None))
    for mk, s in G.crafted(P):
        for fill in (0, 255):
            dl.append(('dec 1 %d %s' % (fill, hx(s)), 'crafted:' + mk, None))
    for l in clines:
        if l.startswith('dec '):
            dl.insert(0, (l, 'corpus', None))
    # big streams: truncation / extension / a few substitutions of the multi-buffer encodings
    for k, d, e in encs:
        if k.startswith('rt:'):
            if len(e) < 20000:
                dl.append(('dec 1 0 ' + hx(e[:len(e) - rng.choice([1, 2, 9, 10])]), 'trunc-rt', d))
                dl.append(('dec 1 0 ' + hx(e + bytes([rng.choice([0, e[-1]])])), 'ext-rt', d))
            continue
        if len(d) >= P['BUF_LEN'] - 1 and len(e) < 200000:
            cuts = (len(e) - 1, len(e) // 2) if not quick else (rng.choice([len(e) - 1, len(e) - 9, len(e) // 2]),)
            for cut in cuts:
                dl.append(('dec 1 0 ' + hx(e[:cut]), 'trunc', d))
            dl.append(('dec 1 0 ' + hx(e + b'\0'), 'ext', d))
            # a random position, one byte of the stored hash, the 0 tag before it, the last body byte
            poss = [rng.randrange(len(e)), len(e) - 1 - rng.randrange(8), len(e) - 9, len(e) - 10]
            for i in (poss if not quick else [poss[0], rng.choice(poss[1:])]):
                dl.append(('dec 1 0 ' + hx(e[:i] + bytes([e[i] ^ (1 << rng.randrange(8))]) + e[i + 1:]), 'sub', d))
    lines = [x[0] for x in dl]
    costs = [2000 + len(l) + 8 * (len(d) if d is not None else len(l) // 2) for l, _, d in dl]
    t0 = time.time()
    di = run_par(impl, lines, ENV, costs=costs)
    chk.log('decoder: %d streams, impl %.1fs' % (len(lines), time.time() - t0))
    t0 = time.time()
    mi = [i for i, x_ in enumerate(dl) if not x_[1].endswith('-rt')]
    mr = run_par(model, [lines[i] for i in mi], costs=[costs[i] for i in mi])
    dm = [None] * len(dl)
    for i, y in zip(mi, mr):
        dm[i] = y
    chk.log('decoder: model %.1fs (%d streams)' % (time.time() - t0, len(mi)))
    nshown = 0
    for (l, kind, d), x, y in zip(dl, di, dm):
        chk.count(l, nontrivial=True); chk.dist('cases', 'dec:' + kind.split(':')[0])
        chk.dist('dec_verdict_impl', x[:1] if not x.startswith('CRASH') else 'CRASH')
        if y is None:
            kind = kind[:-3]
            if x.startswith('CRASH'):
                bad.append(('dec-crash', [l], 'reduce_decode aborts under ASan/UBSan (%s stream): %s' % (kind, x)))
            elif kind == 'valid' and x != 'A ' + hx(d):
                bad.append(('roundtrip', [encl.get(l, 'enc ' + hx(d)), l], 'decode(encode(data)) != data (%d bytes): got %s' % (len(d), x[:60])))
            elif kind in ('trunc', 'ext') and x != 'R' and x != 'SKIPPED':
                bad.append(('trunc-ext', [l], '%s of an encoder output is accepted: %s' % (kind, x[:60])))
            elif kind == 'sub' and x.startswith('A') and x != 'A ' + hx(d):
                bad.append(('altered-accepted', [l], 'altered stream accepted with different data (%s): %s' % (kind, x[:60])))
            continue
        chk.dist('dec_verdict_model', y[:1])
        if kind in ('sub', 'ref_len', 'crafted:overlap') and nshown < 3 and y == 'R':
            chk.sample('%s -> model %s impl %s (%s)' % (l[:100], y, x[:40], kind)); nshown += 1
        if x == 'SKIPPED':
            continue
        if x.startswith('CRASH'):
            bad.append(('dec-crash', [l], 'reduce_decode aborts under ASan/UBSan (%s stream; model says %s): %s' % (kind, y[:20], x)))
            continue
        # property-level oracles on the implementation, independent of the model
        if kind == 'valid' and x != 'A ' + hx(d):
            bad.append(('roundtrip', [encl.get(l, 'enc ' + hx(d)), l], 'decode(encode(data)) != data (%d bytes): got %s' % (len(d), x[:60])))
        elif kind in ('trunc', 'ext') and x != 'R':
            bad.append(('trunc-ext', [l], '%s of an encoder output is accepted: %s' % (kind, x[:60])))
        elif kind in ('sub', 'del', 'noncanon') and d is not None and x.startswith('A') and x != 'A ' + hx(d):
            bad.append(('altered-accepted', [l], 'altered stream accepted with different data (%s): %s' % (kind, x[:60])))
        elif x != y:
            tie_broken.append(('dec', [l], 'decoder verdict differs (%s): impl %s model %s' % (kind, x[:60], y[:60])))
        if y.startswith('O') or y == 'NOFUEL':
            tie_broken.append(('model-oob', [l], 'model of the fixed decoder reports %s' % y))

    # ---------------- 2b. the glue in mir.c
    t0 = time.time()
    glue_phase(chk, P, model, bad, tie_broken)
    chk.log('glue: %.1fs' % (time.time() - t0))

    # ---------------- 3. decide
    # report at most two cases per (kind, sanitizer error class), the shortest first
    def klass(kind, what):
        for w in ('memcpy-param-overlap', 'heap-buffer-overflow', 'SEGV', 'out of bounds', 'stack-buffer-overflow',
                  'heap-use-after-free', 'timeout'):
            if w in what:
                return kind + '/' + w
        return kind
    per = {}
    for kind, ls, what in sorted(bad, key=lambda x: sum(len(l) for l in x[1])):
        kl = klass(kind, what)
        per[kl] = per.get(kl, 0) + 1
        if per[kl] > 2:
            continue
        ls2 = shrink_case(impl, model, kind, ls)
        extra = model_views(model, ls2)
        sig = kind + ':' + hashlib.sha1('\n'.join(ls2).encode()).hexdigest()[:12]
        chk.finding(sig, dict(kind=kind, lines=ls2, model=extra, impl_result=what, same_class_cases=sum(
            1 for k, _, w in bad if klass(k, w) == kl)), what)
    if not bad:
        if tie_broken:
            kind, ls, what = tie_broken[0]
            chk.finding('tie-broken', dict(kind=kind, lines=ls, what=what, more=[w for _, _, w in tie_broken[1:6]],
                                           searched='%d encodes and %d decodes: no crash, every round trip exact, every '
                                           'truncation/extension rejected, no altered stream accepted with other data' % (len(el), len(lines))),
                        'model and implementation disagree (%d cases) but no input violating the property was found: %s' % (
                            len(tie_broken), what), no_input=True)
        elif not r['ok']:
            chk.proof_broken(r, searched='%d encodes and %d decodes agree between model and implementation, no sanitizer '
                             'report, every round trip exact' % (len(el), len(lines)))
    if not quick and r['ok']:
        # independent re-check of the compiled proofs and their axioms
        t0 = time.time()
        rc, out, err = vlib.sh(['timeout', '1200', 'coqchk', '-o', '-silent', '-Q', '.', 'MirV', 'MirV.Properties_C12'],
                               cwd=vlib.COQDIR)
        okc = rc == 0 and 'Axioms: <none>' in (out + err)
        chk.notes.append('coqchk MirV.Properties_C12: rc=%d, %s (%.0fs)' % (
            rc, 'Axioms: <none>' if okc else (out + err)[-400:], time.time() - t0))
        chk.log('coqchk: %s' % ('ok, no axioms' if okc else 'FAILED'))
        if not okc and not bad and not tie_broken:
            chk.finding('coqchk', dict(rc=rc, tail=(out + err)[-2000:]), 'coqchk does not accept Properties_C12 or reports axioms',
                        no_input=True)
    chk.cov['rule'] = ('encoder inputs run through reduce_encode (ASan+UBSan, NDEBUG) and the extracted Coq encoder, outputs '
                       'compared byte for byte; decoder streams (valid outputs, all single-byte substitutions/deletions/'
                       'truncations/extensions of small encodings, sampled ones of larger encodings, structure-aware rewrites '
                       'of ref_len/ref_ind/sym_len incl. BUF_LEN-1/BUF_LEN/BUF_LEN+1 and the malformed 5-byte uint, crafted '
                       'bounds-check streams) run through reduce_decode and the extracted Coq decoder, verdict and output '
                       'compared; a case is non-trivial unless it is an encoder input shorter than 4 bytes; distinct by case text')


def glue_module(n, name='m', content=None):
    return ('%s: module\nd1: string "%s"\nf: func i64, i64:a\n local i64:r\n add r, a, 1\n ret r\n endfunc\nendmodule\n'
            % (name, 'a' * n if content is None else content)).encode()


def run_each(exe, lines, env=None, timeout=600):
    """every line in a process of its own, JOBS at a time (a few expensive lines)"""
    with ThreadPoolExecutor(max_workers=JOBS) as ex:
        return list(ex.map(lambda l: run_shard(exe, [l], env, timeout)[0], lines))


def glue_phase(chk, P, model, bad, tie_broken):
    quick = chk.tier == 'quick'
    """mir.c's use of the codec: MIR_write_with_func output is exactly the model's encoding of the
    uncompressed binary; MIR_read_with_func reads it back; every stream the model rejects raises
    MIR_binary_io_error (no silent acceptance, no sanitizer report)."""
    glue = vlib.build_harness('c12_glue', ['c12_glue.c'], variant='asan', units=('mir',),
                              defs=['-fno-sanitize=alignment'])
    rng = chk.rng('glue')
    B = P['BUF_LEN']
    texts = [glue_module(n, 'm%d' % i) for i, n in enumerate([0, 3, 40, rng.randrange(100, 3000), 70000])]
    # a module whose uncompressed binary is exactly BUF_LEN bytes: adjust the string length
    n = B - 144
    exact = None
    for it in range(6):
        w = run_shard(glue, ['write ' + glue_module(n).hex()], ENV, 600)[0]
        if not w.startswith('W '):
            break
        d = run_shard(model, ['dec 1 0 ' + w[2:]], None, 600)[0]
        L = (len(d) - 2) // 2 if d.startswith('A ') else -1
        if L == B:
            exact = glue_module(n)
            break
        if L < 0:
            break
        n += B - L
    if exact is not None:
        # the neighbours and the second multiple: the string length moves the size byte for byte as long as the width of
        # its length field stays (the size actually reached is measured below, by the model's decoder, for every text)
        texts += [exact, glue_module(n + 1), glue_module(n + B)]
        if not quick:
            texts += [glue_module(n - 1), glue_module(n + B - 1), glue_module(n + 2 * B)]
    else:
        chk.notes.append('glue: could not build a module with uncompressed size BUF_LEN')
    # written streams whose LAST byte (top byte of the stored hash) is 0xff / 0x00: small modules with varying string
    # content, the first few whose image ends that way (about 1 in 256 each) get the whole trailer family below
    cand = [glue_module(0, 'm', ''.join(rng.choice('abcdefghijklmnopqrstuvwxyz') for _ in range(rng.randrange(1, 14))))
            for _ in range(2000 if quick else 6000)]
    cw = run_par(glue, ['write ' + t.hex() for t in cand], ENV)
    got = {}
    for t, w in zip(cand, cw):
        if w.startswith('W ') and len(w) > 30:
            key = 'ffff' if w.endswith('ffff') else '0000' if w.endswith('0000') else w[-2:] if w[-2:] in ('ff', '00') else None
            if key is not None and got.get(key, 0) < {'ff': 2}.get(key, 1) and t not in texts:
                got[key] = got.get(key, 0) + 1
                texts.append(t)
    chk.cov['glue_special_trailers'] = 'written modules whose image ends in: %s (of %d candidates)' % (
        ', '.join('%s x%d' % kv for kv in sorted(got.items())) or 'none found', len(cand))
    ws = run_par(glue, ['write ' + t.hex() for t in texts], ENV)
    ok_i = [i for i, w in enumerate(ws) if w.startswith('W ')]
    mds = dict(zip(ok_i, run_each(model, ['dec 1 0 ' + ws[i][2:] for i in ok_i])))
    ok_e = [i for i in ok_i if mds[i].startswith('A ')]
    mes = dict(zip(ok_e, run_each(model, ['enc ' + mds[i][2:] for i in ok_e])))
    cases = []   # (line, kind, expect_ok or None)
    case_big = []  # per case: mutant of a multi-buffer image
    for ti, (t, w) in enumerate(zip(texts, ws)):
        chk.count(('glue-write', t), nontrivial=True); chk.dist('cases', 'glue:write')
        if not w.startswith('W '):
            bad.append(('glue-write', ['write ' + t.hex()], 'MIR_write_with_func fails on a valid module: ' + w))
            continue
        s_ = bytes.fromhex(w[2:])
        d = mds[ti]
        if not d.startswith('A '):
            bad.append(('glue-write', ['write ' + t.hex(), 'dec 1 0 ' + hx(s_)],
                        'the binary written by MIR_write_with_func is not a valid compressed stream (model: %s)' % d[:20]))
            continue
        e = mes[ti]
        if e != 'E ' + hx(s_):
            tie_broken.append(('glue-enc', ['write ' + t.hex()], 'MIR_write output differs from encode(uncompressed binary)'))
        L = (len(d) - 2) // 2
        exact_p = L % B == 0
        chk.dist('glue_uncompressed_size', '%d*BUF_LEN%+d' % ((L + 1) // B, L - (L + 1) // B * B) if L >= B - 1 and
                 abs(L - (L + 1) // B * B) <= 1 else '<BUF_LEN' if L < B else 'other')
        cases.append(('read ' + hx(s_), 'valid-exact' if exact_p else 'valid', s_))
        muts = [('prefix', b'XYZ' + s_[3:]), ('prefix', b'MIS' + s_[3:]), ('prefix', s_[:2] + b'r' + s_[3:]),
                ('trunc', s_[:-1]), ('trunc', s_[:-9]), ('trunc', s_[:len(s_) // 2]), ('trunc', s_[:3]), ('trunc', b''),
                ('ext', s_ + b'\0'), ('ext', s_ + s_[-9:])]
        if (len(d) - 2) // 2 < B:
            # single buffer: the hash is checked before the first byte reaches the binary reader
            for _ in range(40 if len(s_) < 3000 else 6):
                i = rng.randrange(len(s_))
                muts.append(('sub', s_[:i] + bytes([s_[i] ^ (1 << rng.randrange(8))]) + s_[i + 1:]))
        # the trailer (0 tag + stored hash): the data itself stays intact.  (Substitutions inside a
        # multi-buffer stream are not tried here: full buffers reach the binary reader before the
        # trailer is checked - the format's stated limit - and what the reader does with damaged
        # *data* is C11's subject, not the compression layer's.)
        for i in (len(s_) - 1, len(s_) - 5, len(s_) - 8, len(s_) - 9):
            muts.append(('sub-trailer', s_[:i] + bytes([s_[i] ^ (1 << rng.randrange(8))]) + s_[i + 1:]))
        if len(s_) < 400 and s_[-1] in (0, 255):
            # an image ending in 0xff / 0x00: every proper prefix, every trailer byte altered / dropped, extensions
            muts += [({'sub': 'sub-trailer'}.get(k, k), m) for k, m in G.trailer_mutants(s_)]
        elif exact_p:
            muts += [('trunc', s_[:len(s_) - c]) for c in (2, 8, 10)] + [('ext', s_ + b'\xff')]
        for k, m in muts:
            cases.append(('read ' + hx(m), k, m))
        case_big += [L >= B] * (len(cases) - len(case_big))
    rl = [c[0] for c in cases]
    gi = run_par(glue, rl, ENV)
    # the model's verdict; for prefixes / extensions of a multi-buffer image the model accepted it is Reject by
    # reduce_truncated_rejected / reduce_extended_rejected (the decoder model needs ~2 s per buffer and stream)
    by_thm = [big and k in ('trunc', 'ext') for (_, k, _), big in zip(cases, case_big)]
    mrun = [i for i, t_ in enumerate(by_thm) if not t_]
    gm = ['R'] * len(cases)
    for i, y in zip(mrun, run_par(model, ['dec 1 0 ' + hx(cases[i][2]) for i in mrun],
                                  costs=[2000 + len(cases[i][2]) * (400 if case_big[i] else 1) for i in mrun])):
        gm[i] = y
    for (l, kind, m), x, y in zip(cases, gi, gm):
        chk.count(l, nontrivial=True); chk.dist('cases', 'glue:' + kind); chk.dist('glue_verdict', x.split()[0])
        if x.startswith('CRASH'):
            bad.append(('glue-crash', [l], 'MIR_read_with_func aborts under ASan/UBSan on a %s stream: %s' % (kind, x)))
        elif kind.startswith('valid') and not x.startswith('OK'):
            bad.append(('glue-' + kind, [l, 'dec 1 0 ' + hx(m)],
                        'MIR_read_with_func rejects the binary MIR_write_with_func just wrote (%s; uncompressed size %s a multiple of BUF_LEN): %s'
                        % (kind, 'is' if kind == 'valid-exact' else 'not', x)))
        elif y == 'R' and x.startswith('OK'):
            bad.append(('glue-accepts', [l, 'dec 1 0 ' + hx(m)],
                        'MIR_read_with_func returns normally on a %s stream that reduce_decode rejects (decoder failure not reported)' % kind))
        elif y.startswith('A') and kind != 'valid' and kind != 'valid-exact' and not x.startswith('OK') and not x.startswith('ERR'):
            tie_broken.append(('glue', [l], 'unexpected glue result %s' % x))


def model_views(model, ls):
    out = {}
    for l in ls:
        if l.startswith('dec '):
            w = l.split()
            for fx in ('1', '0'):
                rr = run_shard(model, ['dec %s %s %s' % (fx, w[2], w[3])], None, 600)
                out['model(fx=%s) %s' % (fx, l[:60])] = rr[0][:200]
    return out


def shrink_case(impl, model, kind, ls):
    """shrink an encoder input whose round trip / encoding fails (byte-level delta debugging)"""
    if kind != 'roundtrip' or len(ls[0]) > 20000:
        return ls
    data = list(unhx(ls[0].split()[-1]))
    cmd = ' '.join(ls[0].split()[:-1]) + ' '     # 'enc ' or 'encf <fill> '

    def fails(sub):
        e = run_shard(impl, [cmd + hx(bytes(sub))], ENV, 600)[0]
        if not e.startswith('E '):
            return True
        d = run_shard(impl, ['dec 1 0 ' + e[2:]], ENV, 600)[0]
        return d != 'A ' + hx(bytes(sub))
    sub = vlib.shrink_list(data, fails, max_steps=200)
    e = run_shard(impl, [cmd + hx(bytes(sub))], ENV, 600)[0]
    return [cmd + hx(bytes(sub)), 'dec 1 0 ' + (e[2:] if e.startswith('E ') else '-')]


def replay(chk, path):
    try:
        resource.setrlimit(resource.RLIMIT_STACK, (resource.RLIM_INFINITY, resource.RLIM_INFINITY))
    except (ValueError, OSError):
        pass
    tr_c12_params.regenerate()
    j = json.load(open(path))
    impl, model = build()
    ls = j['replay'].get('lines', [])
    rc = 0
    glue = None
    for l in ls:
        if l.startswith('read ') or l.startswith('write '):
            glue = glue or vlib.build_harness('c12_glue', ['c12_glue.c'], variant='asan', units=('mir',),
                                              defs=['-fno-sanitize=alignment'])
            a = run_shard(glue, [l], ENV, 600)[0]
            print('case :', l[:200] + ('...' if len(l) > 200 else '')); print('glue :', a[:300])
            kind = j['replay'].get('kind', '')
            good = a.startswith('ERR') if kind == 'glue-accepts' else (a.startswith('OK') or a.startswith('W '))
            if not good:
                rc = 1
            continue
        a = run_shard(impl, [l], ENV, 600)[0]
        b = run_shard(model, [l], None, 600)[0]
        print('case :', l[:200] + ('...' if len(l) > 200 else ''))
        print('impl :', a[:300]); print('model:', b[:300])
        if a != b:
            rc = 1
    return rc

# C08: c2mir lays out and passes C data as the x86-64 SysV ABI does.
# Coq: coq/C08/{CLayout,SysVLayout,LayoutProofs,...}.v, theorems in coq/Properties_C08.v.
# Tie: three-way correspondence  model(c2mir) == c2m-compiled TU   and   model(SysV) == gcc-compiled TU
# on seeded generated declarations (tools/gen_c08_decls.py); by-value passing between c2m and gcc code.
import os, sys, json, shutil, tempfile, re
import vlib
import gen_c08_decls as G

LEVEL = 'proof'
# broken-tie observations (model != implementation while c2m == gcc): reported only when the whole run
# found no concrete input on which the property itself fails
DEFERRED = []
NOT_WF = []   # generated declarations outside wf_ty: the generator and the theorem's quantifier must agree
WORK = os.path.join(vlib.BUILD, 'c08')


class Tools:
    def __init__(self, chk):
        os.makedirs(WORK, exist_ok=True)
        self.dir = tempfile.mkdtemp(prefix='run-', dir=WORK)
        exe = vlib.build_harness('c08_c2m', [os.path.join(vlib.REPO, 'c2mir', 'c2mir-driver.c')],
                                 units=('mir', 'mir-gen', 'c2mir'))
        # the shared build cache may be pruned by concurrent checks: keep a private copy for this run
        self.c2m = os.path.join(self.dir, 'c2m')
        shutil.copy(exe, self.c2m)
        mod = vlib.ocaml_build('c08', 'Extract_C08', ['c08x'], 'driver_c08.ml')
        self.model = os.path.join(self.dir, 'model')
        shutil.copy(mod, self.model)
        self.n = 0

    def close(self):
        shutil.rmtree(self.dir, ignore_errors=True)

    def path(self, name):
        self.n += 1
        return os.path.join(self.dir, '%d-%s' % (self.n, name))

    # --- layout probes
    def run_c2m(self, src, mode='-ei', timeout=300):
        return vlib.sh([self.c2m, src, mode], timeout=timeout, cwd=self.dir)

    def run_gcc(self, src, timeout=300):
        exe = src[:-2] + '.gcc'
        rc, out, err = vlib.sh(['gcc', '-w', '-O0', '-std=gnu11', src, '-o', exe], timeout=timeout)
        if rc != 0:
            return rc, out, 'gcc failed: ' + err
        return vlib.sh([exe], timeout=timeout)

    def layout(self, decls):
        """decls: list of types.  Returns per decl dict(c2m=..., gcc=..., mc=..., ms=...) of canonical strings
        (None when the compiler produced no line for it)."""
        src = self.path('lay.c')
        open(src, 'w').write(G.layout_tu(list(enumerate(decls))))
        rc1, o1, e1 = self.run_c2m(src)
        rc2, o2, e2 = self.run_gcc(src)
        a = {l.split()[1]: ' '.join(l.split()[2:]) for l in o1.split('\n') if l.startswith('L ')}
        b = {l.split()[1]: ' '.join(l.split()[2:]) for l in o2.split('\n') if l.startswith('L ')}
        # storage c2m allocates for a global object of each type (MIR text: `gobj<i>: bss <n>`)
        mir = src[:-2] + '.mir'
        vlib.sh([self.c2m, src, '-S', '-o', mir], timeout=300, cwd=self.dir)
        bss = {}
        if os.path.exists(mir):
            for m in re.finditer(r'^gobj(\d+):\s+bss\s+(\d+)', open(mir, errors='replace').read(), re.M):
                bss[m.group(1)] = int(m.group(2))
        rcm, om, em = vlib.run_lines(self.model, [G.ty_text(t) for t in decls])
        if rcm != 0 or len(om) != len(decls):
            raise vlib.BuildError('model driver failed: rc=%d %s' % (rcm, em[-500:]))
        # sign of the values read back from bit-fields: 'V <i> <letters>' lines; models: 'B' lines
        va = {l.split()[1]: l.split()[2] for l in o1.split('\n') if l.startswith('V ') and len(l.split()) == 3}
        vb = {l.split()[1]: l.split()[2] for l in o2.split('\n') if l.startswith('V ') and len(l.split()) == 3}
        rcb, ob, eb = vlib.run_lines(self.model, ['B ' + G.ty_text(t) for t in decls])
        if rcb != 0 or len(ob) != len(decls):
            raise vlib.BuildError('model driver failed (B): rc=%d %s' % (rcb, eb[-500:]))
        res = []
        for i, t in enumerate(decls):
            parts = om[i].split('|')
            mc, ms = [' '.join(x.split()[1:]) for x in parts[:2]]
            res.append(dict(c2m=a.get(str(i)), gcc=b.get(str(i)), mc=mc, ms=ms, bss=bss.get(str(i)), wf=parts[2].strip(),
                            c2m_sign=va.get(str(i), ''), gcc_sign=vb.get(str(i), ''), m_sign=ob[i].split()[1:],
                            bf_leaves=G.bf_leaves(t)))
        info = dict(c2m_rc=rc1, c2m_err=e1[-400:], gcc_rc=rc2, gcc_err=e2[-400:])
        return res, info


    # --- classification probes
    def classify(self, decls):
        """per decl dict: gcc_arg, gcc_ret (spy letters), c2m_ret (letters), c2m_args (list of 'blkK:size'),
        mc_ret, mc_args (c2mir model), ms_ret, ms_args (SysV model)"""
        idx = list(enumerate(decls))
        spy = self.path('spy.c')
        open(spy, 'w').write(G.spy_tu(idx))
        exe = spy[:-2] + '.exe'
        rc, out, err = vlib.sh(['gcc', '-w', '-O0', '-std=gnu11', '-I' + os.path.join(vlib.VERIF, 'harness'), spy,
                                os.path.join(vlib.VERIF, 'harness', 'c08_spy.S'), '-o', exe], timeout=600)
        if rc != 0:
            raise vlib.BuildError('gcc failed on the spy TU: ' + err[-800:])
        rc, out, err = vlib.sh([exe], timeout=300)
        g = {}
        for l in out.split('\n'):
            w = l.split()
            if len(w) >= 3:
                g[w[0] + w[1]] = w[2]
        sig = self.path('sig.c')
        open(sig, 'w').write(G.sig_tu(idx))
        mir = sig[:-2] + '.mir'
        rc2, o2, e2 = vlib.sh([self.c2m, sig, '-S', '-o', mir], timeout=300, cwd=self.dir)
        sigs = {}
        fns = {}
        if os.path.exists(mir):
            fns = G.mir_functions(open(mir, errors='replace').read())
            for m in re.finditer(r'^(ret\d+|arg\d+_\d+|mix\d+):\s+func[ \t]*(.*)$', open(mir, errors='replace').read(), re.M):
                sigs[m.group(1)] = [x.strip() for x in m.group(2).split(',')] if m.group(2).strip() else []
        pres = ' '.join('%d,%d' % p for p in G.PRE_ARGS)
        rcm, om, em = vlib.run_lines(self.model, ['K %s | %s' % (pres, G.ty_text(t)) for t in decls])
        if rcm != 0 or len(om) != len(decls):
            raise vlib.BuildError('model driver failed: rc=%d %s' % (rcm, em[-500:]))
        # whole signatures (result through the hidden pointer, mixed scalar kinds): c2m_signature / sv_signature
        rcg, og, eg = vlib.run_lines(self.model, ['G %d %s | %s' % (G.MIX_SIGS[i % len(G.MIX_SIGS)][0], G.MIX_SIGS[i % len(G.MIX_SIGS)][1] or '-',
                                                                  G.ty_text(t)) for i, t in enumerate(decls)])
        if rcg != 0 or len(og) != len(decls):
            raise vlib.BuildError('model driver failed (G): rc=%d %s' % (rcg, eg[-500:]))
        res = []
        for i, t in enumerate(decls):
            r = dict(gcc_arg=g.get('A%d' % i), gcc_ret=g.get('R%d' % i), c2m_err=e2[-300:])
            ps = sigs.get('mix%d' % i)
            mms = [re.match(r'(blk\d:\d+)\(', x) for x in ps[-3:]] if ps and len(ps) >= 3 else [None]
            r['c2m_mix'] = '+'.join(m.group(1) for m in mms) if all(mms) else None
            r['c2m_mix_rblk'] = bool(ps) and ps[0].startswith('rblk:')
            kv = dict(x.split('=') for x in og[i].split()[1:])
            r['mc_mix'], r['ms_mix'], r['nopad'] = kv['c2m'], kv['sv'], kv['nopad']
            r['mix'] = '%d:%s' % G.MIX_SIGS[i % len(G.MIX_SIGS)]
            ps = sigs.get('ret%d' % i)
            if ps is None:
                r['c2m_ret'] = None
            elif any(x.startswith('rblk:') for x in ps):
                r['c2m_ret'] = 'M'
            else:
                r['c2m_ret'] = ''.join({'f': 'S', 'd': 'S', 'ld': 'X'}.get(x, 'I' if re.match(r'[iu](8|16|32|64)$', x) else '?')
                                       for x in ps if ':' not in x)
            # the typed moves of the returned pieces: in a c2m callee (ret<i>) and in a c2m caller (cal<i>)
            r['c2m_racc'] = G.ret_accesses(fns['ret%d' % i]) if 'ret%d' % i in fns else None
            r['c2m_cacc'] = G.call_accesses(fns['cal%d' % i], 'ext%d' % i) if 'cal%d' % i in fns else None
            args = []
            for j in range(len(G.PRE_ARGS)):
                ps = sigs.get('arg%d_%d' % (i, j))
                mms = [re.match(r'(blk\d:\d+)\(', x) for x in ps[-3:]] if ps and len(ps) >= 3 else [None]
                args.append('+'.join(m.group(1) for m in mms) if all(mms) else None)
            r['c2m_args'] = args
            mc, ms = om[i].split('|')
            kv = dict(x.split('=') for x in mc.split()[1:])
            r['mc_ret'], r['mc_args'] = kv['ret'], kv['args'].split(';')
            r['mc_racc'] = kv.get('racc')
            kv = dict(x.split('=') for x in ms.split())
            r['ms_ret'], r['ms_args'] = kv['ret'], kv['args'].split(';')
            r['wf'] = kv.get('wf')
            r['straddle'], r['head'] = kv.get('straddle'), kv.get('head')
            res.append(r)
        return res


    # --- by-value passing at run time, both directions, interpreter and generator
    def passing(self, decls, modes=('-ei', '-eg')):
        """returns {mode: {(i, dir): 'ok'|'BAD'}} plus stderr info; dir in a r A R (see gen pass_tus)"""
        d = self.path('pass')
        os.makedirs(d)
        lib, main = G.pass_tus(list(enumerate(decls)))
        open(os.path.join(d, 'lib.c'), 'w').write(lib)
        open(os.path.join(d, 'main.c'), 'w').write(main)
        rc, out, err = vlib.sh(['gcc', '-w', '-O1', '-std=gnu11', '-shared', '-fPIC', os.path.join(d, 'lib.c'), '-o',
                                os.path.join(d, 'libc08p.so')], timeout=900)
        if rc != 0:
            raise vlib.BuildError('gcc failed on the passing library: ' + err[-800:])
        res = {}
        info = {}
        for mode in modes:
            rc, out, err = vlib.sh([self.c2m, os.path.join(d, 'main.c'), '-L' + d, '-lc08p', mode], timeout=900, cwd=d)
            r = {}
            for l in out.split('\n'):
                w = l.split()
                if len(w) == 4 and w[0] == 'P':
                    r[(int(w[1]), w[2])] = w[3]
            res[mode] = r
            info[mode] = 'rc=%d %s' % (rc, err[-300:])
        shutil.rmtree(d, ignore_errors=True)
        return res, info

    # --- whole signatures (round 3): scalars of every class around by-value aggregates, incl. variadic tails
    def sigx(self, cases, modes=('-ei', '-eg'), static=True):
        """cases: list of (res, sig, t).  Returns (run, blocks, model, info): run = {mode: {(c, 's'|'S'): 'ok'|'BAD'}},
        blocks = per case (prototype blk list, call-site blk list) from c2m -S, model = per case dict of the S line"""
        d = self.path('sigx')
        os.makedirs(d)
        lib, main, sigtu = G.sx_tus(cases)
        for name, text in (('lib.c', lib), ('main.c', main), ('sig.c', sigtu)):
            open(os.path.join(d, name), 'w').write(text)
        rc, out, err = vlib.sh(['gcc', '-w', '-O1', '-std=gnu11', '-shared', '-fPIC', os.path.join(d, 'lib.c'), '-o',
                                os.path.join(d, 'libc08x.so')], timeout=900)
        if rc != 0:
            raise vlib.BuildError('gcc failed on the signature library: ' + err[-800:])
        run, info = {}, {}
        for mode in modes:
            rc, out, err = vlib.sh([self.c2m, os.path.join(d, 'main.c'), '-L' + d, '-lc08x', mode], timeout=900, cwd=d)
            r = {}
            for l in out.split('\n'):
                w = l.split()
                if len(w) == 4 and w[0] == 'X':
                    r[(int(w[1]), w[2])] = w[3]
            run[mode] = r
            info[mode] = 'rc=%d %s' % (rc, err[-300:])
        blocks, model = None, None
        if static:
            mir = os.path.join(d, 'sig.mir')
            rc, out, err = vlib.sh([self.c2m, os.path.join(d, 'sig.c'), '-S', '-o', mir], timeout=300, cwd=d)
            info['S'] = 'rc=%d %s' % (rc, err[-300:])
            blocks = G.sx_mir_blocks(open(mir, errors='replace').read() if os.path.exists(mir) else '', len(cases))
            rcm, om, em = vlib.run_lines(self.model, [G.sx_model_line(*c) for c in cases])
            if rcm != 0 or len(om) != len(cases):
                raise vlib.BuildError('model driver failed (S): rc=%d %s' % (rcm, em[-500:]))
            model = [dict(x.split('=') for x in o.split()[1:]) for o in om]
        shutil.rmtree(d, ignore_errors=True)
        return run, blocks, model, info

    def model_sizes(self, decls):
        rcm, om, em = vlib.run_lines(self.model, [G.ty_text(t) for t in decls])
        if rcm != 0 or len(om) != len(decls):
            raise vlib.BuildError('model driver failed: rc=%d %s' % (rcm, em[-500:]))
        return [int(o.split()[1]) for o in om]

    def model_classes(self, decls):
        pres = ' '.join('%d,%d' % p for p in G.PRE_ARGS)
        rcm, om, em = vlib.run_lines(self.model, ['K %s | %s' % (pres, G.ty_text(t)) for t in decls])
        if rcm != 0 or len(om) != len(decls):
            raise vlib.BuildError('model driver failed: rc=%d %s' % (rcm, em[-500:]))
        return [dict(x.split('=') for x in o.split('|')[1].split()) for o in om]


def blk_letters(b):
    """'blk3:16' -> 'IS' : the registers a MIR block type travels in; 'blk1:8+blk2:8' -> 'I+S'"""
    if b is None:
        return None
    out = []
    for x in b.split('+'):
        k, size = int(x[3]), int(x.split(':')[1])
        nq = (size + 7) // 8
        out.append({0: 'M', 1: 'I' * nq, 2: 'S' * nq, 3: 'IS', 4: 'SI'}[k])
    return '+'.join(out)


def first(x):
    return None if x is None else x.split('+')[0]


def has_union_unnamed_bf(t):
    """gcc (unlike the psABI text and clang) classifies the members of a union by their declared type even
    when they are bit-fields: an unnamed/zero-width bit-field in a union becomes an INTEGER of its type
    (`union{long:0; float f;}` travels in %rdi; clang and c2m: %xmm0) or, misaligned, forces MEMORY
    (`struct{int a:1; union{long:9; char c;} u;}`).  Such declarations are not compared with gcc."""
    for x in G.walk_types(t):
        if x[0] == 'u' and any(m[0] == 'g' for m in x[1]):
            return True
    return False


def py_align(t):
    """natural alignment (unnamed bit-fields do not count)"""
    k = t[0]
    if k == 'b':
        return G.KSIZE[t[1]]
    if k == 'p':
        return 8
    if k == 'e':
        return G.ENUM_SIZE[t[1]]
    if k == 'a':
        return py_align(t[2])
    if k == 'x':
        return py_align(t[1])
    return max([1] + [py_align(m[1]) for m in t[1] if m[0] in 'no'] + [py_align(m[2]) for m in t[1] if m[0] == 'f'])


def has_underaligned_fullwidth_unnamed_bf(t):
    """gcc turns an unnamed bit-field as wide as an integer type (16, 32, 64 bits) into an ordinary member of that type without raising the
    struct's alignment; when the struct then sits at an offset that is not a multiple of the type's size, gcc's
    classify_argument sees a misaligned scalar and answers MEMORY (`struct { int a : 1; struct { short : 16; } s; }`;
    clang: INTEGER, as c2m).  An artefact of gcc's representation, like has_union_unnamed_bf: not compared."""
    for x in G.walk_types(t):
        if x[0] in 'su':
            a = py_align(x)
            for m in x[1]:
                # round 3 (seed 12: `struct { int a : 17; struct { long long : 16; } s; }` gcc MEMORY, `long long : 15`
                # INTEGER): what matters is the width being that of an integer mode (16/32/64), whatever the declared type
                if m[0] == 'g' and m[1] in (16, 32, 64) and m[1] // 8 > a:
                    return True
    return False


def ret_same(gcc, other):
    """gcc's observed return letters vs a prediction; a lower-case letter (padding-only eightbyte, nothing
    observable in the return registers) matches anything"""
    return len(gcc) == len(other) and all(a == b or a.islower() for a, b in zip(gcc, other))


def kverdict(t, r):
    if r['gcc_arg'] is None or r['gcc_ret'] is None or '?' in r['gcc_arg'] + r['gcc_ret']:
        return 'spy-unreadable'
    if r['c2m_ret'] is None or None in r['c2m_args']:
        return 'c2m-fails'
    if 'n' in first(r['ms_args'][0]):
        return 'padding-eightbyte'      # an eightbyte of nothing but padding: known c2m deviation
    if has_union_unnamed_bf(t):
        return 'gcc-union-unnamed-bf'   # gcc deviates from the psABI text; not compared
    if has_underaligned_fullwidth_unnamed_bf(t):
        return 'gcc-fullwidth-unnamed-bf'   # likewise
    if first(blk_letters(r['c2m_args'][0])) != r['gcc_arg'].upper() or not ret_same(r['gcc_ret'], r['c2m_ret']):
        return 'abi-mismatch'
    if r['c2m_ret'] != r['mc_ret'] or r['c2m_args'] != r['mc_args']:
        return 'model-c2m'
    # access type and offset of every returned piece (model ret_pieces; theorems ret_bytes_cover, ret_tail_access)
    if r.get('c2m_racc') != r.get('mc_racc') or r.get('c2m_cacc') != r.get('mc_racc'):
        return 'model-c2m-retaccess'
    if r['gcc_arg'].upper() != first(r['ms_args'][0]).upper() or not ret_same(r['gcc_ret'], r['ms_ret']):
        return 'model-sysv'
    if [blk_letters(b) for b in r['mc_args']] != r['ms_args'] or r['mc_ret'] != r['ms_ret']:
        return 'models-differ'          # the two Coq models disagree (register exhaustion cases)
    # the mixed signature (theorem signature_eq_sysv): c2m -S vs c2m_signature vs sv_signature
    if r.get('c2m_mix') is None:
        return 'c2m-fails'
    if re.sub(r':\d+', '', r['c2m_mix']) != r['mc_mix'] or r['c2m_mix_rblk'] != r['mix'].startswith('1:'):
        return 'model-c2m'
    if blk_letters(r['c2m_mix']) != r['ms_mix']:
        return 'models-differ'
    return 'ok'


def verdict(r):
    """classify one declaration's four observations"""
    if r['gcc'] is None:
        return 'gcc-rejects'
    if r['c2m'] is None:
        return 'c2m-fails'
    if r['c2m'] != r['gcc']:
        return 'abi-mismatch'
    if r['c2m'] != r['mc']:
        return 'model-c2m'
    if r['gcc'] != r['ms']:
        return 'model-sysv'
    if r.get('bss') is None or r['bss'] < int(r['c2m'].split()[0]):
        return 'bss-short'
    return sign_verdict(r)


# How the sign of bit-field values is compared (coq/C08/TotalProofs.v c2m_bf_signed / sv_bf_signed): one letter per
# named bit-field, s = sign-extended, u = zero-extended; the model letters are c2mir without fixes/C08-7, c2mir with
# it (= /repo since ceabc631), gcc.  c2m must read as gcc does and as the model of the fixed code says.
def sign_verdict(r):
    cs, gs, ms, lv = r.get('c2m_sign', ''), r.get('gcc_sign', ''), r.get('m_sign', []), r.get('bf_leaves', [])
    if len(cs) != len(ms) or len(gs) != len(ms) or len(lv) != len(ms):
        return 'sign-unreadable' if (cs or gs or ms) else 'ok'
    for c, g, m, (bt, w) in zip(cs, gs, ms, lv):
        if g != m[2]:
            return 'model-sysv-sign'
        if bt[0] == 'e' and w >= 32:
            # not compared between c2m and gcc (outside bf_sign_enum_eq_sysv_partial): at these widths the sign is
            # the signedness of the enum's underlying type, where c2mir (int/long) and gcc (unsigned when no
            # enumerator is negative) differ as C implementations; both are still tied to their models
            if c != m[1]:
                return 'model-c2m-sign'
            continue
        if c != g:
            return 'abi-mismatch-sign'
        if c != m[1]:
            return 'model-c2m-sign'
    return 'ok'


def gen_decls(chk, n, salt):
    rng = chk.rng(salt)
    g = G.Gen(rng)
    out = []
    for i in range(n):
        out.append(g.decl() if rng.random() < 0.8 else G.small_decl(rng))
    return out


def load_corpus(name='c08_decls.txt'):
    p = os.path.join(vlib.VERIF, 'corpus', name)
    out = []
    if os.path.exists(p):
        for l in open(p):
            l = l.strip()
            if l and not l.startswith('#'):
                out.append(G.parse_text(l))
    return out


def shrink_decl(tools, t, want):
    def fails(c):
        r, _ = tools.layout([c])
        return verdict(r[0]) == want
    return G.shrink(t, fails, max_steps=250)


def member_transitions(t):
    """adjacent member-kind pairs inside structs: the case split of the packer proofs (walk_rr/br/rb/bb,
    zero-width at position 0 or later): R regular, B bit-field, Z zero-width, F flexible array, ^ start"""
    out = []
    for x in G.walk_types(t):
        if x[0] == 's':
            prev = '^'
            for m in x[1]:
                k = 'R' if m[0] in 'no' else ('Z' if m[1] == 0 else 'B')
                if m[0] == 'n' and m[1][0] == 'x':
                    k = 'F'
                out.append(prev + k)
                prev = k
    return out


def layout_part(chk, tools, decls, label):
    res, info = tools.layout(decls)
    bad = {}
    for t, r in zip(decls, res):
        v = verdict(r)
        fs = G.features(t)
        chk.count(G.ty_text(t), nontrivial=G.size_of(t) >= 4)
        chk.dist('layout_verdicts', v)
        chk.dist('in_theorem_quantifier(wf_ty)', r['wf'])
        if r['wf'] != 'wf':
            NOT_WF.append(G.ty_text(t))
        for f in sorted(fs):
            chk.dist('decl_features', f)
        chk.dist('decl_nodes', min(60, G.size_of(t) // 10 * 10))
        for tr in member_transitions(t):
            chk.dist('struct_member_transitions', tr)
        for bt, w in G.bf_leaves(t):
            chk.dist('bitfield_leaf_types', ('enum-' + bt[1] if bt[0] == 'e' else bt[1]) + (':full' if w == 8 * (G.ENUM_SIZE[bt[1]] if bt[0] == 'e' else G.KSIZE[bt[1]]) else ''))
        if v != 'ok':
            bad.setdefault(v, []).append((t, r))
    chk.log('%s: %d declarations, verdicts %s' % (label, len(decls), {k: len(v) for k, v in bad.items()} or 'all ok'))
    seen = set()
    real = 0
    for v in ('abi-mismatch', 'abi-mismatch-sign', 'c2m-fails', 'gcc-rejects', 'bss-short', 'sign-unreadable', 'model-c2m', 'model-sysv',
              'model-c2m-sign', 'model-sysv-sign'):
        for t, r in bad.get(v, [])[:6]:
            if v in ('gcc-rejects',):
                # generator produced something gcc does not accept: a harness problem, never silent
                chk.finding('harness:gcc-rejects', dict(decl=G.ty_text(t), info=info),
                            'generated declaration rejected by gcc (harness defect): ' + G.ty_text(t)[:200], no_input=True)
                break
            small = shrink_decl(tools, t, v)
            txt = G.ty_text(small)
            if txt in seen:
                continue
            seen.add(txt)
            rr, inf = tools.layout([small])
            obj = dict(kind='layout', decl=txt, c2m=rr[0]['c2m'], gcc=rr[0]['gcc'], model_c2m=rr[0]['mc'],
                       model_sysv=rr[0]['ms'], original=G.ty_text(t), c2m_err=inf['c2m_err'])
            obj.update(c2m_sign=rr[0]['c2m_sign'], gcc_sign=rr[0]['gcc_sign'], model_sign=rr[0]['m_sign'])
            if v == 'abi-mismatch':
                real += 1
                chk.finding('layout:' + txt, obj, 'c2m and gcc lay out differently: %s  c2m[%s] gcc[%s]' % (txt, rr[0]['c2m'], rr[0]['gcc']))
            elif v == 'abi-mismatch-sign':
                real += 1
                chk.finding('bfsign:' + txt, obj, 'c2m and gcc read the value of a bit-field with different sign (s = sign-extended, u = zero-extended, '
                            'one letter per named bit-field): %s  c2m[%s] gcc[%s]' % (txt, rr[0]['c2m_sign'], rr[0]['gcc_sign']))
            elif v == 'sign-unreadable':
                chk.finding('harness:sign', obj, 'the bit-field sign probe printed no usable line for ' + txt, no_input=True)
            elif v in ('model-c2m-sign', 'model-sysv-sign'):
                DEFERRED.append(('tie:' + v, obj, {'model-c2m-sign': 'c2m agrees with gcc but no longer with the Coq model of the sign of bit-field values (c2m_bf_signed) on: ',
                                                   'model-sysv-sign': 'gcc no longer agrees with the model sv_bf_signed on: '}[v] + txt))
            elif v == 'bss-short':
                real += 1
                obj['bss'] = rr[0]['bss']
                chk.finding('bss-short:' + txt, obj, 'c2m allocates %s bytes for a global object whose sizeof is %s: %s' % (
                    rr[0]['bss'], rr[0]['c2m'].split()[0], txt))
            elif v == 'c2m-fails':
                real += 1
                chk.finding('c2m-fails:' + txt, obj, 'c2m fails on a declaration gcc accepts: %s (%s)' % (txt, inf['c2m_err'][-200:]))
            elif v == 'model-c2m':
                DEFERRED.append(('tie:model-c2m', obj, 'c2m agrees with gcc but no longer with its Coq layout model (tie broken) on: ' + txt))
            elif v == 'model-sysv':
                DEFERRED.append(('tie:model-sysv', obj, 'gcc no longer agrees with the SysV layout model on: ' + txt))
    return bad


def gen_small(chk, n, salt):
    rng = chk.rng(salt)
    out = []
    while len(out) < n:
        t = G.small_decl(rng) if rng.random() < 0.85 else G.Gen(rng, flex=False, max_depth=2).decl()
        if G.passable(t):
            out.append(t)
    return out


def classify_part(chk, tools, decls, label):
    res = tools.classify(decls)
    bad = {}
    for t, r in zip(decls, res):
        v = kverdict(t, r)
        chk.count('K ' + G.ty_text(t), nontrivial=G.size_of(t) >= 3)
        chk.dist('classify_verdicts', v)
        chk.dist('in_classification_quantifier(wf_ty)', r['wf'])
        if r['wf'] != '1':
            NOT_WF.append(G.ty_text(t))
        for f in sorted(G.features(t) | G.shape_features(t)):
            chk.dist('classified_decl_features', f)
        chk.dist('mixed_signature', r.get('mix', '?'))
        if r.get('straddle') == '1':
            chk.dist('bitfield_touching_two_eightbytes', 'old first-eightbyte rule would differ' if r.get('head') != first(r['ms_args'][0]).upper().replace('N', 'I')
                     else 'old rule agrees')
        chk.dist('arg_class(gcc)', (r['gcc_arg'] or '?').upper())
        chk.dist('ret_accesses(c2m -S, callee)', r.get('c2m_racc') or '?')
        chk.dist('ret_class(gcc)', (r['gcc_ret'] or '?').upper())
        if v not in ('ok', 'padding-eightbyte', 'gcc-union-unnamed-bf', 'gcc-fullwidth-unnamed-bf'):
            bad.setdefault(v, []).append((t, r))
    chk.log('%s: %d declarations, verdicts %s' % (label, len(decls), {k: len(v) for k, v in bad.items()} or 'all ok'))
    seen = set()
    real = 0
    for v in ('abi-mismatch', 'c2m-fails', 'spy-unreadable', 'model-c2m', 'model-c2m-retaccess', 'model-sysv', 'models-differ'):
        for t, r in bad.get(v, [])[:5]:
            def fails(c, v=v):
                if not G.passable(c):
                    return False
                return kverdict(c, tools.classify([c])[0]) == v
            small = G.shrink(t, fails, max_steps=150)
            txt = G.ty_text(small)
            if txt in seen:
                continue
            seen.add(txt)
            rr = tools.classify([small])[0]
            obj = dict(kind='classify', decl=txt, original=G.ty_text(t), **rr)
            if v == 'abi-mismatch':
                real += 1
                chk.finding('classify:' + txt, obj, 'c2m and gcc pass/return this aggregate differently: %s  c2m[arg %s ret %s] gcc[arg %s ret %s]' % (
                    txt, first(blk_letters(rr['c2m_args'][0])), rr['c2m_ret'], rr['gcc_arg'], rr['gcc_ret']))
            elif v == 'c2m-fails':
                real += 1
                chk.finding('c2m-fails:' + txt, obj, 'c2m fails on functions passing %s (%s)' % (txt, rr['c2m_err'][-200:]))
            elif v == 'spy-unreadable':
                chk.finding('harness:spy', obj, 'the register spy could not read how gcc passes ' + txt, no_input=True)
            else:
                DEFERRED.append(('tie:' + v, obj, {'model-c2m': 'c2m agrees with gcc but no longer with its Coq classification model on: ',
                                                   'model-c2m-retaccess': 'c2m moves the pieces of a value returned in registers with other access types/offsets '
                                                   '(c2m -S: callee %s, caller %s) than the Coq model ret_pieces (%s; theorems ret_bytes_cover, ret_tail_access) on: '
                                                   % (rr.get('c2m_racc'), rr.get('c2m_cacc'), rr.get('mc_racc')),
                                                   'model-sysv': 'gcc no longer agrees with the SysV classification model on: ',
                                                   'models-differ': 'the c2mir and SysV classification models differ on: '}[v] + txt))
    return bad


FILLER = ('s', [('n', ('b', 'char'))])


def odd_stack_prefix(index):
    nl, nd = G.PRE_ARGS[index % len(G.PRE_ARGS)]
    return (max(0, nl - 6) + max(0, nd - 8)) % 2 == 1 or G.mix_stack_words(index) % 2 == 1


# MIR block types carry no alignment: a 16-byte aligned aggregate that is passed in memory after an odd
# number of 8-byte stack words lands 8 bytes off (gcc aligns it to 16).  Known finding, checked explicitly.
ALIGN16_WITNESS = 's{ n bldouble }'


def align16_witness(chk, tools):
    idx = [i for i in range(len(G.PRE_ARGS)) if odd_stack_prefix(i)][0]
    t = G.parse_text(ALIGN16_WITNESS)
    bad, info = pass_failures(tools, [FILLER] * idx + [t])
    chk.count('P ' + ALIGN16_WITNESS)
    bad = [b for b in bad if b[0] == idx]
    if bad:
        chk.finding('passing:align16-odd-stack', dict(kind='passing', decl=ALIGN16_WITNESS, index=idx, prefix=list(G.PRE_ARGS[idx]),
                                                     failures=bad, info=info),
                    'a 16-byte aligned struct passed in memory after an odd number of stack words does not arrive intact: '
                    '%s after %d longs' % (ALIGN16_WITNESS, G.PRE_ARGS[idx][0]))


PASS_DIRS = 'arARvVmMn'


def pass_failures(tools, decls, modes=('-ei', '-eg')):
    res, info = tools.passing(decls, modes)
    bad = []
    for mode in modes:
        for i in range(len(decls)):
            for d in PASS_DIRS:
                if res[mode].get((i, d)) != 'ok':
                    bad.append((i, mode, d, res[mode].get((i, d), 'missing')))
    return bad, info


def passing_part(chk, tools, decls, label, modes=('-ei', '-eg')):
    # aggregates the classification comparison does not cover are not passed either
    ms = tools.model_classes(decls)
    use = []
    for t, m in zip(decls, ms):
        if 'n' in m['args'].split(';')[0].split('+')[0]:
            chk.dist('passing_excluded', 'padding-eightbyte')
        elif has_union_unnamed_bf(t):
            chk.dist('passing_excluded', 'gcc-union-unnamed-bf')
        elif has_underaligned_fullwidth_unnamed_bf(t):
            chk.dist('passing_excluded', 'gcc-fullwidth-unnamed-bf')
        else:
            use.append(t)
    # a 16-byte aligned aggregate passed in memory needs an even number of stack words before it (known
    # finding passing:align16-odd-stack): keep such aggregates away from the prefixes that leave an odd number
    placed = []
    for t, m in [(t, m) for t, m in zip(decls, ms) if t in use]:
        if m.get('align') == '16':
            while odd_stack_prefix(len(placed)):
                placed.append(FILLER)
        placed.append(t)
    use = placed
    bad, info = pass_failures(tools, use, modes)
    for t in use:
        chk.count('P ' + G.ty_text(t), nontrivial=True, n=len(PASS_DIRS) * len(modes))
    chk.dist('passing_runs', 'ok', len(PASS_DIRS) * len(modes) * len(use) - len(bad))
    chk.dist('passing_runs', 'BAD', len(bad))
    chk.log('%s: %d aggregates x %d directions x %s: %s' % (label, len(use), len(PASS_DIRS), '/'.join(modes), '%d failures' % len(bad) if bad else 'all intact'))
    seen = set()
    for i, mode, d, what in bad[:4]:
        t = use[i]
        pos = i % len(G.PRE_ARGS)

        def fails(c):
            if not G.passable(c):
                return False
            # keep the same register-exhaustion prefix: the declaration must stay at the same index modulo
            b, _ = pass_failures(tools, [('b', 'char')] * 0 + [c] * (pos + 1), (mode,))
            return any(x[0] == pos for x in b)
        small = G.shrink(t, fails, max_steps=60)
        txt = G.ty_text(small)
        if txt in seen:
            continue
        seen.add(txt)
        chk.finding('passing:%s' % txt, dict(kind='passing', decl=txt, original=G.ty_text(t), mode=mode, direction=d, what=what,
                                             prefix=list(G.PRE_ARGS[pos]), index=pos, info=info),
                    'aggregate does not arrive intact between c2m (%s) and gcc code, direction %s (a/r/v/m/n: c2m caller, A/R/V/M: gcc caller, r/R/n returned value, v/V variadic, '
                    'm/M mixed signature %s [1: = result through the hidden pointer; l i c p f d x scalars before it]; '
                    'prefix %d longs %d doubles): %s' % (mode, d, '%d:%s' % G.MIX_SIGS[pos % len(G.MIX_SIGS)], G.PRE_ARGS[pos][0], G.PRE_ARGS[pos][1], txt))
    return bad


# a padding-only eightbyte (possible only through a trailing zero-width bit-field in a nested struct):
# gcc gives it NO_CLASS (no register), c2m an INTEGER register.  classify_eq_sysv_refuted's witness.
PADDING_WITNESS = 's{ n buchar ; o s{ n bfloat ; g0 bulong } }'


def padding_witness(chk, tools):
    t = G.parse_text(PADDING_WITNESS)
    r = tools.classify([t])[0]
    chk.count('K ' + PADDING_WITNESS)
    if r['gcc_arg'] and r['c2m_args'][0] and first(blk_letters(r['c2m_args'][0])) != r['gcc_arg'].upper():
        chk.finding('classify:padding-eightbyte', dict(kind='classify', decl=PADDING_WITNESS, **r),
                    'an eightbyte of padding only gets an INTEGER register from c2m and none from gcc: ' + PADDING_WITNESS)


# GNU C: zero-length arrays and empty structs as members (c2m accepts them with a warning).  Outside C11, the
# theorems (wf_ty) and the models: c2m is compared with gcc only (fixed in /repo by 0d93d29b = fixes/C08-8.patch).
GNUEXT_WITNESS = 's{ n bint ; n a0 bchar }'
GNUEXT_CORPUS = ['s{ n bchar ; n a0 blong ; n bchar }', 's{ n bchar ; n s{ } ; n blong }', 's{ n a0 bchar ; g0 bchar ; n bbool ; f16 bushort }',
                 's{ n bchar ; n a0 bint ; f3 bint }', 'u{ n a0 blong ; n bchar }', 's{ n bshort ; n a0 s{ n bshort } ; n a4 s{ } ; n bchar }']


def gnuext_part(chk, tools, n):
    w = G.parse_text(GNUEXT_WITNESS)
    res, info = tools.layout([w])
    chk.count('Z ' + GNUEXT_WITNESS)
    if res[0]['c2m'] != res[0]['gcc']:
        chk.finding('layout-gnuext:' + GNUEXT_WITNESS, dict(kind='gnuext', decl=GNUEXT_WITNESS, c2m=res[0]['c2m'], gcc=res[0]['gcc']),
                    'c2m and gcc lay out a struct with a zero-length array member differently: %s c2m[%s] gcc[%s]' % (
                        GNUEXT_WITNESS, res[0]['c2m'], res[0]['gcc']))
        return
    rng = chk.rng('gnuext')
    g = G.Gen(rng, flex=False)
    decls = [G.parse_text(x) for x in GNUEXT_CORPUS] + [G.add_zero_size_members(rng, g.decl()) for _ in range(n)]
    res, info = tools.layout(decls)
    bad = [(t, r) for t, r in zip(decls, res) if r['c2m'] is None or r['c2m'] != r['gcc']]
    for t, r in zip(decls, res):
        chk.count('Z ' + G.ty_text(t), nontrivial=True)
    chk.dist('gnu_zero_size_members', 'compared c2m = gcc', len(decls) - len(bad))
    chk.dist('gnu_zero_size_members', 'differ', len(bad))
    chk.log('GNU zero-size members: %d declarations, %s' % (len(decls), '%d differ' % len(bad) if bad else 'c2m = gcc on all'))
    for t, r in bad[:3]:
        def fails(c):
            rr, _ = tools.layout([c])
            return rr[0]['gcc'] is not None and rr[0]['c2m'] != rr[0]['gcc']
        small = G.shrink(t, fails, max_steps=120)
        rr, _ = tools.layout([small])
        txt = G.ty_text(small)
        chk.finding('layout-gnuext:' + txt, dict(kind='gnuext', decl=txt, c2m=rr[0]['c2m'], gcc=rr[0]['gcc'], original=G.ty_text(t)),
                    'c2m and gcc lay out a declaration with zero-size members (GNU C) differently: %s  c2m[%s] gcc[%s]' % (txt, rr[0]['c2m'], rr[0]['gcc']))


# Aggregates that end a mapping (the last sizeof bytes before an inaccessible page): returned by value by a c2m callee
# (loads) and assigned from a call by a c2m caller (stores).  Before /repo 2a518cc5 (= fixes/C08-10.patch) a callee loaded
# the pieces straight from the object with accesses of up to 7 bytes beyond it (theorem ret_pieces_within is tight: 3 bytes
# as I32, 5..7 and the tail of 9..15 as 8 bytes) and was killed there.  Mandatory on every run: the three witnesses first,
# then the whole sized stream; every aggregate that does not survive is a finding with the page-end replay.
PAGEEND_WITNESSES = ['s{ n a3 bchar }', 's{ n a5 bchar }', 's{ n a9 bchar }']   # I32, I64, second eightbyte


def pageend_run(tools, decls, mode):
    src = tools.path('pageend.c')
    open(src, 'w').write(G.pageend_tu(list(enumerate(decls))))
    rc, out, err = tools.run_c2m(src, mode)
    st = {}
    for l in out.split('\n'):
        w = l.split()
        if len(w) == 3 and w[0] == 'E':
            st[int(w[1])] = w[2]
    return rc, st, err


def pageend_part(chk, tools, decls):
    seen = set()

    def report(t, mode):
        txt = G.ty_text(t)
        if txt in seen:
            return
        seen.add(txt)
        rc1, st1, _ = pageend_run(tools, [t], mode)
        chk.finding('pageend:' + txt, dict(kind='pageend', decl=txt, mode=mode, rc=rc1, state=st1.get(0, 'killed')),
                    'an aggregate that ends a mapping (last sizeof bytes before an inaccessible page) is not returned by value / assigned '
                    'from a call intact by c2m code: the process is killed or the bytes differ (%s: %s, rc %d; gcc accesses sizeof bytes): %s'
                    % (mode, st1.get(0, 'killed'), rc1, txt))

    for mode in ('-ei', '-eg'):
        for wt in PAGEEND_WITNESSES:
            t = G.parse_text(wt)
            chk.count('E ' + wt)
            rc, st, err = pageend_run(tools, [t], mode)
            chk.dist('page_end_returns', 'ok' if st.get(0) == 'ok' else 'BAD')
            if st.get(0) != 'ok':
                report(t, mode)
    for mode in ('-ei', '-eg'):
        rc, st, err = pageend_run(tools, decls, mode)
        for i, t in enumerate(decls):
            chk.count('E ' + G.ty_text(t), nontrivial=True)
        bad = [i for i in range(len(decls)) if st.get(i) != 'ok']
        chk.dist('page_end_returns', 'ok', len(decls) - len(bad))
        chk.dist('page_end_returns', 'BAD', len(bad))
        if bad:
            # the process died at the first one: everything after it did not run in this batch
            report(decls[bad[0]], mode)
    if not seen:
        chk.log('aggregates at the end of a page: %d + %d witnesses returned and assigned from a call, all intact' % (len(decls), len(PAGEEND_WITNESSES)))
    else:
        chk.log('aggregates at the end of a page: %d not intact / killed' % len(seen))


SV_BLK = {'M': 'blk0', 'I': 'blk1', 'II': 'blk1', 'S': 'blk2', 'SS': 'blk2', 'IS': 'blk3', 'SI': 'blk4'}


def sx_fails(tools, case, mode):
    run, _, _, info = tools.sigx([case], (mode,), static=False)
    return [d for d in 'sS' if run[mode].get((0, d)) != 'ok'], info


def sx_shrink(tools, case, mode):
    """smaller failing signature: drop parameters other than the first aggregate under test, then shrink the declaration"""
    res, sig, t = case
    steps = 0
    changed = True
    while changed and steps < 40:
        changed = False
        for k in range(len(sig) - 1, -1, -1):
            if sig[k] == 'A' and sig.count('A') == 1:
                continue
            cand = sig[:k] + sig[k + 1:]
            if '.' in cand and (cand.index('.') == 0 or cand[cand.index('.') - 1] in 'cbhef' or cand.endswith('.')):
                continue
            steps += 1
            if sx_fails(tools, (res, cand, t), mode)[0]:
                sig = cand
                changed = True
            if steps >= 40:
                break

    def fails(c):
        return G.passable(c) and bool(sx_fails(tools, (res, sig, c), mode)[0])
    small = G.shrink(t, fails, max_steps=30)
    return res, sig, small


def sigx_part(chk, tools, decls, label, per=1, modes=('-ei', '-eg')):
    """every aggregate inside generated whole signatures: scalars of every class (integer kinds, pointers, enums, float,
    double, long double) and helper structs before and after it, each register file exactly full / one short / one over
    when it arrives, result through the hidden pointer or not, variadic tails; run time in both directions (c2m caller ->
    gcc callee 's', gcc caller -> c2m callee 'S') and c2m -S prototypes + call sites against both Coq models
    (c2m_csignature, sv_csignature; theorems counters_eq_sysv, csignature_eq_sysv)"""
    ms = tools.model_classes(decls)
    sizes = tools.model_sizes(decls)
    rng = chk.rng('sigx-' + label)
    cases, acls = [], []
    for t, m, sz in zip(decls, ms, sizes):
        a0 = m['args'].split(';')[0].split('+')[0]
        if 'n' in a0 or has_union_unnamed_bf(t) or has_underaligned_fullwidth_unnamed_bf(t):
            chk.dist('signature_excluded', 'not compared with gcc (padding eightbyte / gcc artefacts)')
            continue
        a = G.sx_aclass(a0, sz, int(m.get('align', '8')))
        for _ in range(per):
            res, sig = G.sx_signature(rng, a)
            cases.append((res, sig, t))
            acls.append(a)
    if not cases:
        return
    run, blocks, model, info = tools.sigx(cases, modes)
    bad = []
    for c, ((res, sig, t), a) in enumerate(zip(cases, acls)):
        chk.count('X ' + G.sx_text(res, sig, t), nontrivial=True, n=2 * len(modes))
        tr = G.sx_track(res, sig, a)
        pos = sig.index('A')
        ni, nf, words = tr[pos]
        nx = sig[:pos].count('x')
        if a['ni']:
            chk.dist('signature_general_registers_free_minus_needed', str(max(-2, min(2, 6 - ni - a['ni']))))
        if a['nf']:
            chk.dist('signature_vector_registers_free_minus_needed', str(max(-2, min(2, 8 - nf - a['nf']))))
        chk.dist('signature_long_doubles_before_aggregate', str(nx))
        chk.dist('signature_shape', ('hidden-result-pointer ' if res else '') + ('variadic-tail' if '.' in sig else 'fixed') +
                 (' aggregate-in-memory' if a['mem'] else ''))
        chk.dist('signature_stack_words_before_aggregate', str(min(words, 8)))
        if nx and a['nf'] and nf + a['nf'] <= 8 < nf + nx + a['nf']:
            chk.dist('signature_boundaries', 'long double counted as SSE would push the aggregate to memory')
        if nx and a['ni'] and ni + a['ni'] <= 6 < ni + nx + a['ni']:
            chk.dist('signature_boundaries', 'long double counted as INTEGER would push the aggregate to memory')
        for ch in set(sig):
            if ch in G.SX_SCALARS:
                chk.dist('signature_scalar_kinds', G.SX_SCALARS[ch][0])
        for mode in modes:
            for d in 'sS':
                st = run[mode].get((c, d), 'missing')
                chk.dist('signature_runs', 'ok' if st == 'ok' else 'BAD')
                if st != 'ok':
                    bad.append((c, mode, d, st))
        # the static tie
        m = model[c]
        mc = [x for x in m['c2m'].split(',') if x != '-']
        sv = [x for x in m['sv'].split(',') if x != '-']
        proto, call = blocks[c]
        nnamed = sum(1 for ch in sig.split('.')[0] if ch not in G.SX_SCALARS)
        obj = dict(kind='sigstatic', res=res, sig=sig, decl=G.ty_text(t), c2m_proto=proto, c2m_call=call, model_c2m=mc, model_sysv=sv,
                   counters=m.get('ctr'), sysv_counters=m.get('svctr'))
        if proto is None or call is None:
            DEFERRED.append(('tie:signature-unreadable', obj, 'c2m -S shows no prototype / call for the generated signature ' + G.sx_text(res, sig, t)))
            chk.dist('signature_static', 'unreadable')
        elif proto != mc[:nnamed] or call != mc:
            DEFERRED.append(('tie:model-c2m-signature', obj, 'the block types c2m gives the aggregates of a whole signature (c2m -S: prototype %s, call site %s) '
                             'are not those of the Coq model c2m_csignature (%s; theorems counters_eq_sysv, csignature_eq_sysv) on: %s'
                             % (proto, call, mc, G.sx_text(res, sig, t))))
            chk.dist('signature_static', 'model-c2m')
        elif m.get('ok') == '1' and mc != [SV_BLK.get(x.upper(), '?') for x in sv]:
            DEFERRED.append(('tie:signature-models-differ', obj, 'the c2mir and SysV signature models differ on: ' + G.sx_text(res, sig, t)))
            chk.dist('signature_static', 'models-differ')
        else:
            chk.dist('signature_static', 'c2m -S = c2m_csignature = sv_csignature')
    chk.log('%s: %d signatures x 2 directions x %s: %s' % (label, len(cases), '/'.join(modes), '%d failures' % len(bad) if bad else 'all intact'))
    seen = set()
    nrep = 0
    for c, mode, d, st in bad:
        if nrep >= 3:
            break
        case = cases[c]
        ds, inf = sx_fails(tools, case, mode)
        if not ds:
            continue      # a casualty of an earlier crash in the batch
        nrep += 1
        res, sig, small = sx_shrink(tools, case, mode)
        txt = G.sx_text(res, sig, small)
        if txt in seen:
            continue
        seen.add(txt)
        ds, inf = sx_fails(tools, (res, sig, small), mode)
        chk.finding('sigpass:' + txt, dict(kind='sigpass', res=res, sig=sig, decl=G.ty_text(small), mode=mode, directions=ds,
                                          original=G.sx_text(*case), info=inf),
                    'arguments do not arrive intact between c2m (%s) and gcc code (direction %s: s = c2m caller -> gcc callee, S = gcc caller -> c2m callee) '
                    'for the signature %s [<1: result through the hidden pointer>:<parameters: c b h i u l q p e integer-class scalars, f d float/double, '
                    'x long double, A the aggregate, %s, . start of the variadic tail>]'
                    % (mode, '/'.join(ds), txt, ', '.join('%s struct %s' % (k, v[0][1:]) for k, v in sorted(G.SX_HELPERS.items()))))
    if bad and not seen:
        c, mode, d, st = bad[0]
        chk.finding('harness:sigpass-unstable', dict(kind='sigpass', res=cases[c][0], sig=cases[c][1], decl=G.ty_text(cases[c][2]), mode=mode),
                    'a signature case failed in its batch (%s) but not alone: %s' % (st, G.sx_text(*cases[c])), no_input=True)
    return bad


def libc_part(chk, tools):
    """harness/c08_libc.c under c2m (-ei, -eg) and gcc: identical output lines"""
    src = os.path.join(vlib.VERIF, 'harness', 'c08_libc.c')
    exe = os.path.join(tools.dir, 'libc.gcc')
    rc, out, err = vlib.sh(['gcc', '-w', '-O0', '-std=gnu11', src, '-o', exe], timeout=300)
    if rc != 0:
        raise vlib.BuildError('gcc failed on harness/c08_libc.c: ' + err[-500:])
    rc, ref, err = vlib.sh([exe], timeout=60)
    ref = ref.split('\n')
    for mode in ('-ei', '-eg'):
        rc, out, err = vlib.sh([tools.c2m, src, mode], timeout=300, cwd=tools.dir)
        got = out.split('\n')
        chk.count('libc ' + mode, n=len(ref))
        diffs = [(a, b) for a, b in zip(got + [''] * len(ref), ref) if a != b]
        if rc != 0 or diffs:
            a, b = diffs[0] if diffs else ('rc=%d %s' % (rc, err[-200:]), '')
            chk.finding('libc:%s' % (b.split()[0] if b.split() else 'run'), dict(kind='libc', mode=mode, c2m=a, gcc=b, rc=rc, err=err[-300:]),
                        'c2m-compiled code and gcc-compiled code disagree on libc data (%s): c2m[%s] gcc[%s]' % (mode, a, b))
    chk.log('libc structures and struct-valued libc calls: %d lines compared' % len(ref))


def sanitizer_part(chk, tools):
    """thorough: c2m built with ASan/UBSan compiles (not runs) a layout TU and a signature TU: out-of-bounds
    accesses in the layout/classification code (e.g. of qword_types[]) are findings"""
    exe = vlib.build_harness('c08_c2m', [os.path.join(vlib.REPO, 'c2mir', 'c2mir-driver.c')], variant='asan',
                             units=('mir', 'mir-gen', 'c2mir'))
    san = os.path.join(tools.dir, 'c2m-asan')
    shutil.copy(exe, san)
    env = dict(ASAN_OPTIONS='detect_leaks=0:abort_on_error=0', UBSAN_OPTIONS='print_stacktrace=1')
    decls = gen_decls(chk, 400, 'asan-layout')
    small = gen_small(chk, 400, 'asan-sig')
    for name, text in (('lay', G.layout_tu(list(enumerate(decls)))), ('sig', G.sig_tu(list(enumerate(small))))):
        src = tools.path('asan-%s.c' % name)
        open(src, 'w').write(text)
        rc, out, err = vlib.sh([san, src, '-S', '-o', src[:-2] + '.mir'], timeout=900, cwd=tools.dir, env=env)
        chk.count('asan ' + name, n=400)
        if rc != 0 or 'ERROR: AddressSanitizer' in err or 'runtime error' in err:
            chk.finding('asan:' + name, dict(kind='asan', tu=name, rc=rc, err=err[-1500:]),
                        'c2m (ASan/UBSan build) reports an error while compiling the %s probe TU: %s' % (name, err[-300:]))
    chk.log('sanitizer build: layout and signature TUs compiled')


def run(chk):
    quick = chk.tier == 'quick'
    r = chk.prove()
    tools = Tools(chk)
    try:
        chk.cov['trusted_base'] += [
            'extraction: ExtrOcamlBasic only, no Extract Constant/Inductive of our own',
            'ocaml/driver_c08.ml (parse + print), tools/gen_c08_decls.py (generator, C emission of the probes)',
            'gcc 12 as the executable witness of the psABI (layout and calling convention)',
            'harness/c08_spy.S + c08_spy.h (register spy), c2m -S text as the observable of c2mir classification',
            'modelled, not verified: c2mir parser/type checker building the type graph, member access code generation '
            '(exercised by the probes), MIR handling of BLK arguments (exercised by the passing run; property C05)',
        ]
        corpus = load_corpus()
        bad = {}
        if corpus:
            bad.update(layout_part(chk, tools, corpus, 'corpus'))
        nbatch, per = (2, 300) if quick else (24, 500)
        for b in range(nbatch):
            decls = gen_decls(chk, per, 'layout%d' % b)
            if b == 0:
                for t in decls[:4]:
                    chk.sample(G.ty_text(t)[:300])
            for k, v in layout_part(chk, tools, decls, 'layout batch %d' % b).items():
                bad.setdefault(k, []).extend(v)
        padding_witness(chk, tools)
        align16_witness(chk, tools)
        pcorpus = load_corpus('c08_pass.txt')
        if pcorpus:
            classify_part(chk, tools, pcorpus, 'passing corpus (classification)')
            passing_part(chk, tools, pcorpus, 'passing corpus')
            sigx_part(chk, tools, pcorpus, 'signatures (passing corpus)', per=1 if quick else 4)
        kb, kper = (2, 250) if quick else (20, 500)
        for b in range(kb):
            ds = gen_small(chk, kper, 'classify%d' % b)
            if b == 0:
                for t in ds[:3]:
                    chk.sample('K ' + G.ty_text(t)[:300])
            classify_part(chk, tools, ds, 'classify batch %d' % b)
        pb, pper = (1, 180) if quick else (12, 400)
        for b in range(pb):
            pds = gen_small(chk, pper, 'passing%d' % b)
            passing_part(chk, tools, pds, 'passing batch %d' % b)
            sigx_part(chk, tools, pds, 'signatures (passing batch %d)' % b, per=1 if quick else 2)
        # every size 1..17 (and a few larger ones), every class: the return path picks its access types by sizeof
        for b in range(1 if quick else 6):
            nds = G.ret_size_decls(chk.rng('retsize%d' % b), 3 if quick else 8)
            ds = [t for _, t in nds]
            for (n, t), sz in zip(nds, tools.model_sizes(ds)):
                chk.dist('sized_aggregates(sizeof)', '%02d' % sz)
                if sz != n:
                    chk.finding('harness:sized', dict(decl=G.ty_text(t), want=n, model=sz),
                                'the generator of aggregates of an exact size is wrong about ' + G.ty_text(t), no_input=True)
            classify_part(chk, tools, ds, 'sized aggregates %d (classification)' % b)
            passing_part(chk, tools, ds, 'sized aggregates %d' % b)
            sigx_part(chk, tools, ds, 'signatures (sized aggregates %d)' % b, per=1 if quick else 2)
            if b == 0:
                pageend_part(chk, tools, ds)
        libc_part(chk, tools)
        gnuext_part(chk, tools, 150 if quick else 1500)
        if not quick:
            sanitizer_part(chk, tools)
            if r['ok']:
                # independent re-check of the compiled proofs and of the axioms they rest on
                rc, out, err = vlib.sh(['timeout', '1700', 'coqchk', '-o', '-silent', '-Q', '.', 'MirV', 'MirV.Properties_C08'],
                                       cwd=vlib.COQDIR, timeout=1800)
                txt = out + err
                ok = rc == 0 and '* Axioms: <none>' in txt
                chk.cov['coqchk'] = 'coqchk -o MirV.Properties_C08: rc=%d, %s' % (rc, 'Axioms: <none>' if ok else txt[-400:])
                chk.log(chk.cov['coqchk'][:120])
                if not ok:
                    chk.finding('coqchk', dict(kind='coqchk', rc=rc, tail=txt[-1500:]),
                                'coqchk does not accept the compiled C08 proofs without axioms', no_input=True)
        chk.cov['rule'] = ('each generated declaration is compiled into one probe TU run by c2m (-ei) and by gcc; sizeof, '
                           '_Alignof, every named member offset/size and every bit-field position (found by storing all-ones '
                           'into a zeroed object) are compared with the extracted Coq models (c2mir model vs c2m, SysV model vs gcc) '
                           'and with each other; non-trivial = at least 4 AST nodes; distinct by declaration text.  Classification: '
                           'how gcc passes/returns each small aggregate is read from the registers by an assembly spy (harness/c08_spy.S), '
                           'how c2m does from the MIR signatures of c2m -S (12 register/stack prefixes, each followed by two one-register structs), both compared '
                           'with the extracted c2mir and SysV classification models.  Passing: every small aggregate is passed and '
                           'returned by value in all four caller/callee combinations of c2m code (-ei and -eg) and a gcc-compiled shared '
                           'library, after 0..9 scalar arguments (registers exhausted, stack words before it) and followed by two one-register '
                           'structs, and as a variadic argument read by va_arg in both directions, with a checksum of its non-padding bits')
        if NOT_WF:
            chk.finding('harness:not-wf', dict(decls=NOT_WF[:5]), 'generated declarations outside the quantifier of layout_eq_sysv '
                        '(wf_ty false): ' + NOT_WF[0][:200], no_input=True)
        if not chk.violations:
            for sig, obj, what in DEFERRED[:3]:
                chk.finding(sig, obj, what, no_input=True)
        if not r['ok'] and not chk.violations:
            chk.proof_broken(r, searched='all generated declarations agreed between c2m, gcc and the models')
    finally:
        tools.close()


def replay(chk, path):
    j = json.load(open(path))
    rp = j['replay']
    tools = Tools(chk)
    try:
        if rp.get('kind') == 'layout':
            t = G.parse_text(rp['decl'])
            res, info = tools.layout([t])
            r = res[0]
            print('decl :', rp['decl'])
            for k in ('c2m', 'gcc', 'mc', 'ms', 'bss', 'c2m_sign', 'gcc_sign', 'm_sign'):
                print('%-8s: %s' % (k, r[k]))
            v = verdict(r)
            print('verdict:', v)
            return 0 if v == 'ok' else 1
        if rp.get('kind') == 'classify':
            t = G.parse_text(rp['decl'])
            r = tools.classify([t])[0]
            print('decl :', rp['decl'])
            for k in sorted(r):
                print('%-8s: %s' % (k, r[k]))
            v = kverdict(t, r)
            print('verdict:', v)
            return 0 if v == 'ok' else 1
        if rp.get('kind') == 'gnuext':
            t = G.parse_text(rp['decl'])
            res, info = tools.layout([t])
            print('decl :', rp['decl'])
            print('c2m  :', res[0]['c2m'])
            print('gcc  :', res[0]['gcc'])
            return 0 if res[0]['c2m'] == res[0]['gcc'] else 1
        if rp.get('kind') == 'libc':
            before = len(chk.violations)
            libc_part(chk, tools)
            return 1 if len(chk.violations) > before else 0
        if rp.get('kind') == 'pageend':
            t = G.parse_text(rp['decl'])
            rc, st, err = pageend_run(tools, [t], rp.get('mode', '-ei'))
            print('decl :', rp['decl'], ' mode', rp.get('mode'), ' rc', rc, ' state', st.get(0, 'killed'))
            return 0 if st.get(0) == 'ok' else 1
        if rp.get('kind') in ('sigpass', 'sigstatic'):
            t = G.parse_text(rp['decl'])
            case = (rp['res'], rp['sig'], t)
            run, blocks, model, info = tools.sigx([case])
            print('signature:', G.sx_text(*case))
            print('run      :', {m: sorted(r.items()) for m, r in run.items()}, info)
            print('c2m -S   : prototype', blocks[0][0], ' call site', blocks[0][1])
            print('models   :', model[0])
            mc = [x for x in model[0]['c2m'].split(',') if x != '-']
            okrun = all(run[m].get((0, d)) == 'ok' for m in run for d in 'sS')
            return 0 if okrun and blocks[0][1] == mc else 1
        if rp.get('kind') == 'passing':
            t = G.parse_text(rp['decl'])
            pos = rp.get('index', 0)
            b, info = pass_failures(tools, [t] * (pos + 1))
            b = [x for x in b if x[0] == pos]
            print('decl :', rp['decl'], ' prefix', rp.get('prefix'))
            print('failures (index, mode, direction, what):', b or 'none')
            return 1 if b else 0
        print('nothing to replay in', path)
        return 1
    finally:
        tools.close()

# C08: c2mir lays out and passes C data as the x86-64 SysV ABI does.
# Coq: coq/C08/{CLayout,SysVLayout,LayoutProofs,...}.v, theorems in coq/Properties_C08.v.
# Tie: three-way correspondence  model(c2mir) == c2m-compiled TU   and   model(SysV) == gcc-compiled TU
# on seeded generated declarations (tools/gen_c08_decls.py); by-value passing between c2m and gcc code.
import os, sys, json, shutil, tempfile, re
import vlib
import gen_c08_decls as G

LEVEL = 'proof'
WORK = os.path.join(vlib.BUILD, 'c08')


class Tools:
    def __init__(self, chk):
        os.makedirs(WORK, exist_ok=True)
        self.dir = tempfile.mkdtemp(prefix='run-', dir=WORK)
        exe = vlib.build_harness('c08_c2m', [os.path.join(vlib.REPO, 'c2mir', 'c2mir-driver.c')],
                                 units=('mir', 'mir-gen', 'c2mir'))
        # the shared build cache may be pruned by concurrent checks: keep a private copy for this run
        self.c2m = os.path.join(self.dir, 'c2m')
        shutil.copy(exe, self.c2m)
        mod = vlib.ocaml_build('c08', 'Extract_C08', ['c08x'], 'driver_c08.ml')
        self.model = os.path.join(self.dir, 'model')
        shutil.copy(mod, self.model)
        self.n = 0

    def close(self):
        shutil.rmtree(self.dir, ignore_errors=True)

    def path(self, name):
        self.n += 1
        return os.path.join(self.dir, '%d-%s' % (self.n, name))

    # --- layout probes
    def run_c2m(self, src, mode='-ei', timeout=300):
        return vlib.sh([self.c2m, src, mode], timeout=timeout, cwd=self.dir)

    def run_gcc(self, src, timeout=300):
        exe = src[:-2] + '.gcc'
        rc, out, err = vlib.sh(['gcc', '-w', '-O0', '-std=gnu11', src, '-o', exe], timeout=timeout)
        if rc != 0:
            return rc, out, 'gcc failed: ' + err
        return vlib.sh([exe], timeout=timeout)

    def layout(self, decls):
        """decls: list of types.  Returns per decl dict(c2m=..., gcc=..., mc=..., ms=...) of canonical strings
        (None when the compiler produced no line for it)."""
        src = self.path('lay.c')
        open(src, 'w').write(G.layout_tu(list(enumerate(decls))))
        rc1, o1, e1 = self.run_c2m(src)
        rc2, o2, e2 = self.run_gcc(src)
        a = {l.split()[1]: ' '.join(l.split()[2:]) for l in o1.split('\n') if l.startswith('L ')}
        b = {l.split()[1]: ' '.join(l.split()[2:]) for l in o2.split('\n') if l.startswith('L ')}
        # storage c2m allocates for a global object of each type (MIR text: `gobj<i>: bss <n>`)
        mir = src[:-2] + '.mir'
        vlib.sh([self.c2m, src, '-S', '-o', mir], timeout=300, cwd=self.dir)
        bss = {}
        if os.path.exists(mir):
            for m in re.finditer(r'^gobj(\d+):\s+bss\s+(\d+)', open(mir, errors='replace').read(), re.M):
                bss[m.group(1)] = int(m.group(2))
        rcm, om, em = vlib.run_lines(self.model, [G.ty_text(t) for t in decls])
        if rcm != 0 or len(om) != len(decls):
            raise vlib.BuildError('model driver failed: rc=%d %s' % (rcm, em[-500:]))
        res = []
        for i, t in enumerate(decls):
            mc, ms = [' '.join(x.split()[1:]) for x in om[i].split('|')]
            res.append(dict(c2m=a.get(str(i)), gcc=b.get(str(i)), mc=mc, ms=ms, bss=bss.get(str(i))))
        info = dict(c2m_rc=rc1, c2m_err=e1[-400:], gcc_rc=rc2, gcc_err=e2[-400:])
        return res, info


def verdict(r):
    """classify one declaration's four observations"""
    if r['gcc'] is None:
        return 'gcc-rejects'
    if r['c2m'] is None:
        return 'c2m-fails'
    if r['c2m'] != r['gcc']:
        return 'abi-mismatch'
    if r['c2m'] != r['mc']:
        return 'model-c2m'
    if r['gcc'] != r['ms']:
        return 'model-sysv'
    if r.get('bss') is None or r['bss'] < int(r['c2m'].split()[0]):
        return 'bss-short'
    return 'ok'


def gen_decls(chk, n, salt):
    rng = chk.rng(salt)
    g = G.Gen(rng)
    out = []
    for i in range(n):
        out.append(g.decl() if rng.random() < 0.8 else G.small_decl(rng))
    return out


def load_corpus():
    p = os.path.join(vlib.VERIF, 'corpus', 'c08_decls.txt')
    out = []
    if os.path.exists(p):
        for l in open(p):
            l = l.strip()
            if l and not l.startswith('#'):
                out.append(G.parse_text(l))
    return out


def shrink_decl(tools, t, want):
    def fails(c):
        r, _ = tools.layout([c])
        return verdict(r[0]) == want
    return G.shrink(t, fails, max_steps=250)


def layout_part(chk, tools, decls, label):
    res, info = tools.layout(decls)
    bad = {}
    for t, r in zip(decls, res):
        v = verdict(r)
        fs = G.features(t)
        chk.count(G.ty_text(t), nontrivial=G.size_of(t) >= 4)
        chk.dist('layout_verdicts', v)
        for f in sorted(fs):
            chk.dist('decl_features', f)
        chk.dist('decl_nodes', min(60, G.size_of(t) // 10 * 10))
        if v != 'ok':
            bad.setdefault(v, []).append((t, r))
    chk.log('%s: %d declarations, verdicts %s' % (label, len(decls), {k: len(v) for k, v in bad.items()} or 'all ok'))
    seen = set()
    real = 0
    for v in ('abi-mismatch', 'c2m-fails', 'gcc-rejects', 'bss-short', 'model-c2m', 'model-sysv'):
        for t, r in bad.get(v, [])[:6]:
            if v in ('gcc-rejects',):
                # generator produced something gcc does not accept: a harness problem, never silent
                chk.finding('harness:gcc-rejects', dict(decl=G.ty_text(t), info=info),
                            'generated declaration rejected by gcc (harness defect): ' + G.ty_text(t)[:200], no_input=True)
                break
            small = shrink_decl(tools, t, v)
            txt = G.ty_text(small)
            if txt in seen:
                continue
            seen.add(txt)
            rr, inf = tools.layout([small])
            obj = dict(kind='layout', decl=txt, c2m=rr[0]['c2m'], gcc=rr[0]['gcc'], model_c2m=rr[0]['mc'],
                       model_sysv=rr[0]['ms'], original=G.ty_text(t), c2m_err=inf['c2m_err'])
            if v == 'abi-mismatch':
                real += 1
                chk.finding('layout:' + txt, obj, 'c2m and gcc lay out differently: %s  c2m[%s] gcc[%s]' % (txt, rr[0]['c2m'], rr[0]['gcc']))
            elif v == 'bss-short':
                real += 1
                obj['bss'] = rr[0]['bss']
                chk.finding('bss-short:' + txt, obj, 'c2m allocates %s bytes for a global object whose sizeof is %s: %s' % (
                    rr[0]['bss'], rr[0]['c2m'].split()[0], txt))
            elif v == 'c2m-fails':
                real += 1
                chk.finding('c2m-fails:' + txt, obj, 'c2m fails on a declaration gcc accepts: %s (%s)' % (txt, inf['c2m_err'][-200:]))
            elif v == 'model-c2m' and not real:
                chk.finding('tie:model-c2m', obj, 'c2m agrees with gcc but no longer with its Coq model (tie broken) on: ' + txt, no_input=True)
            elif v == 'model-sysv' and not real:
                chk.finding('tie:model-sysv', obj, 'gcc no longer agrees with the SysV model on: ' + txt, no_input=True)
    return bad


def run(chk):
    quick = chk.tier == 'quick'
    r = chk.prove()
    tools = Tools(chk)
    try:
        chk.cov['trusted_base'] += [
            'extraction: ExtrOcamlBasic only, no Extract Constant/Inductive of our own',
            'ocaml/driver_c08.ml (parse + print), tools/gen_c08_decls.py (generator, C emission of the probes)',
            'gcc 12 as the executable witness of the psABI (layout and calling convention)',
        ]
        corpus = load_corpus()
        bad = {}
        if corpus:
            bad.update(layout_part(chk, tools, corpus, 'corpus'))
        nbatch, per = (2, 300) if quick else (24, 500)
        for b in range(nbatch):
            decls = gen_decls(chk, per, 'layout%d' % b)
            if b == 0:
                for t in decls[:4]:
                    chk.sample(G.ty_text(t)[:300])
            for k, v in layout_part(chk, tools, decls, 'layout batch %d' % b).items():
                bad.setdefault(k, []).extend(v)
        chk.cov['rule'] = ('each generated declaration is compiled into one probe TU run by c2m (-ei) and by gcc; sizeof, '
                           '_Alignof, every named member offset/size and every bit-field position (found by storing all-ones '
                           'into a zeroed object) are compared with the extracted Coq models (c2mir model vs c2m, SysV model vs gcc) '
                           'and with each other; non-trivial = at least 4 AST nodes; distinct by declaration text')
        if not r['ok'] and not chk.violations:
            chk.proof_broken(r, searched='all generated declarations agreed between c2m, gcc and the models')
    finally:
        tools.close()


def replay(chk, path):
    j = json.load(open(path))
    rp = j['replay']
    tools = Tools(chk)
    try:
        if rp.get('kind') == 'layout':
            t = G.parse_text(rp['decl'])
            res, info = tools.layout([t])
            r = res[0]
            print('decl :', rp['decl'])
            for k in ('c2m', 'gcc', 'mc', 'ms', 'bss'):
                print('%-5s: %s' % (k, r[k]))
            v = verdict(r)
            print('verdict:', v)
            return 0 if v == 'ok' else 1
        print('nothing to replay in', path)
        return 1
    finally:
        tools.close()

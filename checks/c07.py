# C07 (partial): C programs compiled by c2mir behave as under gcc.  Theorems: coq/Properties_C07.v
# (conversions, constant typing, compile-time = run-time evaluation).  Tie / differential testing:
#   A1 result types of every operator on every pair of arithmetic types and of integer constants
#      (_Generic probes): c2m vs gcc vs the extracted CConv / C11Conv models;
#   A2 typed operator applications on boundary values, evaluated in constant contexts (static
#      initialiser, array size, enum) and at run time under every engine, vs gcc vs CFold / C11Fold;
#   B  seeded UB-free programs (tools/gen_c07_prog.py): stdout + exit status, every engine vs gcc;
#   F  bit-field stores/loads (tools/gen_c07_bf.py): assignment value, value read back and the bytes of the
#      whole object under every engine vs gcc vs the extracted BitField model, and the MIR text of the
#      emitted access sequence (`c2m -S`) vs the model's store_code / load_code;
#   X  calls across the compiler boundary with aggregates passed / returned by value (tools/gen_c07_abi.py):
#      c2m code calling a gcc-built shared library, gcc code calling back into c2m code, variadic calls, and
#      c2m-to-c2m calls, for a systematic family of SysV classification boundary shapes + seeded shapes;
#   C  (thorough) the deterministic programs of /repo/c-tests/{lacc,andrewchambers_c,new} vs gcc.
import os, sys, re, json, shutil, tempfile, hashlib
import vlib
sys.path.insert(0, os.path.join(vlib.VERIF, 'tools'))
import gen_c07_cases as G
import tr_c07_limits

LEVEL = 'proof'
# options must precede -e?: everything after it is passed to the program
ENGINES = [('-ei',), ('-O0', '-eg'), ('-O1', '-eg'), ('-O2', '-eg'), ('-O3', '-eg'), ('-el',), ('-eb',)]


def ename(e):
    return ''.join(e)


class Scratch:
    def __enter__(self):
        self.d = tempfile.mkdtemp(prefix='c07-', dir='/var/tmp')
        return self.d

    def __exit__(self, *a):
        shutil.rmtree(self.d, ignore_errors=True)


def tools(d):
    c2m = vlib.build_harness('c2m', [os.path.join(vlib.REPO, 'c2mir', 'c2mir-driver.c')],
                             units=('mir', 'mir-gen', 'c2mir'))
    # the shared build cache may be pruned by concurrent checks: work on a private copy
    mine = os.path.join(d, 'c2m')
    shutil.copy(c2m, mine)
    model = vlib.ocaml_build('c07', 'Extract_C07', ['c07x'], 'driver_c07.ml')
    return mine, model


def ask(model, queries):
    rc, out, err = vlib.run_lines(model, queries, timeout=900)
    if rc != 0 or len(out) != len(queries):
        raise vlib.BuildError('driver_c07 failed: rc=%d %s' % (rc, err[-400:]))
    res = []
    for l in out:
        m = re.match(r'c2m (.*) c11 (.*)$', l)
        res.append((m.group(1).strip(), m.group(2).strip()))
    return res


def run_c2m(c2m, src, engine, d, timeout=300):
    rc, out, err = vlib.sh([c2m, '-w', src] + list(engine), timeout=timeout, cwd=d)
    return rc, out, err


def run_gcc(src, d, tag, timeout=300, opt='-O1'):
    exe = os.path.join(d, tag + '.gcc')
    rc, out, err = vlib.sh(['gcc', '-w', '-std=gnu11', opt, src, '-o', exe, '-lm'], timeout=timeout, cwd=d)
    if rc != 0:
        return 1000 + rc, '', err
    return vlib.sh([exe], timeout=timeout, cwd=d)


# ------------------------------------------------------------------ A1: result types
def part_types(chk, c2m, model, d):
    lits = G.literal_cases()
    mres = ask(model, ['lit %s %s %s' % (r, sfx, G.hexs(v)) for r, sfx, v, _ in lits])
    keep = [(l, m) for l, m in zip(lits, mres) if m[1] != 'none']
    chk.dist('A1_literals', 'typed', len(keep))
    chk.dist('A1_literals', 'no C11 type (skipped)', len(lits) - len(keep))
    src_text, names = G.type_probe_unit([l[3] for l, _ in keep])
    src = os.path.join(d, 'types.c')
    open(src, 'w').write(src_text)
    rc1, o1, e1 = run_c2m(c2m, src, ('-ei',), d)
    rc2, o2, e2 = run_gcc(src, d, 'types')
    if rc2 != 0:
        raise vlib.BuildError('gcc failed on the type probe unit: %s' % e2[-500:])

    def table(out):
        t = {}
        for l in out.split('\n'):
            w = l.split()
            if len(w) >= 2:
                t[' '.join(w[:-1])] = int(w[-1])
        return t
    t1, t2 = table(o1), table(o2)
    # model expectations
    qs, keys = [], []
    n = len(G.TYPES)
    fixed = {}
    for name in names:
        w = name.split()
        if G.fixed_expect(name) is not None:
            fixed[name] = G.fixed_expect(name)
            continue
        if w[0] in ('conv', 'mul', 'cond', 'and'):
            qs.append('conv %s %s' % (G.TYPES[int(w[1])], G.TYPES[int(w[2])]))
        elif w[0] == 'shift':
            qs.append('prom %s' % G.TYPES[int(w[1])])
        elif w[0] == 'cmp':
            qs.append('prom int')
        elif w[0] == 'un':
            i = int(w[2])
            qs.append('prom int' if w[1] == '!' else ('conv %s %s' % (G.TYPES[i], G.TYPES[i]) if i >= 12 else 'prom %s' % G.TYPES[i]))
        else:
            l = keep[int(w[1])][0]
            qs.append('lit %s %s %s' % (l[0], l[1], G.hexs(l[2])))
        keys.append(name)
    mexp = ask(model, qs)
    bad = []
    for name, (mc2m, mc11) in zip(keys, mexp):
        chk.count('A1:' + name, nontrivial=True)
        chk.dist('A1_probe', name.split()[0])
        exp = G.ORD[mc11]
        g = t2.get(name)
        if g != exp:
            raise vlib.BuildError('C11Conv specification disagrees with gcc on type probe %s: gcc %s, C11 model %s' % (name, g, mc11))
        c = t1.get(name)
        if c != g or G.ORD[mc2m] != exp:
            bad.append((name, c, g, mc2m, mc11))
    for name, exp in fixed.items():
        chk.count('A1:' + name, nontrivial=True)
        chk.dist('A1_probe', name.split()[0])
        if t2.get(name) != exp:
            raise vlib.BuildError('C11 expectation disagrees with gcc on type probe %s: gcc %s, expected %s' % (name, t2.get(name), exp))
        if t1.get(name) != exp:
            bad.append((name, t1.get(name), exp, '-', G.TYPES[exp] if name.split()[0] != 'chrsize' else 'sizeof 4'))
    if rc1 != 0 and not bad:
        bad.append(('types.c', 'c2m rc=%d %s' % (rc1, (e1 + o1)[-300:]), 'gcc ok', '', ''))
    for name, c, g, mc2m, mc11 in bad[:5]:
        w = name.split()
        desc = describe_type_probe(w, keep)
        chk.finding('type:' + desc, dict(kind='type', probe=name, expr=desc, c2m=c, gcc=g, model_c2m=mc2m, model_c11=mc11),
                    'result type of %s: c2m type id %s, gcc/C11 %s (%s)' % (desc, c, g, mc11))
    # pinned implementation-defined choices: noticed, never an alarm
    psrc = os.path.join(d, 'pins.c')
    open(psrc, 'w').write(G.PIN_UNIT)
    pc, pg = table(run_c2m(c2m, psrc, ('-ei',), d)[1]), table(run_gcc(psrc, d, 'pins')[1])
    for name, (ec, eg) in sorted(G.PIN_EXPECT.items()):
        same = pc.get(name) == ec and pg.get(name) == eg
        chk.dist('A1_pinned_implementation_defined', 'as documented' if same else 'CHANGED')
        if not same:
            chk.notes.append('pinned implementation-defined choice %s changed: c2m %s (documented %s), gcc %s (documented %s); '
                             'update design/C07.md' % (name, pc.get(name), ec, pg.get(name), eg))
    chk.sample('type probes: ' + ', '.join(describe_type_probe(n.split(), keep) for n in (names[0], names[200], names[-1])))
    return len(names), bad


def describe_type_probe(w, keep):
    T = G.TYPES
    if w[0] in ('glv', 'gcast', 'gclv'):
        return '_Generic selection for %s %s' % ({'glv': 'an lvalue of type', 'gcast': 'a cast to', 'gclv': 'a const lvalue of type'}[w[0]],
                                                G.CNAME[T[int(w[1])]])
    if w[0] == 'chr':
        return 'character constant %s' % G.CHAR_CONSTS[int(w[1])][0]
    if w[0] == 'chrsize':
        return "sizeof ('a')"
    if w[0] == 'bfp':
        t, wd = G.BF_PROM[int(w[1])]
        return 'promotion of a bit-field `%s:%d` by %s' % (G.CNAME[t], wd, w[2])
    if w[0] == 'types.c':
        return 'types.c'
    if w[0] == 'lit':
        return 'constant ' + keep[int(w[1])][0][3]
    if w[0] == 'un':
        return '%s(%s)' % (w[1], G.CNAME[T[int(w[2])]])
    op = {'conv': '+', 'mul': '*', 'cond': '?:', 'shift': '<<', 'cmp': '<', 'and': '&'}[w[0]]
    return '(%s) %s (%s)' % (G.CNAME[T[int(w[1])]], op, G.CNAME[T[int(w[2])]])


# ------------------------------------------------------------------ A2: values
def parse_model_val(s):
    w = s.split()
    if w[0] in ('err', 'undef'):
        return None
    return (w[0], int(w[1], 16))


def run_value_batch(c2m, cases, expected, d, tag, engines=ENGINES):
    """returns {engine_name: {k: tuple of 5 ints}} incl. 'gcc', plus raw failure notes"""
    src = os.path.join(d, tag + '.c')
    open(src, 'w').write(G.value_unit(cases, expected))
    res, notes = {}, {}

    def table(out):
        t = {}
        for l in out.split('\n'):
            w = l.split()
            if len(w) == 6:
                try:
                    t[int(w[0])] = (int(w[1], 16), int(w[2]), int(w[3]), int(w[4], 16), int(w[5], 16))
                except ValueError:
                    pass
        return t
    rc, out, err = run_gcc(src, d, tag)
    res['gcc'] = table(out)
    if rc != 0:
        notes['gcc'] = 'rc=%d %s' % (rc, err[-300:])
    for e in engines:
        rc, out, err = run_c2m(c2m, src, e, d)
        res[ename(e)] = table(out)
        if rc != 0:
            notes[ename(e)] = 'rc=%d %s' % (rc, (err + out[-200:])[-400:])
    return res, notes


def value_disagreements(cases, expected, res, notes, engines):
    """list of (case index, engine, what, got, want)"""
    bad = []
    cols = ['static initialiser', 'array-size context', 'enum context', 'run time (global operands)',
            'run time (volatile locals)']
    for k, c in enumerate(cases):
        et, ev = expected[k]
        want = (G.as_u64(ev), 1, 1, G.as_u64(ev), G.as_u64(ev))
        g = res['gcc'].get(k)
        if g != want:
            raise vlib.BuildError('C11Fold specification disagrees with gcc on %s: gcc %s, model %s (%s)'
                                  % (G.const_expr(c), g, want, notes.get('gcc', '')))
        for e in engines:
            got = res[ename(e)].get(k)
            if got != want:
                if got is None:
                    bad.append((k, ename(e), 'no output (%s)' % notes.get(ename(e), 'missing line'), None, want))
                else:
                    i = [j for j in range(5) if got[j] != want[j]][0]
                    bad.append((k, ename(e), cols[i], got[i], want[i]))
    return bad


def part_values(chk, c2m, model, d, quick):
    rng = chk.rng('values')
    ncand = 2600 if quick else 30000
    cands = []
    cp = os.path.join(vlib.VERIF, 'corpus', 'c07_values.txt')
    if os.path.exists(cp):
        for l in open(cp):
            l = l.strip()
            if l and not l.startswith('#'):
                cands.append(tuple(json.loads(l)))
    cands += G.gen_value_cases(rng, ncand)
    if not quick:
        allb = list(G.all_boundary_bin_cases())
        rng.shuffle(allb)
        cands += allb[:60000]
    cands = list(dict.fromkeys(cands))
    mres = ask(model, [G.query(c) for c in cands])
    cases, expected, model_c2m = [], [], []
    nund = 0
    for c, (mc2m, mc11) in zip(cands, mres):
        v11 = parse_model_val(mc11)
        if v11 is None:
            nund += 1
            continue
        cases.append(c)
        expected.append(v11)
        model_c2m.append(parse_model_val(mc2m))
    chk.dist('A2_candidates', 'defined', len(cases))
    chk.dist('A2_candidates', 'undefined behaviour (skipped)', nund)
    limit = 1500 if quick else 40000
    cases, expected, model_c2m = cases[:limit], expected[:limit], model_c2m[:limit]
    model_breaks = [c for c, e, m in zip(cases, expected, model_c2m) if m != e]
    findings = []
    B = 250
    for off in range(0, len(cases), B):
        cs, ex = cases[off:off + B], expected[off:off + B]
        res, notes = run_value_batch(c2m, cs, ex, d, 'val%d' % off)
        for k, c in enumerate(cs):
            chk.count('A2:' + repr(c), nontrivial=True, n=5 * (len(ENGINES) + 1))
            chk.dist('A2_kind', c[0] + (':' + c[1] if c[0] in ('bin', 'un') else ''))
            chk.dist('A2_result_type', ex[k][0])
        bad = value_disagreements(cs, ex, res, notes, ENGINES)
        if bad and any(b[3] is None for b in bad) and len(cs) > 1:
            # a whole engine run failed (compile error / crash): bisect to single cases
            bad = bisect_values(c2m, cs, ex, d, bad)
        for k, e, what, got, want in bad:
            findings.append((cs[k], ex[k], e, what, got, want))
    for c in cases[:3]:
        chk.sample('value probe: ' + G.const_expr(c))
    seen = set()
    for c, ex, e, what, got, want in findings:
        sig = 'value:%s:%s' % (G.const_expr(c), what)
        if sig in seen or len(seen) >= 6:
            continue
        seen.add(sig)
        engines = sorted(set(f[2] for f in findings if f[0] == c and f[3] == what))
        chk.finding(sig, dict(kind='value', case=list(c), expr=G.const_expr(c), expected=[ex[0], ex[1]], context=what,
                              engines=engines, got=got, want=want),
                    '%s in %s under c2m %s: got %s, gcc/C11 %s' % (G.const_expr(c), what, ','.join(engines),
                                                                  hex(got) if isinstance(got, int) else got, hex(want[0]) if isinstance(want, tuple) else hex(want)))
    return len(cases), findings, model_breaks


def bisect_values(c2m, cs, ex, d, bad0, run=None, dis=None):
    """some engine produced no output for the batch: rerun failing engines on halves down to single cases"""
    run, dis = run or run_value_batch, dis or value_disagreements
    engines = sorted(set(b[1] for b in bad0 if b[3] is None))
    eng = [e for e in ENGINES if ename(e) in engines]
    out = [b for b in bad0 if b[3] is not None]
    work = [list(range(len(cs)))]
    steps = 0
    while work and steps < 40:
        idx = work.pop()
        steps += 1
        sub, subex = [cs[i] for i in idx], [ex[i] for i in idx]
        res, notes = run(c2m, sub, subex, d, 'bis', engines=eng)
        bad = dis(sub, subex, res, notes, eng)
        failed = [b for b in bad if b[3] is None]
        out += [(idx[k], e, w, g, wt) for k, e, w, g, wt in bad if g is not None]
        if failed:
            if len(idx) == 1:
                out.append((idx[0], failed[0][1], failed[0][2], None, failed[0][4]))
            else:
                h = len(idx) // 2
                work += [idx[:h], idx[h:]]
    return out


# ------------------------------------------------------------------ A3: floating and mixed integer/floating values
FCOLS = ['static initialiser', '== probe in a static initialiser', 'integer-constant-expression probe (enum, array size)',
         'automatic object initialised by the constant expression', 'run time (global operands)', 'run time (volatile locals)']


def run_fvalue_batch(c2m, cases, expected, d, tag, engines=ENGINES):
    src = os.path.join(d, tag + '.c')
    open(src, 'w').write(G.fvalue_unit(cases, expected))
    res, notes = {}, {}

    def table(out):
        t = {}
        for l in out.split('\n'):
            w = l.split()
            if len(w) == 7:
                try:
                    t[int(w[0])] = (int(w[1], 16), int(w[2]), int(w[3]), int(w[4], 16), int(w[5], 16), int(w[6], 16))
                except ValueError:
                    pass
        return t
    rc, out, err = run_gcc(src, d, tag)
    res['gcc'] = table(out)
    if rc != 0:
        notes['gcc'] = 'rc=%d %s' % (rc, err[-300:])
    for e in engines:
        rc, out, err = run_c2m(c2m, src, e, d)
        res[ename(e)] = table(out)
        if rc != 0:
            notes[ename(e)] = 'rc=%d %s' % (rc, (err + out[-200:])[-400:])
    return res, notes


def fvalue_disagreements(cases, expected, res, notes, engines):
    bad = []
    for k, c in enumerate(cases):
        et, ev = expected[k]
        if not G.is_fp(et):
            ev = G.as_u64(ev)
        want = (ev, 1, 1, ev, ev, ev)

        def canon(g):
            return None if g is None else tuple(G.canon_bits(et, x) if i in (0, 3, 4, 5) else x for i, x in enumerate(g))
        g = canon(res['gcc'].get(k))
        if g != want:
            raise vlib.BuildError('FFold C11 specification disagrees with gcc on %s: gcc %s, model %s (%s)'
                                  % (G.fconst_expr(c), g, want, notes.get('gcc', '')))
        for e in engines:
            got = canon(res[ename(e)].get(k))
            if got != want:
                if got is None:
                    bad.append((k, ename(e), 'no output (%s)' % notes.get(ename(e), 'missing line'), None, want))
                else:
                    i = [j for j in range(6) if got[j] != want[j]][0]
                    bad.append((k, ename(e), FCOLS[i], got[i], want[i]))
    return bad


def part_fvalues(chk, c2m, model, d, quick):
    rng = chk.rng('fvalues')
    cands = []
    cp = os.path.join(vlib.VERIF, 'corpus', 'c07_fvalues.txt')
    if os.path.exists(cp):
        for l in open(cp):
            l = l.strip()
            if l and not l.startswith('#'):
                cands.append(tuple(json.loads(l)))
    cands += G.gen_fvalue_cases(rng, 900 if quick else 12000)
    cands = list(dict.fromkeys(cands))
    mres = ask(model, [G.fquery(c) for c in cands])
    old = ask(model, ['old ' + G.fquery(c) for c in cands])
    cases, expected, model_breaks = [], [], []
    nund = 0
    for c, (mc2m, mc11), (oc2m, _) in zip(cands, mres, old):
        v11 = G.parse_fmodel(mc11)
        if v11 is None:
            nund += 1
            continue
        cases.append(c)
        expected.append(v11)
        if G.parse_fmodel(mc2m) != v11:
            model_breaks.append(c)
        if G.parse_fmodel(oc2m) != v11:
            chk.dist('A3_sensitive', 'result differs when + - * / are computed in long double first (fixes/C07-16)')
    chk.dist('A3_candidates', 'defined', len(cases))
    chk.dist('A3_candidates', 'undefined behaviour (skipped)', nund)
    limit = 600 if quick else 9000
    cases, expected = cases[:limit], expected[:limit]
    findings = []
    B = 200
    for off in range(0, len(cases), B):
        cs, ex = cases[off:off + B], expected[off:off + B]
        res, notes = run_fvalue_batch(c2m, cs, ex, d, 'fval%d' % off)
        for k, c in enumerate(cs):
            chk.count('A3:' + repr(c), nontrivial=True, n=6 * (len(ENGINES) + 1))
            chk.dist('A3_kind', c[0] + (':' + c[1] if c[0] in ('fbin', 'fun') else ''))
            chk.dist('A3_result_type', ex[k][0])
            ts = [t for t in c[1:] if t in G.ORD]
            chk.dist('A3_operand_types', 'mixed integer/floating' if any(G.is_fp(t) for t in ts) and not all(G.is_fp(t) for t in ts) else 'all floating')
        bad = fvalue_disagreements(cs, ex, res, notes, ENGINES)
        if bad and any(b[3] is None for b in bad) and len(cs) > 1:
            bad = bisect_values(c2m, cs, ex, d, bad, run=run_fvalue_batch, dis=fvalue_disagreements)
        for k, e, what, got, want in bad:
            findings.append((cs[k], ex[k], e, what, got, want))
    for c in cases[:3]:
        chk.sample('floating/mixed value probe: ' + G.fconst_expr(c))
    seen = set()
    for c, ex, e, what, got, want in findings:
        sig = 'fvalue:%s:%s' % (G.fconst_expr(c), what)
        if sig in seen or len(seen) >= 6:
            continue
        seen.add(sig)
        engines = sorted(set(f[2] for f in findings if f[0] == c and f[3] == what))
        hx = lambda v: hex(v) if isinstance(v, int) else str(v)
        chk.finding(sig, dict(kind='fvalue', case=list(c), expr=G.fconst_expr(c), expected=[ex[0], ex[1]], context=what,
                              engines=engines, got=hx(got), want=hx(want if not isinstance(want, tuple) else want[0])),
                    '%s (result type %s) in %s under c2m %s: got %s, gcc/C11 %s (object bytes / probe value)'
                    % (G.fconst_expr(c), G.CNAME[ex[0]], what, ','.join(engines), hx(got), hx(want if not isinstance(want, tuple) else want[0])))
    return len(cases), findings, model_breaks


# ------------------------------------------------------------------ F: bit-field access
def bf_query(c, lay, before, v):
    import gen_c07_bf as F
    cs, ubits, mt, sg, isb = F.TYPES[c['type']]
    size, A, w, mask = lay
    o = A % ubits
    uoff = (A // ubits) * (ubits // 8)
    M = int.from_bytes(bytes(before), 'little')
    u = (M >> (8 * uoff)) & ((1 << ubits) - 1)
    q = 'bf %x %d %x %x %d %d %x %x' % (ubits, 1 if mt[0] == 'i' else 0, o, w, 1 if sg else 0, 1 if isb else 0, u, v % (1 << 64))
    return q, (ubits, o, uoff, M)


def part_bitfields(chk, c2m, model, d, quick):
    """returns (number of stores compared, findings, tie notes)"""
    import gen_c07_bf as F
    rng = chk.rng('bitfields')
    ncase = 60 if quick else 600
    cases = [F.gen_case(rng) for _ in range(ncase)]
    findings, tie, ifindings = [], [], []
    avoid_mixed = any(k == KNOWN_SHAPES['mixed-unit-bitfields'] for k, _ in chk.known)
    nst = 0
    B = 60
    for off in range(0, len(cases), B):
        cs = cases[off:off + B]
        src = os.path.join(d, 'bf%d.c' % off)
        open(src, 'w').write(F.probe_unit(cs))
        rc, out, err = run_gcc(src, d, 'bf%d' % off)
        if rc != 0:
            raise vlib.BuildError('gcc failed on the bit-field probe unit: %s' % err[-400:])
        N, V = F.parse_out(out)
        # model expectations from the reference layout
        lays, qs, meta = {}, [], []
        for k, c in enumerate(cs):
            lay = F.layout(c, k, N)
            ubits = F.TYPES[c['type']][1]
            if lay is None or (lay[1] % ubits) + lay[2] > ubits:
                chk.dist('F_cases', 'skipped (field not measurable / not inside one unit under gcc)')
                continue
            lays[k] = lay
            for j, v in enumerate(c['vals']):
                before = F.fill_bytes(c['fills'][j], c['seeds'][j], lay[0])
                q, aux = bf_query(c, lay, before, v)
                qs.append(q)
                meta.append((k, j, aux))
        rcm, mout, merr = vlib.run_lines(model, qs, timeout=300)
        if rcm != 0 or len(mout) != len(qs):
            raise vlib.BuildError('driver_c07 failed on bf queries: rc=%d %s' % (rcm, merr[-300:]))
        exp = {}
        for (k, j, (ubits, o, uoff, M)), l in zip(meta, mout):
            w = l.split()
            if w[:2] == ['bf', 'illformed']:
                continue
            nu, av, rb, cv = (int(x, 16) for x in w[1:5])
            if av != cv or rb != cv:
                tie.append('BitField model: assignment value / read back differ from c11_conv_bf on %s' % qs[0])
            M2 = (M & ~(((1 << ubits) - 1) << (8 * uoff))) | (nu << (8 * uoff))
            exp[(k, j)] = (av, rb, M2)
        runs = {'gcc': (N, V)}
        notes = {}
        for e in ENGINES:
            rc, out, err = run_c2m(c2m, src, e, d)
            runs[ename(e)] = F.parse_out(out)
            if rc != 0:
                notes[ename(e)] = 'rc=%d %s' % (rc, (err + out[-200:])[-300:])
        for k, c in enumerate(cs):
            if k not in lays:
                continue
            size, A, w, mask = lays[k]
            ubits = F.TYPES[c['type']][1]
            chk.dist('F_type', c['type'])
            chk.dist('F_width', 'unit' if w == ubits else ('1' if w == 1 else ('<8' if w < 8 else ('<32' if w < 32 else '>=32'))))
            chk.dist('F_offset_in_unit', '0' if A % ubits == 0 else ('end' if A % ubits + w == ubits else 'middle'))
            for j, v in enumerate(c['vals']):
                if (k, j) not in exp:
                    continue
                av, rb, M2 = exp[(k, j)]
                nst += 1
                chk.count('F:%r' % ((c['type'], w, A, v, c['fills'][j], c['forms'][j]),), nontrivial=True, n=len(ENGINES) + 1)
                chk.dist('F_form', c['forms'][j])
                want = (av, rb, M2 & mask)
                for en, (Nn, Vv) in runs.items():
                    g = Vv.get((k, j))
                    got = None if g is None else (g[0], g[1], int.from_bytes(g[2], 'little') & mask)
                    lay_ok = all(Nn.get(key) == N.get(key) for key in N if key[0] == k)
                    if got == want and lay_ok:
                        continue
                    if en == 'gcc':
                        raise vlib.BuildError('BitField specification disagrees with gcc on %s %s:%d at bit %d value %d: gcc %s, model %s'
                                              % (c['type'], 'f', w, A, v, got, want))
                    what = ('layout of the struct differs from gcc' if not lay_ok else 'no output (%s)' % notes.get(en, '') if got is None
                            else 'value of the assignment expression' if got[0] != want[0]
                            else 'value read back' if got[1] != want[1] else 'bytes of the object (bits of named members)')
                    findings.append((c, k, j, en, what, got, want))
        # initialisers of the same structs: static data (add_bit_field + the data loop of gen_initializer) and
        # automatic objects (its store loop), positional prefix and shuffled designated subset
        for k, c in enumerate(cs):
            ext = F.member_extents(c, k, N)
            if ext is None:
                continue
            mask = 0
            for A, w in ext:
                mask |= ((1 << w) - 1) << A
            for form in range(5):
                if form < 2 and avoid_mixed and F.mixed_units(c, ext):
                    chk.dist('F_init', 'static form skipped: shape of the known finding mixed_bitfield_init')
                    continue
                if form == 4 and not c.get('seq'):
                    continue
                want = (F.init_expect(c, ext, form) if form < 4 else F.seq_expect(c, ext, len(N[(k, 0)]))) & mask
                chk.count('Finit:%r' % ((c['members'], c['ivals'], c['npos'], c['des'], form),), nontrivial=True, n=len(ENGINES) + 1)
                chk.dist('F_init', F.INIT_FORMS[form])
                for en, (Nn, Vv) in runs.items():
                    b = Vv.get((k, 'I', form))
                    got = None if b is None else int.from_bytes(b, 'little') & mask
                    if got == want:
                        continue
                    if en == 'gcc':
                        raise vlib.BuildError('initialiser expectation disagrees with gcc on %s form %d: gcc %s, expected %s'
                                              % (F.struct_text(k, c), form, got, hex(want)))
                    if all(Nn.get(key) == N.get(key) for key in N if key[0] == k):    # layout differences are reported above
                        ifindings.append((c, k, form, en, got, want))
        # the emitted code
        csrc = os.path.join(d, 'bfcode%d.c' % off)
        open(csrc, 'w').write(F.code_unit(cs))
        rc, out, err = vlib.sh([c2m, '-w', '-S', csrc, '-o', os.path.join(d, 'bfcode.mir')], timeout=120, cwd=d)
        fs = F.mir_functions(open(os.path.join(d, 'bfcode.mir')).read()) if rc == 0 and os.path.exists(os.path.join(d, 'bfcode.mir')) else {}
        if not fs:
            tie.append('c2m -S failed on the bit-field code unit: rc=%d %s' % (rc, err[-200:]))
        cq, ck = [], []
        for k, c in enumerate(cs):
            if k in lays and fs:
                cs_, ubits, mt, sg, isb = F.TYPES[c['type']]
                size, A, w, mask = lays[k]
                cq.append('bfcode %x %d %x %x %d' % (ubits, 1 if mt[0] == 'i' else 0, A % ubits, w, 1 if sg else 0))
                ck.append(k)
        if cq:
            rcm, mout, merr = vlib.run_lines(model, cq, timeout=300)
            if rcm != 0 or len(mout) != len(cq):
                raise vlib.BuildError('driver_c07 failed on bfcode queries: rc=%d %s' % (rcm, merr[-300:]))
            for k, l in zip(ck, mout):
                c = cs[k]
                cs_, ubits, mt, sg, isb = F.TYPES[c['type']]
                size, A, w, mask = lays[k]
                m = re.match(r'store: (.*) ; result r(\d+) ; load: (.*)$', l)
                for kind, fn, mcode in (('store', 'st%d' % k, m.group(1)), ('load', 'ld%d' % k, m.group(3))):
                    got = F.canon_access(fs.get(fn, []), kind)
                    if got is not None:      # the theorems hold for either extension of the unit load: compare its size only
                        got = (got[0], got[1][1:], got[2])
                    want = (F.canon_model(mcode), mt[1:], (A // ubits) * (ubits // 8))
                    chk.count('Fcode:%s:%r' % (kind, want), nontrivial=True)
                    if got != want:
                        tie.append('emitted bit-field %s code of `%s f:%d` at bit %d: c2m -S %s, model %s' % (kind, cs_, w, A, got, want))
    if cases:
        chk.sample('bit-field probe: %s f:%d after %d members, values %s' % (F.TYPES[cases[0]['type']][0], cases[0]['width'],
                                                                          len(cases[0]['members']) - 1, cases[0]['vals'][:3]))
    seen = set()
    for c, k, j, en, what, got, want in findings:
        sig = 'bf:%s:%d:%s' % (c['type'], c['width'], what.split(' (')[0])
        if sig in seen or len(seen) >= 5:
            continue
        seen.add(sig)
        engines = sorted(set(f[3] for f in findings if f[0] is c and f[2] == j))
        one = dict(c, vals=[c['vals'][j]], fills=[c['fills'][j]], seeds=[c['seeds'][j]], forms=[c['forms'][j]])
        chk.finding(sig, dict(kind='bf', case=one, program=F.probe_unit([one]), engines=engines, what=what,
                              got=[hex(x) for x in got] if got else None, want=[hex(x) for x in want]),
                    'bit-field `%s f:%d` (%s = %d, object filled with %s): %s under c2m %s: got %s, gcc/model %s'
                    % (F.TYPES[c['type']][0], c['width'], c['forms'][j], c['vals'][j], c['fills'][j], what, ','.join(engines),
                       [hex(x) for x in got] if got else None, [hex(x) for x in want]))
    seen = set()
    for c, k, form, en, got, want in ifindings:
        sig = 'bfinit:%s:%d:%s' % (c['type'], c['width'], F.INIT_FORMS[form].split(',')[0])
        if sig in seen or len(seen) >= 4:
            continue
        seen.add(sig)
        engines = sorted(set(f[3] for f in ifindings if f[0] is c and f[2] == form))
        one = dict(c, vals=[], fills=[], seeds=[], forms=[])
        chk.finding(sig, dict(kind='bf', case=one, program=F.probe_unit([one]), engines=engines, what=F.INIT_FORMS[form],
                              got=hex(got) if got is not None else None, want=hex(want)),
                    '%s of `%s` (I line %d): named bits of the object under c2m %s: %s, gcc/C11 %s'
                    % (F.INIT_FORMS[form], ' '.join(F.struct_text(0, one)[:-1]), form, ','.join(engines),
                       hex(got) if got is not None else None, hex(want)))
    return nst, findings + ifindings, tie


# ------------------------------------------------------------------ B: generated programs
# generator shape -> signature of the known finding whose witness exhibits it
KNOWN_SHAPES = {'nested-postdec-while': 'prog:corpus:c07_prog_nested_loop.c',
                'mixed-unit-bitfields': 'prog:corpus:c07_prog_mixed_bitfield_init.c',
                'align16-stack': 'abi:corpus:c07_abi_align16_stack.json'}


def build_ext(d):
    so = os.path.join(d, 'libc07ext.so')
    if not os.path.exists(so):
        vlib.sh(['gcc', '-shared', '-fPIC', '-O1', '-w', '-o', so, os.path.join(vlib.VERIF, 'harness', 'c07_ext.c')],
                check=True, timeout=120)
    return so


def reference_run(src, d, tag, use_ext):
    """gcc -O1 result (rc, stdout) or None when the program is not a valid test: UBSan report, or
    -O0 and -O2 disagree (unspecified behaviour), or gcc rejects it (generator bug)."""
    ext = [os.path.join(vlib.VERIF, 'harness', 'c07_ext.c')] if use_ext else []
    outs = []
    for i, fl in enumerate((['-O0', '-fsanitize=undefined', '-fno-sanitize-recover=all'], ['-O1'], ['-O2'])):
        exe = os.path.join(d, '%s.g%d' % (tag, i))
        rc, out, err = vlib.sh(['gcc', '-w', '-std=gnu11'] + fl + [src] + ext + ['-o', exe, '-lm'], timeout=300, cwd=d)
        if rc != 0:
            return None, 'gcc rejects: ' + err[-300:]
        rc, out, err = vlib.sh([exe], timeout=60, cwd=d)
        if 'runtime error' in err:
            return None, 'UBSan: ' + err[-300:]
        outs.append((rc, out))
    if outs[0] != outs[1] or outs[1] != outs[2]:
        return None, 'gcc -O0/-O1/-O2 disagree'
    return outs[1], ''


def c2m_runs(c2m, src, d, use_ext, engines=ENGINES):
    res = {}
    lib = ['-L' + d, '-lc07ext'] if use_ext else []
    for e in engines:
        rc, out, err = vlib.sh([c2m, '-w', src] + lib + list(e), timeout=20, cwd=d)
        res[ename(e)] = (rc, out, err[-300:])
    return res


def prog_disagreements(ref, res):
    bad = []
    for e, (rc, out, err) in sorted(res.items()):
        if (rc, out) != ref:
            what = 'exit status %d vs %d' % (rc, ref[0]) if out == ref[1] else 'stdout differs'
            if rc not in range(0, 64) and out != ref[1]:
                what = 'c2m failed (rc=%d): %s' % (rc, err.strip().split('\n')[-1][:160] if err.strip() else 'no message')
            bad.append((e, what))
    return bad


def shrink_program(c2m, text, d, use_ext, engine):
    """line-based delta debugging that keeps the program valid (gcc + UBSan clean) and still failing"""
    lines = text.split('\n')
    e = [x for x in ENGINES if ename(x) == engine] or [ENGINES[0]]

    def fails(sub):
        src = os.path.join(d, 'shr.c')
        open(src, 'w').write('\n'.join(sub) + '\n')
        ref, why = reference_run(src, d, 'shr', use_ext)
        if ref is None:
            return False
        res = c2m_runs(c2m, src, d, use_ext, e)
        return bool(prog_disagreements(ref, res))
    return '\n'.join(vlib.shrink_list(lines, fails, max_steps=150))


def part_programs(chk, c2m, d, quick):
    import gen_c07_prog as P
    build_ext(d)
    n = 30 if quick else 300
    findings = []
    invalid = 0
    texts = []
    cp = os.path.join(vlib.VERIF, 'corpus')
    for f in sorted(os.listdir(cp)) if os.path.isdir(cp) and not os.environ.get('C07_NO_CORPUS') else []:   # development switch
        if f.startswith('c07_prog') and f.endswith('.c'):
            texts.append(('corpus:' + f, open(os.path.join(cp, f)).read(), ['corpus']))
    # a known finding of another component (mir-gen) is identified by its witness program in corpus/;
    # while it is listed, the generator does not emit that shape, the witness itself still runs
    avoid = [shape for shape, sig in KNOWN_SHAPES.items() if any(k == sig for k, _ in chk.known)]
    for i in range(n):
        rng = chk.rng('prog%d' % i)
        use_ext = rng.random() < 0.6
        text, feats = P.generate(rng, use_ext=use_ext, size=1.0, avoid=avoid)
        texts.append(('gen%d' % i, text, feats))
    for name, text, feats in texts:
        use_ext = 'ext_' in text
        src = os.path.join(d, 'prog.c')
        open(src, 'w').write(text)
        ref, why = reference_run(src, d, 'prog', use_ext)
        if ref is None:
            invalid += 1
            chk.dist('B_invalid', why.split(':')[0])
            chk.notes.append('generated program %s discarded: %s' % (name, why[:200]))
            continue
        res = c2m_runs(c2m, src, d, use_ext)
        chk.count('B:' + hashlib.sha1(text.encode()).hexdigest(), nontrivial=True, n=len(ENGINES))
        for f in feats:
            chk.dist('B_features', f.split(':')[0])
        chk.dist('B_lines', (len(text.split('\n')) // 50) * 50)
        bad = prog_disagreements(ref, res)
        if bad:
            findings.append((name, text, use_ext, bad, ref, res))
    chk.dist('B_programs', 'valid', len(texts) - invalid)
    chk.dist('B_programs', 'discarded', invalid)
    for name, text, use_ext, bad, ref, res in [f for f in findings if f[0].startswith('corpus:')]:
        # corpus programs are minimal witnesses: stable signature = file name
        chk.finding('prog:' + name, dict(kind='prog', program=text, original=text, use_ext=use_ext,
                                                engines=[b[0] for b in bad], what=[b[1] for b in bad], gcc=list(ref)),
                    'corpus program %s: c2m %s: %s' % (name, ','.join(b[0] for b in bad), bad[0][1]))
    for name, text, use_ext, bad, ref, res in [f for f in findings if not f[0].startswith('corpus:')][:3]:
        small = shrink_program(c2m, text, d, use_ext, bad[0][0])
        h = hashlib.sha1(small.encode()).hexdigest()[:12]
        chk.finding('prog:' + h, dict(kind='prog', program=small, original=text, use_ext=use_ext, engines=[b[0] for b in bad],
                                      what=[b[1] for b in bad], gcc=list(ref)),
                    'generated program %s (%d lines after shrinking): c2m %s: %s' % (name, len(small.split('\n')),
                                                                                     ','.join(b[0] for b in bad), bad[0][1]))
    return len(texts) - invalid, findings



# ------------------------------------------------------------------ P: address constants
ADDR_PROBES = {
    # which spellings of address constants the tree under test accepts / evaluates right (its supported subset is measured,
    # not assumed): the generator switch is on only when the probe program prints 'ok' under c2m -ei
    'DECAY_SUBOBJECT': 'int g[3][4]; struct S { int a; int v[3]; } s;\nstatic int *p = g[1], *q = g[1] + 2, *r = *(g + 2), *t = s.v, *u = s.v + 1;\n'
                       'int main (void) { printf (p == &g[1][0] && q == &g[1][2] && r == &g[2][0] && t == &s.v[0] && u == &s.v[1] ? "ok\\n" : "no\\n"); return 0; }\n',
    'COMMUTED_INDEX': 'int g[3][4];\nstatic int *p = &1[g][2], *q = &2[g[1]];\n'
                      'int main (void) { printf (p == &g[1][2] && q == &g[1][2] ? "ok\\n" : "no\\n"); return 0; }\n',
    'ADDR_OF_ARRAY_ARITH': 'int g[3][4];\nstatic int (*p)[4] = &g[1] + 1; static void *q = &g + 1;\n'
                           'int main (void) { int (*r)[4] = &g[0] + 2; printf ((char *) p == (char *) g + 32 && (char *) q == (char *) g + 48 '
                           '&& (char *) r == (char *) g + 32 ? "ok\\n" : "no\\n"); return 0; }\n',
}


def addr_bad_lines(ref_out, res):
    """ids of the probes whose line differs from gcc's under some engine: {id: [(engine, c2m line)]}"""
    want = ref_out.split('\n')
    bad = {}
    for e, (rc, out, err) in sorted(res.items()):
        got = out.split('\n')
        if rc != 0 and len(got) < len(want):
            bad.setdefault('<run>', []).append((e, 'c2m failed (rc=%d): %s' % (rc, err.strip().split('\n')[-1][:160] if err.strip() else 'no message')))
            continue
        for a, b in zip(want, got):
            if a != b:
                bad.setdefault(a.split(' ')[0], []).append((e, b))
    return bad


def addr_focus(text, pid):
    """the program without the probes other than pid (t6_0 -> everything named t6)"""
    num = re.match(r'[a-z]+(\d+)', pid)
    if not num:
        return text
    keep = []
    for l in text.split('\n'):
        ids = set(re.findall(r'\b(?:p|t|o|oa)(\d+)\b', l))
        if ids and num.group(1) not in ids:
            continue
        keep.append(l)
    return '\n'.join(keep)


def part_addr(chk, c2m, d, quick):
    import gen_c07_addr as AG
    on = []
    for sw, prog in sorted(ADDR_PROBES.items()):
        src = os.path.join(d, 'addrprobe.c')
        open(src, 'w').write('#include <stdio.h>\n' + prog)
        rc, out, err = vlib.sh([c2m, '-w', src, '-ei'], timeout=20, cwd=d)
        ok = rc == 0 and out.strip() == 'ok'
        setattr(AG, sw, ok)
        chk.dist('P_forms_accepted_by_this_tree', sw, 1 if ok else 0)
        if ok:
            on.append(sw)
    n = 9 if quick else 150
    nprobes = 0
    findings = []
    for i in range(n):
        rng = chk.rng('addr%d' % i)
        text, feats, expect = AG.generate(rng, nprobes=48)
        src = os.path.join(d, 'addr.c')
        open(src, 'w').write(text)
        ref, why = reference_run(src, d, 'addr', False)
        if ref is None or ref[0] != 0 or ref[1].split('\n')[:-1] != expect:
            # the LP64 layout computed by the generator is a second opinion on the reference run
            raise vlib.BuildError('gen_c07_addr: program %d is not a valid test (%s) or gcc disagrees with the layout computed by the generator'
                                  % (i, why or 'offsets differ'))
        res = c2m_runs(c2m, src, d, False)
        chk.count('P:' + hashlib.sha1(text.encode()).hexdigest(), nontrivial=True, n=len(expect) * len(ENGINES))
        nprobes += len(expect)
        for f in feats:
            chk.dist('P_features', f)
        if i == 0:
            chk.sample('address-constant program (first lines of the probes): ' + ' | '.join(l for l in text.split('\n') if l.startswith('static') and '=' in l)[:600])
        bad = addr_bad_lines(ref[1], res)
        if bad:
            findings.append((i, text, bad, ref))
    seen = set()
    for i, text, bad, ref in findings[:4]:
        for pid in sorted(bad)[:2]:
            eng = bad[pid][0][0]
            small = addr_focus(text, pid)
            src = os.path.join(d, 'addrf.c')
            open(src, 'w').write(small)
            r2, why = reference_run(src, d, 'addrf', False)
            if r2 is None or not prog_disagreements(r2, c2m_runs(c2m, src, d, False, [x for x in ENGINES if ename(x) == eng])):
                small = text
            small = shrink_program(c2m, small, d, False, eng)
            probe = [l.strip() for l in small.split('\n') if re.search(r'=\s*[^=]', l) and re.search(r'\b(p|t|o|oa)\d+\b', l)]
            sig = 'addr:' + hashlib.sha1(small.encode()).hexdigest()[:12]
            if sig in seen:
                continue
            seen.add(sig)
            open(src, 'w').write(small)
            r3, _ = reference_run(src, d, 'addrf', False)
            chk.finding(sig, dict(kind='prog', program=small, original=text, use_ext=False, engines=[b[0] for b in bad[pid]],
                                  what=['%s: c2m prints `%s`' % b for b in bad[pid]], gcc=list(r3 or ref)),
                        'address constant `%s`: c2m %s prints `%s`, gcc `%s` (byte offset from the start of the object)'
                        % ((probe[0] if probe else pid)[:200], ','.join(b[0] for b in bad[pid]), bad[pid][0][1],
                           (r3[1] if r3 else '').strip().replace('\n', ' ')[:80]))
    chk.dist('P_programs', 'valid', n)
    return nprobes, findings


# ------------------------------------------------------------------ V: several aggregate values alive in one full expression
def agg_focus(text, pid):
    """the program with the probe function of line id `v<pid>_<n>` only"""
    m = re.match(r'v(\d+)_', pid)
    if not m:
        return text
    keep, skip = [], False
    for l in text.split('\n'):
        f = re.match(r'static (?:void q|.* h)(\d+) \(', l)
        if f and not l.startswith('static u64') and re.match(r'static (void q|(struct|union) A\d+ h)\d+ \(', l):
            skip = f.group(1) != m.group(1) and l.startswith('static void q')
            if not l.startswith('static void q'):
                if f.group(1) != m.group(1):
                    continue
        if re.match(r'  q(\d+) \(', l) and re.match(r'  q(\d+) \(', l).group(1) != m.group(1):
            continue
        if skip:
            if l == '}':
                skip = False
            continue
        keep.append(l)
    return '\n'.join(keep)


def agg_code_tie(chk, c2m, d, quick):
    """the call argument area of `c2m -S` (alloca size, `add t, fp, offset` per reserved result slot, by-address results) against
    the extracted CallTemps model (area_size, Alloc / Write events) on seeded expression trees; returns the disagreements"""
    import gen_c07_agg as VG
    model = vlib.ocaml_build('c07ct', 'Extract_C07ct', ['c07ctx'], 'driver_c07ct.ml')
    breaks = []
    for u in range(4 if quick else 40):
        rng = chk.rng('calltemps%d' % u)
        text, probe, funs = VG.gen_tie_unit(rng)
        src = os.path.join(d, 'ctprobe.c')
        open(src, 'w').write(probe)
        rc, out, err = run_gcc(src, d, 'ctprobe')
        if rc != 0:
            raise vlib.BuildError('gen_c07_agg: size probe rejected by gcc: ' + err[-300:])
        sizes = [int(x) for x in out.split()]
        src = os.path.join(d, 'ctunit.c')
        open(src, 'w').write(text)
        rc, out, err = vlib.sh([c2m, '-S', src, '-o', os.path.join(d, 'ctunit.mir')], timeout=60, cwd=d)
        if rc != 0:
            breaks.append('c2m -S rejects the tie unit %d: %s' % (u, err.strip().split('\n')[-1][:200]))
            continue
        mir = VG.parse_tie_mir(open(os.path.join(d, 'ctunit.mir')).read())
        rc, ans, err = vlib.run_lines(model, [VG.tie_query(b, sizes) for f, b in funs], timeout=120)
        if rc != 0 or len(ans) != len(funs) or any(not a.startswith('area') for a in ans):
            raise vlib.BuildError('driver_c07ct failed: rc=%d %s %s' % (rc, err[-300:], ans[:1]))
        for (f, body), a in zip(funs, ans):
            w = a.split('|')[1].split()
            area = int(a.split()[1])
            allocs = [int(w[k + 1]) for k in range(0, len(w), 3) if w[k] == 'A']
            memwrites = [(int(w[k + 1]), int(w[k + 2])) for k in range(0, len(w), 3) if w[k] == 'W' and int(w[k + 2]) > 16]
            got = mir.get(f)
            chk.count('Vtie:%d:%s' % (u, f), nontrivial=len(allocs) >= 2)
            chk.dist('V_code_tie', 'slots-in-function:%d' % min(len(allocs), 12))
            if got is None or got[0] != area or got[1] != allocs or got[2] != memwrites:
                breaks.append('%s: model area %d, slot offsets %s, by-address results %s; c2m -S %s   [%s]'
                              % (f, area, allocs, memwrites, got, ' '.join('r ^= %s;' % VG.render(t) for t in body)[:300]))
                chk.dist('V_code_tie', 'DISAGREES')
    return breaks


def part_agg(chk, c2m, d, quick):
    import gen_c07_agg as VG
    n = 6 if quick else 120
    nprobes = 0
    findings = []
    for i in range(n):
        rng = chk.rng('agg%d' % i)
        text, feats, total = VG.generate(rng, nprobes=36)
        src = os.path.join(d, 'agg.c')
        open(src, 'w').write(text)
        ref, why = reference_run(src, d, 'agg', False)
        if ref is None or ref[0] != 0 or len(ref[1].split('\n')) - 1 != total:
            raise vlib.BuildError('gen_c07_agg: program %d is not a valid test (%s)' % (i, why or 'wrong number of output lines'))
        res = c2m_runs(c2m, src, d, False)
        chk.count('V:' + hashlib.sha1(text.encode()).hexdigest(), nontrivial=True, n=total * len(ENGINES))
        nprobes += total
        for f in feats:
            chk.dist('V_features', f)
        if i == 0:
            chk.sample('aggregate-expression program (some probe lines): ' + ' | '.join(l.strip() for l in text.split('\n') if l.startswith('  printf'))[:700])
        bad = addr_bad_lines(ref[1], res)
        if bad:
            findings.append((i, text, bad, ref))
    seen = set()
    for i, text, bad, ref in findings[:3]:
        for pid in sorted(bad)[:2]:
            eng = bad[pid][0][0]
            small = agg_focus(text, pid)
            src = os.path.join(d, 'aggf.c')
            open(src, 'w').write(small)
            r2, why = reference_run(src, d, 'aggf', False)
            if r2 is None or not prog_disagreements(r2, c2m_runs(c2m, src, d, False, [x for x in ENGINES if ename(x) == eng])):
                small = text
            small = shrink_program(c2m, small, d, False, eng)
            sig = 'agg:' + hashlib.sha1(small.encode()).hexdigest()[:12]
            if sig in seen:
                continue
            seen.add(sig)
            open(src, 'w').write(small)
            r3, _ = reference_run(src, d, 'aggf', False)
            r4 = c2m_runs(c2m, src, d, False, [x for x in ENGINES if ename(x) == eng])
            stmt = [l.strip() for l in small.split('\n') if l.startswith('  ') and re.search(r'\b(mk|mix|inc|pick|id|cvt|fp|fpm)_', l)
                    and not re.match(r'\s*(struct|union) A\d+ v_A\d+ = mk_A\d+ \(k \+ \d+u\);$', l) and not re.match(r'\s*g_A\d+ = mk_A\d+ \(5u\);', l)]
            chk.finding(sig, dict(kind='prog', program=small, original=text, use_ext=False, engines=[b[0] for b in bad[pid]],
                                  what=['%s: c2m prints `%s`' % b for b in bad[pid]], gcc=list(r3 or ref)),
                        'aggregate values in one full expression, `%s`: c2m %s prints `%s`, gcc `%s`'
                        % (' '.join(stmt)[:300], ','.join(b[0] for b in bad[pid]), (r4.get(eng, (0, ''))[1]).strip().replace('\n', ' ')[:100],
                           (r3[1] if r3 else '').strip().replace('\n', ' ')[:100]))
    chk.dist('V_programs', 'valid', n)
    return nprobes, findings, agg_code_tie(chk, c2m, d, quick)


# ------------------------------------------------------------------ K: control flow (loops x break / continue / goto x side effects)
def part_ctl(chk, c2m, d, quick):
    import gen_c07_ctl as KG
    n = 5 if quick else 150
    nprobes = 0
    findings = []
    for i in range(n):
        rng = chk.rng('ctl%d' % i)
        text, feats = KG.generate(rng, nprobes=24)
        src = os.path.join(d, 'ctl.c')
        open(src, 'w').write(text)
        ref, why = reference_run(src, d, 'ctl', False)
        if ref is None or ref[0] != 0 or len(ref[1].split('\n')) - 1 != 24:
            raise vlib.BuildError('gen_c07_ctl: program %d is not a valid test (%s)' % (i, why or 'runaway / wrong number of output lines'))
        res = c2m_runs(c2m, src, d, False)
        chk.count('K:' + hashlib.sha1(text.encode()).hexdigest(), nontrivial=True, n=24 * len(ENGINES))
        nprobes += 24
        for f in feats:
            chk.dist('K_features', f)
        if i == 0:
            chk.sample('control-flow program (loop heads of the first probes): ' + ' | '.join(l.strip() for l in text.split('\n') if re.match(r'\s*(for|while|do|\} while) ', l))[:700])
        bad = addr_bad_lines(ref[1], res)
        if bad:
            findings.append((i, text, bad, ref))
    seen = set()
    for i, text, bad, ref in findings[:3]:
        for pid in sorted(bad)[:2]:
            eng = bad[pid][0][0]
            m = re.match(r'k(\d+)$', pid)
            small = KG.focus(text, int(m.group(1))) if m else text
            src = os.path.join(d, 'ctlf.c')
            open(src, 'w').write(small)
            r2, why = reference_run(src, d, 'ctlf', False)
            if r2 is None or not prog_disagreements(r2, c2m_runs(c2m, src, d, False, [x for x in ENGINES if ename(x) == eng])):
                small = text
            small = shrink_program(c2m, small, d, False, eng)
            sig = 'ctl:' + hashlib.sha1(small.encode()).hexdigest()[:12]
            if sig in seen:
                continue
            seen.add(sig)
            open(src, 'w').write(small)
            r3, _ = reference_run(src, d, 'ctlf', False)
            r4 = c2m_runs(c2m, src, d, False, [x for x in ENGINES if ename(x) == eng])
            heads = [l.strip() for l in small.split('\n') if re.search(r'\b(for|while|do|continue|break|goto|switch)\b', l) and not l.startswith('static')]
            chk.finding(sig, dict(kind='prog', program=small, original=text, use_ext=False, engines=[b[0] for b in bad[pid]],
                                  what=['%s: c2m prints `%s`' % b for b in bad[pid]], gcc=list(r3 or ref)),
                        'control flow `%s`: c2m %s prints `%s` (rc %d), gcc `%s` (hash of the executed path, accumulator)'
                        % (' '.join(heads)[:300], ','.join(b[0] for b in bad[pid]), (r4.get(eng, (0, ''))[1]).strip().replace('\n', ' ')[:100],
                           r4.get(eng, (0, ''))[0], (r3[1] if r3 else '').strip().replace('\n', ' ')[:100]))
    chk.dist('K_programs', 'valid', n)
    return nprobes, findings


# ------------------------------------------------------------------ X: aggregates by value across the compiler boundary
def _tup(x):
    return tuple(_tup(y) for y in x) if isinstance(x, list) else x


def abi_unit_from_json(j):
    def shape(s):
        return (s[0], [member(m) for m in s[1]], s[2])

    def member(m):
        if m[0] == 'agg':
            return ('agg', shape(m[1]))
        if m[0] == 'aarr':
            return ('aarr', shape(m[1]), m[2])
        return tuple(m)
    return [(shape(it[0]), it[1], it[2], bool(it[3])) for it in j]


def abi_run(c2m, unit, d, tag, only=None, engines=ENGINES):
    """(ref, results, why): ref = gcc (rc, stdout) or None when the unit is not a valid test"""
    import gen_c07_abi as A
    lib, main = A.render(unit, only)
    lsrc, msrc = os.path.join(d, tag + '_lib.c'), os.path.join(d, tag + '_main.c')
    open(lsrc, 'w').write(lib)
    open(msrc, 'w').write(main)
    outs = []
    for i, fl in enumerate((['-O0', '-fsanitize=undefined', '-fno-sanitize-recover=all'], ['-O1'], ['-O2'])):
        exe = os.path.join(d, '%s.g%d' % (tag, i))
        rc, out, err = vlib.sh(['gcc', '-w', '-std=gnu11'] + fl + [msrc, lsrc, '-o', exe], timeout=300, cwd=d)
        if rc != 0:
            return None, {}, 'gcc rejects: ' + err[-300:]
        rc, out, err = vlib.sh([exe], timeout=60, cwd=d)
        if 'runtime error' in err:
            return None, {}, 'UBSan: ' + err[-300:]
        outs.append((rc, out))
    if len(set(outs)) != 1:
        return None, {}, 'gcc -O0/-O1/-O2 disagree'
    so = os.path.join(d, 'lib%s.so' % tag)
    vlib.sh(['gcc', '-shared', '-fPIC', '-O1', '-w', '-std=gnu11', '-o', so, lsrc], check=True, timeout=120)
    res = {}
    for e in engines:
        rc, out, err = vlib.sh([c2m, '-w', msrc, '-L' + d, '-l' + tag] + list(e), timeout=60, cwd=d)
        res[ename(e)] = (rc, out, err[-300:])
    return outs[1], res, ''


def abi_bad_lines(ref, res):
    """{shape index: {engine: [(call kind, gcc line, c2m line)]}}; lines are matched by (shape, call, seed), so a run that
    ends early is charged to the call it died in only; index -1 = nothing usable was printed"""
    def table(out):
        t = {}
        for l in out.split('\n')[:-1]:          # a line that is not terminated was cut off by the end of the run
            w = l.split()
            if len(w) == 4:
                t[(w[0], w[1], w[2])] = l
        return t
    bad = {}
    rt = table(ref[1])
    for en, (rc, out, err) in sorted(res.items()):
        ot = table(out)
        for key, a in rt.items():
            b = ot.get(key)
            if b is None:
                bad.setdefault(int(key[0]), {}).setdefault(en, []).append(
                    (key[1], a, '<no output: the run ended here with rc=%d %s>' % (rc, err.strip().split('\n')[-1][:120] if err.strip() else '')))
                break
            if a != b:
                bad.setdefault(int(key[0]), {}).setdefault(en, []).append((key[1], a, b))
        if rc != ref[0] and not any(en in v for v in bad.values()):
            bad.setdefault(-1, {}).setdefault(en, []).append(('exit', 'rc=%d' % ref[0], 'rc=%d %s' % (rc, err.strip()[-160:])))
    return bad


def part_abi(chk, c2m, d, quick):
    import gen_c07_abi as A
    findings = []
    units = []
    cp = os.path.join(vlib.VERIF, 'corpus')
    for f in sorted(os.listdir(cp)):
        if f.startswith('c07_abi') and f.endswith('.json'):
            units.append(('corpus:' + f, abi_unit_from_json(json.load(open(os.path.join(cp, f)))['unit'])))
    avoid = [shape for shape, sig in KNOWN_SHAPES.items() if any(k == sig for k, _ in chk.known)]
    nunits, nshapes = (4, 26) if quick else (40, 30)
    for i in range(nunits):
        units.append(('gen%d' % i, A.gen_unit(chk.rng('abi%d' % i), nshapes, avoid=avoid)))
    ncalls = 0
    for ui, (name, unit) in enumerate(units):
        tag = 'x%d' % ui
        ref, res, why = abi_run(c2m, unit, d, tag)
        if ref is None:
            chk.dist('X_units', 'discarded: ' + why.split(':')[0])
            chk.notes.append('call-boundary unit %s discarded: %s' % (name, why[:200]))
            continue
        chk.dist('X_units', 'valid')
        nl = len([l for l in ref[1].split('\n') if l])
        ncalls += nl
        for k, (shape, pre, post, va) in enumerate(unit):
            size, al = A.size_align(shape)
            chk.count('X:%s:%s:%s:%d' % (A.type_text(shape), pre, post, va), nontrivial=True, n=len(ENGINES) * (18 + 4 * va))
            chk.dist('X_size', '<=8' if size <= 8 else '<=16' if size <= 16 else '<=32' if size <= 32 else '>32')
            chk.dist('X_kind', ('union' if shape[0] == 'u' else 'struct') + (' with array member' if any(m[0] in ('arr', 'aarr') for m in shape[1]) else '')
                     + (' nested' if any(m[0] in ('agg', 'aarr') for m in shape[1]) else ''))
            chk.dist('X_scalar_args_before', 'none' if not pre else 'registers only' if A.stack_slots_before(pre, True) == 0 else 'some on the stack')
            if va:
                chk.dist('X_variadic', 'aggregate through ...')
        bad = abi_bad_lines(ref, res)
        for k in sorted(bad)[:3]:
            if name.startswith('corpus:'):
                findings.append((name, unit, None, bad[k]))
                break
            only = None
            if k >= 0:          # confirm on the single shape: that is the replay
                ref1, res1, why1 = abi_run(c2m, unit, d, tag + 's', only=[k])
                if ref1 is not None and abi_bad_lines(ref1, res1):
                    only, bad[k] = [k], abi_bad_lines(ref1, res1).get(k, bad[k])
            findings.append((name, unit, (k, only), bad[k]))
    if units:
        chk.sample('call-boundary shape: ' + A.describe(units[-1][1][0]))
    seen = set()
    for name, unit, kk, b in findings:
        engines = sorted(b)
        kinds = sorted(set(x[0] for v in b.values() for x in v))
        first = b[engines[0]][0]
        if kk is None:
            sig = 'abi:' + name
            chk.finding(sig, dict(kind='abi', unit=[list(it) for it in unit], only=None, engines=engines, calls=kinds,
                                  gcc=first[1], c2m=first[2]),
                        'call-boundary corpus unit %s: %s differ under c2m %s: gcc `%s`, c2m `%s`'
                        % (name, ','.join(kinds), ','.join(engines), first[1], first[2]))
            continue
        k, only = kk
        it = unit[k] if k >= 0 else None
        sig = 'abi:%s:%s:%s' % (A.type_text(it[0]).replace(' ', ''), it[1], it[2]) if it else 'abi:run-failed:' + first[2][:40]
        if sig in seen or len(seen) >= 4:
            continue
        seen.add(sig)
        lib, main = A.render(unit, only)
        chk.finding(sig, dict(kind='abi', unit=[list(x) for x in unit], only=only, engines=engines, calls=kinds, library_c=lib, main_c=main,
                              gcc=first[1], c2m=first[2]),
                    'aggregate by value across the compiler boundary: %s: calls %s give a different checksum under c2m %s '
                    '(lib_ = gcc-built callee, loc_ = c2m callee, cb = gcc code calling back c2m code): gcc `%s`, c2m `%s`'
                    % (A.describe(it) if it else name, ','.join(kinds), ','.join(engines), first[1], first[2]))
    return ncalls, findings


# ------------------------------------------------------------------ C: the repository's own C programs (thorough tier)
CTEST_DIRS = ('lacc', 'andrewchambers_c', 'new')
CTEST_ENGINES = [('-ei',), ('-O2', '-eg')]


def ctest_skips():
    sk = {}
    for l in open(os.path.join(vlib.VERIF, 'corpus', 'c07_ctests_skip.txt')):
        if l.strip() and not l.startswith('#'):
            w = l.rstrip('\n').split('\t')
            sk[w[0]] = (w[1], w[2] if len(w) > 2 else '')
    return sk


def ctest_one(c2m, rel, d):
    """('ok'|'invalid'|'differs', detail)"""
    src = os.path.join(vlib.REPO, 'c-tests', rel)
    cwd = os.path.dirname(src)
    tag = hashlib.sha1(rel.encode()).hexdigest()[:10]
    outs = []
    for i, fl in enumerate((['-O0', '-fsanitize=undefined', '-fno-sanitize-recover=all'], ['-O1'], ['-O2'])):
        exe = os.path.join(d, 'ct-%s.g%d' % (tag, i))
        # -trigraphs: ISO translation phase 1 (c2m implements it; gcc's gnu11 mode does not by default)
        rc, out, err = vlib.sh(['gcc', '-w', '-std=gnu11', '-trigraphs'] + fl + [src, '-o', exe, '-lm'], timeout=300, cwd=cwd)
        if rc != 0:
            return 'invalid', 'gcc rejects: ' + (err.strip().split('\n') or [''])[0][:200]
        rc, out, err = vlib.sh([exe], timeout=30, cwd=cwd, input=b'')
        os.remove(exe)
        if 'runtime error' in err:
            return 'invalid', 'UBSan: ' + err.strip().split('\n')[0][:200]
        outs.append((rc, out))
    if len(set(outs)) != 1:
        return 'invalid', 'gcc -O0/-O1/-O2 disagree'
    bad = []
    for e in CTEST_ENGINES:
        rc, out, err = vlib.sh([c2m, '-w', src] + list(e), timeout=60, cwd=cwd, input=b'')
        if (rc, out) != outs[0]:
            bad.append((ename(e), rc, out[-300:], err[-200:]))
    if bad:
        return 'differs', dict(gcc=[outs[0][0], outs[0][1][-300:]], c2m=bad)
    return 'ok', ''


def part_ctests(chk, c2m, d):
    import concurrent.futures as cf
    sk = ctest_skips()
    files = []
    for sub in CTEST_DIRS:
        p = os.path.join(vlib.REPO, 'c-tests', sub)
        for f in sorted(os.listdir(p)) if os.path.isdir(p) else []:
            if f.endswith('.c'):
                files.append(sub + '/' + f)
    todo = [f for f in files if f not in sk]
    for f in files:
        if f in sk:
            chk.dist('C_ctests', 'skipped: ' + sk[f][0])
    with cf.ThreadPoolExecutor(4) as ex:
        res = list(ex.map(lambda f: ctest_one(c2m, f, d), todo))
    nok = 0
    for f, (st, detail) in zip(todo, res):
        if st == 'ok':
            nok += 1
            chk.count('C:' + f, nontrivial=True, n=len(CTEST_ENGINES))
            chk.dist('C_ctests', 'agrees with gcc under -ei and -O2 -eg')
        elif st == 'invalid':
            chk.dist('C_ctests', 'no reference behaviour (not in the skip list)')
            chk.notes.append('c-tests/%s gives no reference behaviour and is not in corpus/c07_ctests_skip.txt: %s' % (f, detail))
        else:
            chk.dist('C_ctests', 'DIFFERS from gcc')
            chk.finding('ctest:' + f, dict(kind='ctest', file=f, detail=detail),
                        'c-tests/%s: c2m %s differs from gcc (gcc rc=%d, c2m rc=%d)' % (f, ','.join(b[0] for b in detail['c2m']),
                                                                                       detail['gcc'][0], detail['c2m'][0][1]))
    return nok


# ------------------------------------------------------------------ driver
def run(chk):
    quick = chk.tier == 'quick'
    lim = tr_c07_limits.check()
    r = chk.prove()
    r2 = chk.prove('Properties_C07ct')      # call-result temporaries (CallTemps)
    if not r2['ok']:
        r = dict(r, ok=False, log=r['log'] + '\n' + r2['log'])
    chk.cov['trusted_base'] += ['extraction: ExtrOcamlBasic only, no Extract Constant/Inductive of our own',
                                'ocaml/driver_c07.ml (parse + print only), tools/gen_c07_*.py (program generators)',
                                'gcc 12 -O1 as the reference compiler (cross-checked against the Coq C11Conv/C11Fold specifications)',
                                'tools/tr_c07_limits.py: coq/C07/Limits.v re-checked against c2mir/x86_64/cx86_64.h',
                                'bit-fields: the theorems are about store_code/load_code of coq/C07/BitField.v interpreted with its own '
                                'semantics of LSH/RSH/URSH/AND/OR and of typed unit loads/stores; tied to c2m by comparing `c2m -S` text '
                                'with that code and by running the extracted model against every engine; layout (wf_bf) is assumed (C08)',
                                'call-result temporaries: the theorems are about coq/C07/CallTemps.v (offset discipline of N_CALL in check()/gen()); tied to '
                                'c2m by comparing the alloca size, the `add t, fp, off` instructions and the by-address result operands of `c2m -S` with the '
                                'extracted model (ocaml/driver_c07ct.ml, parse + print only); that a slot is only used through the events modelled is assumed',
                                'NOT proved (differential testing only): parser, statements, the rest of gen(), initialisers, '
                                'struct copies, calls, the engines']
    with Scratch() as d:
        c2m, model = tools(d)
        parts = os.environ.get('C07_PARTS', 'ABFPVKX')      # development switch; the registered command runs everything
        n1 = n2 = n3 = n4 = n5 = n6 = 0
        model_breaks = []
        bf_tie = []
        ct_tie = []
        if 'A' in parts:
            n1, bad_types = part_types(chk, c2m, model, d)
            n2, bad_values, model_breaks = part_values(chk, c2m, model, d, quick)
            n6, bad_fvalues, fbreaks = part_fvalues(chk, c2m, model, d, quick)
            model_breaks = model_breaks + fbreaks
        if 'F' in parts:
            n4, bad_bf, bf_tie = part_bitfields(chk, c2m, model, d, quick)
        if 'B' in parts:
            n3, bad_progs = part_programs(chk, c2m, d, quick)
        if 'P' in parts:
            n7, bad_addr = part_addr(chk, c2m, d, quick)
        if 'V' in parts:
            n8, bad_agg, ct_tie = part_agg(chk, c2m, d, quick)
        if 'K' in parts:
            n9, bad_ctl = part_ctl(chk, c2m, d, quick)
        if 'X' in parts:
            n5, bad_abi = part_abi(chk, c2m, d, quick)
        if 'C' in parts or (not quick and 'C07_PARTS' not in os.environ):
            part_ctests(chk, c2m, d)
    chk.cov['rule'] = ('A1: _Generic type id of every operator on all 15x15 arithmetic type pairs and of typed integer constants; '
                       'A2: each UB-free typed operator application is evaluated in 3 constant contexts and 2 run-time forms under '
                       '7 c2m engine configurations and gcc (evaluations = cases x 5 x 8); every case is non-trivial; distinct by case; '
                       'A3: the same for constant expressions with floating and mixed integer/floating operands (+ - * / comparisons, unary, '
                       'casts in both directions, ?: with constant condition of any type, && ||) on boundary values of float / double / long double: '
                       'bytes of the result in a static initialiser, an == probe, an ICE probe for casts of floating constants, an automatic '
                       'initialiser and 2 run-time forms under 7 engine configurations and gcc vs the extracted FFold model (Flocq IEEE numbers); '
                       'B: seeded UB-free programs (validated by gcc -fsanitize=undefined and -O0/-O1/-O2 agreement), stdout + exit status '
                       'under the 7 engine configurations vs gcc; '
                       'F: bit-field stores (declared type x width x position in the unit x neighbours x boundary value x fill pattern x '
                       'form): assignment value, read-back and named bits of the whole object under 7 engine configurations and gcc vs '
                       'the extracted BitField model; emitted MIR access code (c2m -S) vs the model code; '
                       'P: address constants (C11 6.6p9) into multi-dimensional arrays, array members, nested aggregates and arrays of aggregates: '
                       'a random designator path in several equivalent spellings ([] as *(a+i) / (a+j)[k], . as (&x)->, &x+1, char* casts, '
                       'pointer arithmetic inside the innermost array, offsetof and the (size_t)&((T*)0)->m idiom) in every static context (file / block scope, '
                       'pointer arrays, struct members, designated) and at run time: byte offset from the object under 7 engine configurations vs gcc '
                       'and vs the LP64 layout computed by the generator; '
                       'V: aggregate-valued expression trees (calls returning structs/unions of every SysV size class as arguments of other calls, '
                       'through function pointers, member access on call results incl. members of aggregate type, ?:, comma, assignment values and chains, '
                       'compound literals, variables) used as printed values, initialisers (also as elements of enclosing initialisers), assignment sources, '
                       'return values of helpers with aggregate parameters, in loops and conditions: one line per probe under 7 engine configurations vs gcc; '
                       'K: control flow: probe functions over every loop kind (for with declaration / expression / empty clauses, while, do-while, loops made '
                       'of gotos; nested 3 deep) whose conditions and increments have side effects or are constant, with break / continue / goto at every place of '
                       'the body (also through a switch inside the loop, loops inside switch cases) under data-dependent conditions (first / last iteration, '
                       'every other, never, always): hash of the executed path + accumulator per probe under 7 engine configurations vs gcc; '
                       'X: aggregates passed / returned by value between c2m code and a gcc-built shared library in both directions '
                       '(direct calls, callbacks, variadic, function pointers) and c2m to c2m: shape (systematic SysV classification '
                       'boundaries + seeded: arrays over eightbytes, nested aggregates, unions, long double, bit-fields, sizes around 16) x '
                       'scalar arguments before/after that use up registers; checksum of all leaves under 7 engine configurations vs gcc; '
                       'C (thorough tier only): every .c file of c-tests/{lacc,andrewchambers_c,new} not listed in corpus/c07_ctests_skip.txt: '
                       'stdout + exit status under -ei and -O2 -eg vs gcc (validated like B)')
    if ct_tie and not chk.violations:
        # the theorems of Properties_C07ct.v are about CallTemps.gen; the slots c2m reserves are no longer those
        chk.finding('call-temps-code-tie', dict(broken=ct_tie[:6]),
                    'the call argument area c2m -S shows is no longer the one the CallTemps theorems are about (%d functions differ), e.g. %s'
                    % (len(ct_tie), ct_tie[0][:500]), no_input=True)
    tie_broken = bool(lim) or not r['ok'] or bool(model_breaks) or bool(bf_tie)
    if tie_broken and not chk.violations:
        r = dict(r)
        if lim:
            r['log'] += '\nLimits tie: ' + '; '.join(lim)
        if model_breaks:
            r['log'] += '\nCFold / FFold model disagrees with C11Fold / the C11 side of FFold on: %s' % (model_breaks[:3],)
        searched = ('%d type probes, %d integer and %d floating/mixed value probes and %d bit-field stores agreed between c2m, gcc and the models'
                    % (n1, n2, n6, n4))
        if bf_tie and not (lim or model_breaks) and r['ok']:
            # the theorems are about store_code / load_code of coq/C07/BitField.v; the code c2m emits is no longer that code
            chk.finding('bitfield-code-tie', dict(theorems=r['theorems'], broken=bf_tie[:6], searched=searched),
                        'the bit-field access code c2m emits is no longer the code the BitField theorems are about (%d differences), '
                        'e.g. %s' % (len(bf_tie), bf_tie[0][:400]), no_input=True)
        else:
            if bf_tie:
                r['log'] += '\nBitField tie (coq/C07/BitField.v store_code/load_code vs c2m -S): ' + '; '.join(bf_tie[:4])
            chk.proof_broken(r, searched=searched)


def replay(chk, path):
    j = json.load(open(path))['replay']
    with Scratch() as d:
        c2m, model = tools(d)
        if j.get('kind') == 'value':
            c = tuple(j['case'])
            ex = (j['expected'][0], j['expected'][1])
            res, notes = run_value_batch(c2m, [c], [ex], d, 'rp')
            print('expression:', G.const_expr(c), ' expected', ex)
            print('columns: static-init, array-size probe, enum probe, run time (globals), run time (volatile locals)')
            for e in sorted(res):
                print('%-8s %s %s' % (e, res[e].get(0), notes.get(e, '')))
            bad = value_disagreements([c], [ex], res, notes, ENGINES)
            return 1 if bad else 0
        if j.get('kind') == 'fvalue':
            c = tuple(j['case'])
            ex = (j['expected'][0], j['expected'][1])
            res, notes = run_fvalue_batch(c2m, [c], [ex], d, 'rp')
            print('expression:', G.fconst_expr(c), ' expected', ex[0], hex(ex[1]) if isinstance(ex[1], int) else ex[1])
            print('columns:', '; '.join(FCOLS))
            for e in sorted(res):
                print('%-8s %s %s' % (e, [hex(x) for x in res[e].get(0, ())], notes.get(e, '')))
            bad = fvalue_disagreements([c], [ex], res, notes, ENGINES)
            return 1 if bad else 0
        if j.get('kind') == 'type':
            n, bad = part_types(chk, c2m, model, d)
            for b in bad:
                print(b)
            return 1 if bad else 0
        if j.get('kind') == 'ctest':
            st, detail = ctest_one(c2m, j['file'], d)
            print('c-tests/%s: %s %s' % (j['file'], st, detail))
            return 0 if st == 'ok' else 1
        if j.get('kind') == 'bf':
            import gen_c07_bf as F
            src = os.path.join(d, 'bf.c')
            open(src, 'w').write(j['program'])
            rc, out, err = run_gcc(src, d, 'bf')
            print('case: %s f:%d, members %s' % (F.TYPES[j['case']['type']][0], j['case']['width'], j['case']['members']))
            print('lines: N <case> <member> - - <object bytes after storing all-ones into the member>;')
            print('       V <case> <n> <assignment value> <value read back> <object bytes after the store>')
            print('gcc:\n' + out)
            ref = F.parse_out(out)
            bad = 0
            for e in ENGINES:
                rc, o, err = run_c2m(c2m, src, e, d)
                same = F.parse_out(o) == ref
                bad += not same
                print('%-8s %s' % (ename(e), 'same as gcc' if same else 'DIFFERS:\n' + o + err[-200:]))
            return 1 if bad else 0
        if j.get('kind') == 'abi':
            import gen_c07_abi as A
            unit = abi_unit_from_json(j['unit'])
            ref, res, why = abi_run(c2m, unit, d, 'rp', only=j.get('only'))
            if ref is None:
                print('the unit is not a valid test any more:', why)
                return 1
            for k in (j.get('only') or range(len(unit))):
                print('shape %d: %s' % (k, A.describe(unit[k])))
            print('lines: <shape> <call> <seed> <checksum of all leaves the callee / caller saw>; lib_ = gcc-built callee, loc_ = c2m callee')
            bad = abi_bad_lines(ref, res)
            for k in sorted(bad):
                for en in sorted(bad[k]):
                    for kind, a, b in bad[k][en][:6]:
                        print('%-8s gcc `%s`   c2m `%s`' % (en, a, b))
            print('differences: %d' % sum(len(v) for b in bad.values() for v in b.values()))
            return 1 if bad else 0
        if j.get('kind') == 'prog':
            build_ext(d)
            src = os.path.join(d, 'prog.c')
            open(src, 'w').write(j['program'])
            use_ext = 'ext_' in j['program']
            ref, why = reference_run(src, d, 'prog', use_ext)
            if ref is None:
                print('the program is not a valid test any more:', why)
                return 1
            res = c2m_runs(c2m, src, d, use_ext)
            print('gcc      rc=%d stdout=%r' % (ref[0], ref[1][-120:]))
            for e in sorted(res):
                print('%-8s rc=%d stdout=%r %s' % (e, res[e][0], res[e][1][-120:], '' if (res[e][0], res[e][1]) == ref else '   <-- differs'))
            return 1 if prog_disagreements(ref, res) else 0
    print('nothing to replay in', path)
    return 1

# C20: the C code emitted by mir2c computes what the MIR module computes.
#   proofs: coq/Properties_C20.v over the template table REGENERATED from mir2c/mir2c.c
#   correspondence: (a) one/two-instruction functions in every operand shape -> mir2c -> gcc -> run,
#   compared with the extracted DocSpec; (b) generated whole modules (data sections, protos, calls to
#   MIR and external functions, switch, loops, overflow branches) -> mir2c -> gcc -> run, compared with
#   MIR_interp on the same inputs and external-call trace; termination = watchdog.
import os, sys, json, re, shutil, tempfile
import vlib
import tr_opcodes, tr_c20_mir2c
import gen_c02_cases as G
from checks import c02

LEVEL = 'proof'


def workdir():
    d = os.path.join(vlib.BUILD, 'c20-work-%d' % os.getpid())
    os.makedirs(d, exist_ok=True)
    return d


def build(chk):
    # the DocSpec oracle driver (Extract_C02) also contains the regenerated interpreter / GVN tables
    import tr_c02_interp, tr_c02_gvn
    tr_c02_interp.main()
    tr_c02_gvn.main()
    exe = vlib.build_harness('c20_insn', ['c02_insn.c'], units=('mir', 'mir-gen', 'mir2c'), defs=['-DC02_WITH_MIR2C'])
    oracle = c02.Oracle(c02.private_copy(vlib.ocaml_build('c02', 'Extract_C02', ['c02x'], 'driver_c02.ml')))
    model = c02.Oracle(c02.private_copy(vlib.ocaml_build('c20', 'Extract_C20', ['c20x'], 'driver_c20.ml')))
    return exe, oracle, model


def translate_and_run(exe, lines, wd, tag, cflags=('-O1',)):
    """mir2c + gcc + run; returns (results {id: {'c': token}}, problems [(id or None, text)])"""
    cfile = os.path.join(wd, tag + '.c')
    so = os.path.join(wd, tag + '.so')
    problems = []
    rc, out, err = vlib.sh([exe, 'emitc', cfile], input=('\n'.join(lines) + '\n').encode(), timeout=900)
    if rc == 124:
        return {}, [(None, 'mir2c did not terminate within 900 s on %d one-instruction functions' % len(lines))]
    if 'cannot map the fixed-address blocks' in out:
        raise vlib.BuildError('harness c02_insn emitc: the fixed addresses of the C20 data block are occupied in this process')
    if rc != 0:
        m = re.search(r'^(\S+) ERR\((.*)\)', out, re.M)
        return {}, [(m.group(1) if m else None, 'mir2c failed: %s' % (out + err)[-300:])]
    rc, out, err = vlib.sh(['gcc', '-std=gnu11', '-w', '-fPIC', '-shared'] + list(cflags) + [cfile, '-o', so], timeout=1800)
    if rc != 0:
        # pair each error with the function it is reported in
        cur, per = None, {}
        for l in err.split('\n'):
            m = re.search(r"In function .c20_(\w+).", l)
            if m:
                cur = m.group(1)
            elif 'error' in l and cur is not None and cur not in per:
                per[cur] = re.sub(r'^\S+?:\d+:\d+:\s*', '', l.strip())
        if not per:
            first = [l for l in err.split('\n') if 'error' in l][:2]
            return {}, [(None, 'gcc rejects the translation: %s' % ' | '.join(first))]
        return {}, [(i, 'gcc rejects the translation: %s' % t) for i, t in per.items()]
    rc, out, err = vlib.sh([exe, 'runso', so], input=('\n'.join(lines) + '\n').encode(), timeout=900)
    if 'cannot map the fixed-address blocks' in out:
        raise vlib.BuildError('harness c02_insn runso: the fixed addresses of the C20 data block are occupied in this process')
    res = {}
    for l in out.split('\n'):
        if l.strip():
            cid, r = G.parse_result_line(l)
            res[cid] = r
    if rc != 0:
        done = set(res)
        nxt = next((l.split()[0] for l in lines if l.split()[0] not in done), None)
        problems.append((nxt, 'the compiled translation crashed (rc=%d)' % rc))
    return res, problems


def insn_level(chk, exe, oracle, infos, lines, wd, tag='insn', cflags=('-O1',)):
    cases = [G.parse_case(l) for l in lines]
    c02.expectations(cases, infos, oracle)
    runnable = [c for c in cases if c['exp'] is not None]
    # long double instructions have no DocSpec value: the reference is the interpreter of the same tree (the property's own
    # wording) and the host compiler's x87 arithmetic (harness "native"), any NaN ~ any NaN
    ldcases = [c for c in runnable if c['exp'] == 'nodoc']
    ldref = c02.run_harness(exe, [c['line'] for c in ldcases]) if ldcases else {}
    byid = {c['id']: c for c in runnable}
    bad = []
    todo = [c['line'] for c in runnable]
    res = {}
    for attempt in range(4):
        res, problems = translate_and_run(exe, todo, wd, tag, cflags)
        if not problems:
            break
        drop = set()
        for cid, text in problems:
            c = byid.get(cid)
            if c is None:
                bad.append((dict(line='(whole batch)', op='batch', dst=dict(kind='-'), x=dict(kind='-'), y=dict(kind='-'), br=None), 'mir2c', text))
                return bad
            bad.append((c, 'mir2c', text))
            drop.add(c['line'])
        todo = [l for l in todo if l not in drop]
    for c in runnable:
        if c['line'] not in todo:
            continue
        shape = c['dst']['kind'] + c['x']['kind'] + c['y']['kind']
        chk.count(('insn', c['line'].split(None, 1)[1]), nontrivial=True)
        chk.dist('opcodes', c['op'])
        chk.dist('shapes', shape)
        r = res.get(c['id'])
        tok = r.get('c') if r else None
        obs = G.parse_obs(tok) if tok else None
        if obs is None:
            bad.append((c, 'mir2c', 'no result from the compiled translation: %s' % tok))
            continue
        if c['exp'] == 'nodoc':
            ref = ldref.get(c['id'], {})
            if not ref.get('native'):
                # no host-compiler result: the operation is undefined in C as in MIR (LD2I out of range): nothing to compare
                chk.dist('oracle', 'long-double-undefined-skipped')
                continue
            chk.dist('oracle', 'interp+native-long-double')
            for which in ('interp', 'native'):
                rt = ref.get(which)
                robs = G.parse_obs(rt) if rt else None
                if robs is not None and not c02.ld_same(c, obs, robs):
                    bad.append((c, 'mir2c', 'long double result of the compiled translation %s differs from %s %s' % (
                        tok, 'the interpreter\'s' if which == 'interp' else 'the host compiler\'s', rt)))
                    break
            continue
        m = c02.check_obs(c, obs)
        if m:
            bad.append((c, 'mir2c', m))
    return bad


# ---------------------------------------------------------------- memory-operand address forms (round 3)
# out_op prints the address of a memory operand as a C expression built from the parts that are present: displacement,
# base register, index register * scale.  Every combination is a separate path of the printing code, so the sweep below is
# the full product  form {b d bd bi bid i id} x scale {1 2 4 8} x displacement class x operand position {source of a
# move, destination of a move, second source of a binary instruction} with the memory type rotating, plus the full product
# memory type x form x position; base-less forms (absolute addresses) in both the low and the high fixed block.
ADDR_DISPS = [8, -8, 24, 127, 128, -128, -129, 1000, 0x7fffffff, -0x80000000, 0x80000000, -0x80000001, 0xffffffff, 1 << 32,
              (1 << 33) + 8, -(1 << 40) + 3, (1 << 63) - 1, -(1 << 63), (1 << 63) - 8, -(1 << 63) + 16]
ADDR_DISP_CLASSES = [[8, 24, 127, 128, 1000], [-8, -128, -129], [0x7fffffff, 0x80000000, 0xffffffff, 1 << 32, (1 << 33) + 8],
                     [-0x80000000, -0x80000001, -(1 << 40) + 3], [(1 << 63) - 1, (1 << 63) - 8], [-(1 << 63), -(1 << 63) + 16]]
ADDR_INDEXES = [0, 1, -1, 3, -5, 1000, 0x7fffffff, -0x80000000, 1 << 32, (1 << 61) + 1, -(1 << 61), 3 * (1 << 61) - 7]
ALL_MEM_TYPES = G.MEM_INT_TYPES + ['f', 'd', 'ld']
TYPE_KIND = {'f': 'f', 'd': 'd', 'ld': 'l'}
KIND_OPS = {'i': ('MOV', ['ADD', 'SUB', 'XOR', 'ULT', 'MULS']), 'f': ('FMOV', ['FADD', 'FLT']), 'd': ('DMOV', ['DSUB', 'DGE']),
            'l': ('LDMOV', ['LDADD', 'LDEQ'])}


def address_form_lines(chk, infos, quick):
    rng = chk.rng('addrforms')
    byname = {i.name: i for i in infos}
    lines = []

    def memtext(ty, form, scale, disp, val):
        index = rng.choice(ADDR_INDEXES) if 'i' in form else 0
        return 'm%s,%s,%d,%d,%d:%x' % (ty, form, scale, disp if 'd' in form else 0, index, val & ((1 << (8 * G.TYPE_SIZE[ty])) - 1))

    def add(ty, form, scale, disp, pos, hi):
        kind = TYPE_KIND.get(ty, 'i')
        mov, bins = KIND_OPS[kind]
        cid = 'A%d' % len(lines)
        v = G.rand_val(kind, rng)
        if pos == 'x':
            l = G.gen_case(byname[mov], rng, cid, vals=[v], shapes=['m'], dst='r', c20=True, optexts=[memtext(ty, form, scale, disp, v)], press=0)
        elif pos == 'dst':
            l = G.gen_case(byname[mov], rng, cid, vals=[v], shapes=['r'], dst=memtext(ty, form, scale, disp, 0).rsplit(':', 1)[0], c20=True, press=0)
        else:
            info = byname[rng.choice(bins)]
            a = G.rand_val(kind, rng)
            if rng.random() < 0.25:      # both sources in memory, each with its own form
                f2 = rng.choice(G.FORMS)
                xt = memtext(ty, f2, rng.choice([1, 2, 4, 8]), rng.choice(ADDR_DISPS), a)
                shapes = ['m', 'm']
            else:
                xt, shapes = 'r:%x' % a, ['r', 'm']
            l = G.gen_case(info, rng, cid, vals=[a, v], shapes=shapes, dst='r', c20=True, optexts=[xt, memtext(ty, form, scale, disp, v)], press=0,
                           far=False)
        l = l.replace(' hiblk=1', '') + (' hiblk=1' if hi else '')
        chk.dist('address_forms', '%s*%d' % (form, scale) if 'i' in form else form)
        chk.dist('address_positions', pos)
        chk.dist('address_types', ty)
        lines.append(l)

    k = 0
    for form in G.FORMS:
        for scale in ([1, 2, 4, 8] if 'i' in form else [1]):
            if 'd' in form and form != 'd':
                disps = [rng.choice(c) for c in ADDR_DISP_CLASSES] if quick else ADDR_DISPS
            else:
                disps = [0]
            for disp in disps:
                for pos in ('x', 'dst', 'y'):
                    for hi in ((0, 1) if 'b' not in form else (0,)):
                        for _ in range(1 if quick else 3):
                            add(ALL_MEM_TYPES[k % len(ALL_MEM_TYPES)], form, scale, disp, pos, hi)
                            k += 5          # coprime with the number of types: every type comes up in every neighbourhood
    for ty in ALL_MEM_TYPES:
        for form in G.FORMS:
            for pos in ('x', 'dst', 'y'):
                add(ty, form, rng.choice([1, 2, 4, 8]), rng.choice(ADDR_DISPS), pos, rng.random() < 0.5 and 'b' not in form)
    return lines


def memory_form_census(chk, lines):
    """what the whole instruction-level batch (random shapes + sweep) exercises: form x scale of every memory operand"""
    for l in lines:
        for m in re.finditer(r'\bm(\w+),([bid]+),(\d),(-?\d+),', l):
            form, scale, disp = m.group(2), m.group(3), int(m.group(4))
            chk.dist('memory_operand_forms', (form + '*' + scale) if 'i' in form else form)
            if 'd' in form and form != 'd':
                chk.dist('memory_operand_disp', 'negative' if disp < 0 else 'beyond-32-bits' if disp >= 1 << 31 else 'small')


def report(chk, bad, limit=14):
    seen = set()
    perclass = {}
    for c, engs, text in bad:
        shape = c['dst']['kind'] + c['x']['kind'] + c['y']['kind']
        sig = 'mir2c:%s:%s' % (c['op'] + ('+' + c['br'] if c.get('br') else ''), shape)
        cls = re.sub(r'[0-9a-f]{4,}', '#', text)[:60] if 'gcc rejects' in text else c['op']
        if sig in seen or perclass.get(cls, 0) >= 2:
            continue
        seen.add(sig)
        perclass[cls] = perclass.get(cls, 0) + 1
        if len(seen) > limit:
            break
        chk.finding(sig, dict(case=c['line'], detail=text, documented=('%x' % c['d']) if 'd' in c else None),
                    'the C translation of %s disagrees with the documented MIR result: %s  [case: %s]' % (c['op'], text[:300], c['line']))


def run(chk):
    quick = chk.tier == 'quick'
    ops = tr_opcodes.opcodes()
    problems = []
    if ops != tr_opcodes.committed():
        problems.append('opcode enumeration of mir.h differs from coq/Mir/Opcode.v')
    with vlib.Lock(c02.GENLOCK):
        tr_c20_mir2c.main()
        probed_notes = list(tr_c20_mir2c.NOTES)
        r = chk.prove()
        exe, oracle, model = build(chk)
    for ax in sorted(set(re.findall(r'^((?:ClassicalDedekindReals|FunctionalExtensionality|Classical_Prop)\.\w+)', r['log'], re.M))):
        t = 'axiom (Print Assumptions): ' + ax     # multi-line axiom types are not caught by vlib's parser
        if t not in chk.cov['trusted_base']:
            chk.cov['trusted_base'].append(t)
    infos = G.opcode_infos(oracle.ask, ops)
    if probed_notes:
        chk.cov['rows_read_from_output'] = probed_notes
        chk.cov['trusted_base'].append('mir2c table: ' + '; '.join(probed_notes) + ' (harness/c02_insn.c mode probe)')
        chk.log('; '.join(probed_notes)[:300])
    chk.cov['trusted_base'] += ['translator tools/tr_c20_mir2c.py (symbolic execution of the printing code of out_insn; unknown text => SUnknown => theorem fails)',
                                'translator tools/tr_c20_addr.py (symbolic execution of the MIR_OP_MEM case of out_op for every address form and memory type, '
                                'cross-checked against the text the checked tree prints for probe operands; unreadable text => AUnknown / missing row => theorem fails)',
                                'C20/AddrPrint.v aeval: the displacement constant typed int / long / __int128 as gcc reads it, int64_t register variables, '
                                '+ * << at the common type with wrap-around, integer -> pointer conversion = low 64 bits',
                                'Mir/CExpr.v: C11 typing + two\'s-complement machine semantics, GCC __builtin_*_overflow as documented by GCC',
                                'gcc 12 compiling the emitted C (-O1; thorough: -O0/-O2 and UBSan); extraction: ExtrOcamlBasic only',
                                'harness/c02_insn.c (mir2c + dlopen runner), harness/c20_mod.c, ocaml/driver_c02.ml, ocaml/driver_c20.ml']
    wd = workdir()
    try:
        lines = []
        corpus = os.path.join(vlib.VERIF, 'corpus', 'c20.txt')
        if os.path.exists(corpus):
            lines += [l.strip() for l in open(corpus) if l.strip() and not l.startswith('#')]
        lines += c02.generate(chk, infos, quick, c20=True)
        lines += address_form_lines(chk, infos, quick)
        memory_form_census(chk, lines)
        chk.cov['rule'] = ('(a) one/two-instruction MIR functions in every operand shape -> mir2c -> gcc -> dlopen -> run, result compared with the '
                          'extracted DocSpec on the defined bits; (b) generated single-result modules -> mir2c -> gcc -> run vs MIR_interp '
                          '(results + external call trace); distinct by case text')
        for l in lines[:3]:
            chk.sample(l)
        bad = insn_level(chk, exe, oracle, infos, lines, wd)
        if not quick:
            bad += insn_level(chk, exe, oracle, infos, lines[::3], wd, tag='insnO2', cflags=('-O2',))
            bad += insn_level(chk, exe, oracle, infos, lines[1::3], wd, tag='insnO0', cflags=('-O0',))
        report(chk, bad)
        modbad = 0
        try:
            from checks import c20_modules
            modbad = c20_modules.run_modules(chk, wd, quick)
        except ImportError:
            pass
        for p in problems:
            chk.finding('tie:' + p[:40], dict(problem=p), p, no_input=True)
        if not r['ok'] and not bad and not modbad:
            if not model_search(chk, exe, oracle, model, infos, wd):
                chk.proof_broken(r, searched='%d translated one-instruction functions agreed with DocSpec; template rows evaluated on the grid' % len(lines))
    finally:
        shutil.rmtree(wd, ignore_errors=True)


def model_search(chk, exe, oracle, model, infos, wd):
    """the proof broke: evaluate each regenerated template against DocSpec on the grid; a model-level
    witness is then pushed through the real mir2c + gcc"""
    rng = chk.rng('search')
    dreq, mreq, meta = [], [], []
    for info in infos:
        if not (G.testable(info) or info.name == 'LDMOV') or ('l' in (info.res + info.args) and info.name != 'LDMOV'):
            continue
        grids = [G.grid_for(k, rng, info.name, i) for i, k in enumerate(info.args)]
        for j in range(200):
            vals = [rng.choice(g) for g in grids]
            if j < 40 and len(vals) == 2:
                vals[1] = vals[0]        # equal operands: the >= / > boundary
            hx = ' '.join('%x' % v for v in vals)
            kind = 'ovf' if info.name in G.OVF else 'br' if info.res == '-' else 'sem'
            dreq.append('%s %d %s' % (kind, info.num, hx))
            mreq.append('mrow %d %s' % (info.num, hx))
            meta.append((info, vals))
    dans, mans = oracle.ask(dreq), model.ask(mreq)
    lines, seen = [], set()
    for (info, vals), d, m in zip(meta, dans, mans):
        d, m = d.split(), m.split()
        if d[0] == 'N' or info.name in seen:
            continue
        wrong = m[0] in ('N', 'NOROW')
        if not wrong and d[0] == 'S':
            wrong = m[0] != 'S' or (int(d[1], 16) ^ int(m[1], 16)) & info.mask
        if not wrong and d[0] == 'B':
            wrong = m[0] != 'B' or d[1] != m[1]
        if not wrong and d[0] == 'O':
            flags = {m[i + 1]: m[i + 2] for i in range(1, len(m) - 2, 3)} if m[0] == 'O' else {}
            need = ([('8', d[2])] if info.ovfdef[0] == '1' else []) + ([('9', d[3])] if info.ovfdef[1] == '1' else [])
            wrong = m[0] != 'O' or any(flags.get(k) != v for k, v in need)
        if wrong:
            seen.add(info.name)
            brs = (['BO', 'BNO'] if info.ovfdef[0] == '1' else []) + (['UBO', 'UBNO'] if info.ovfdef[1] == '1' else [])
            for br in (brs or [None]):
                lines.append(G.gen_case(info, rng, 'w%d' % len(lines), vals=vals, shapes=['r'] * len(vals), dst='r', br=br, c20=True))
    if not lines:
        return False
    bad = insn_level(chk, exe, oracle, infos, lines, wd, tag='witness')
    if bad:
        report(chk, bad)
        return True
    return False


def replay(chk, path):
    j = json.load(open(path))
    line = j['replay'].get('case')
    if not line or line.startswith('('):
        print('replay file names a broken proof obligation / tie / batch:', j.get('what'))
        return 1
    if line.lstrip().startswith('module'):
        from checks import c20_modules
        return c20_modules.replay_module(chk, j)
    ops = tr_opcodes.opcodes()
    with vlib.Lock(c02.GENLOCK):
        exe, oracle, model = build(chk)
    infos = G.opcode_infos(oracle.ask, ops)
    wd = workdir()
    try:
        bad = insn_level(chk, exe, oracle, infos, [line], wd, tag='replay')
    finally:
        shutil.rmtree(wd, ignore_errors=True)
    print('case:', line)
    for c, engs, text in bad:
        print('FAILS:', text)
    return 1 if bad else 0

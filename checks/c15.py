# C15: ill-formed IR is rejected through the error callback with a specific code; well-formed IR is
# accepted.  Coq: coq/C15/*.v, theorems in coq/Properties_C15.v.  Tie: (1) the operand-mode table
# coq/gen/InsnDescs.v is regenerated from the current mir.c before the proofs are re-checked;
# (2) the extracted checker model and the real construction API (harness/c15_api.c) are run on the
# same exhaustive case list and must agree on verdict, error code and failing step; (3) the
# extracted documentation rules give an independent verdict for every in-domain case: the search
# for a concrete failing input when a proof or the tie breaks.
import os, sys, json, itertools, subprocess
import vlib

sys.path.insert(0, os.path.join(vlib.VERIF, 'tools'))
import tr_c15_insn_descs
import tr_opcodes

LEVEL = 'proof'

TYPES = ['i8', 'u8', 'i16', 'u16', 'i32', 'u32', 'i64', 'u64', 'f', 'd', 'ld', 'p',
         'blk0', 'blk1', 'blk2', 'blk3', 'blk4', 'rblk', 'undef', 'bound']
BLK = ['blk0', 'blk1', 'blk2', 'blk3', 'blk4', 'rblk']
DECL = 'reg i64 ri ; reg f rf ; reg d rd ; reg ld rl'
REGREFS = ['-', 'ri', 'rf', 'rd', 'rl', '#999']
REF_KINDS = ['func', 'import', 'export', 'forward', 'data', 'refdata', 'lrefdata', 'exprdata', 'bss']
FILL = {'OP_INT': 'r:ri', 'OP_FLOAT': 'r:rf', 'OP_DOUBLE': 'r:rd', 'OP_LDOUBLE': 'r:rl', 'OP_LABEL': 'L',
        'OP_REG': 'r:rd', 'OP_UNDEF': 'r:ri'}
OVF = ['addo', 'addos', 'subo', 'subos', 'mulo', 'mulos', 'umulo', 'umulos']
OVF_BR = ['bo', 'ubo', 'bno', 'ubno']
VARIADIC = ['call', 'inline', 'jcall', 'switch', 'ret', 'unspec', 'use', 'phi']


def mem_kinds(full):
    """memory operands: type x displacement sign x base x index (each: none, a register of each
    type, an undeclared register number)"""
    out = []
    rich = TYPES if full else ['i64', 'u8', 'd', 'blk1', 'rblk', 'undef']
    for t in TYPES:
        if t in rich:
            for disp in ('0', '-8') + (('16',) if full else ()):
                for b in REGREFS:
                    for x in REGREFS:
                        out.append('m:%s:%s:%s:%s' % (t, disp, b, x))
        else:
            out += ['m:%s:0:ri:-' % t, 'm:%s:8:-:-' % t, 'm:%s:0:-:rf' % t, 'm:%s:-8:ri:ri' % t]
    return out


def operand_kinds(full, proto='p0'):
    ks = ['r:ri', 'r:rf', 'r:rd', 'r:rl', 'rx:999', 'rx:0', 'i:1', 'i:-5', 'u:1', 'u:18446744073709551615', 'f', 'd',
          'ld', 'L', 's']
    ks += ['ref:%s' % k for k in REF_KINDS] + ['ref:proto:%s' % proto]
    return ks + mem_kinds(full)


def fixed_templates(rows):
    """opcode name -> list of valid filler operands, for the rows with a fixed operand count"""
    t = {}
    for r in rows:
        if r[0] != 'row':
            continue
        _, code, name, modes = r
        if name in VARIADIC or name in ('label', 'invalid-insn'):
            continue
        ops = []
        for m, _out in modes:
            if m == 'OP_BOUND':
                break
            ops.append(FILL.get(m, 'r:ri'))
        if name == 'va_arg' and len(ops) == 3:
            ops[2] = 'm:i64:0:ri:-'
        if name == 'prset' and len(ops) == 2:
            ops[1] = 'i:1'
        if name in ('prbeq', 'prbne') and len(ops) == 3:
            ops[2] = 'i:1'
        t[name] = ops
    return t


def ctx_for(name):
    """steps before the instruction: function header, registers, what the opcode needs around it"""
    hdr = 'proto p0 0 1 i64 1 i64 ; func 1 0 1 i64:q ; ' + DECL
    if name in OVF_BR:
        hdr += ' ; insn addo r:ri r:ri r:ri'
    return hdr


def case_insn(name, ops, hdr=None):
    return '%s ; insn %s %s ; finish' % (hdr or ctx_for(name), name, ' '.join(ops))


def gen_fixed(rows, full, rng, nvec):
    """every fixed-arity opcode x operand position x operand kind, arity +-1 / 0, random vectors"""
    cases = []
    tmpl = fixed_templates(rows)
    kinds = operand_kinds(full)
    small = operand_kinds(False)
    for name, ops in tmpl.items():
        cases.append(('valid', case_insn(name, ops)))
        for i in range(len(ops)):
            for k in kinds:
                o = list(ops)
                o[i] = k
                cases.append(('pos', case_insn(name, o)))
        cases.append(('arity', case_insn(name, ops[:-1]) if ops else case_insn(name, ['i:1'])))
        cases.append(('arity', case_insn(name, ops + ['i:1'])))
        cases.append(('arity', case_insn(name, ops + [ops[-1]] if ops else ['L'])))
        cases.append(('arity', case_insn(name, [])))
        cases.append(('new', '%s ; new %s %s ; finish' % (ctx_for(name), name, ' '.join(ops))))
        for _ in range(nvec):
            o = [rng.choice(small) if rng.random() < 0.6 else ops[j] for j in range(len(ops))]
            cases.append(('vec', case_insn(name, o)))
    return cases


def gen_variadic(full, rng, nrand):
    cases = []
    kinds = operand_kinds(False)
    kinds_small = ['r:ri', 'r:rf', 'r:rd', 'r:rl', 'rx:999', 'i:1', 'u:1', 'f', 'd', 'ld', 'L', 's', 'ref:func', 'ref:data',
                   'm:i64:0:ri:-', 'm:d:0:ri:-', 'm:u8:0:-:ri', 'm:blk0:16:ri:-', 'm:rblk:16:ri:-', 'm:undef:0:ri:-',
                   'm:i64:0:rf:-', 'm:i64:0:#999:-']
    fill_of = {'i8': 'r:ri', 'u8': 'r:ri', 'i16': 'r:ri', 'u16': 'r:ri', 'i32': 'r:ri', 'u32': 'r:ri', 'i64': 'r:ri',
               'u64': 'r:ri', 'p': 'r:ri', 'f': 'r:rf', 'd': 'r:rd', 'ld': 'r:rl'}
    # ---- ret: result type lists x operand lists
    rts = ['i64', 'i32', 'u8', 'p', 'f', 'd', 'ld']
    for n in range(0, 4):
        combos = list(itertools.product(rts, repeat=n)) if n <= 2 else [tuple(rng.choice(rts) for _ in range(n)) for _ in range(12)]
        for res in combos:
            hdr = 'proto p0 0 1 i64 1 i64 ; func 0 %d %s 0 ; %s' % (n, ' '.join(res), DECL)
            good = [fill_of[t] for t in res]
            cases.append(('ret', case_insn('ret', good, hdr)))
            cases.append(('ret', case_insn('ret', good + ['r:ri'], hdr)))
            if good:
                cases.append(('ret', case_insn('ret', good[:-1], hdr)))
                for i in range(n):
                    for k in (kinds if n == 1 else kinds_small):
                        o = list(good)
                        o[i] = k
                        cases.append(('ret', case_insn('ret', o, hdr)))
    for t in TYPES:  # result types of the function itself
        cases.append(('ret', 'func 0 1 %s 0 ; %s ; insn ret r:ri ; finish' % (t, DECL)))
    # ---- switch
    hdr = 'proto p0 0 1 i64 1 i64 ; func 0 0 0 ; ' + DECL
    for n in (0, 1, 2, 3, 6):
        ops = (['r:ri'] + ['L'] * (n - 1)) if n else []
        cases.append(('switch', case_insn('switch', ops, hdr)))
        for i in range(n):
            for k in kinds:
                o = list(ops)
                o[i] = k
                cases.append(('switch', case_insn('switch', o, hdr)))
    # ---- calls: systematic prototypes
    ptypes = ['i64', 'i32', 'u8', 'p', 'f', 'd', 'ld', 'blk0:16', 'blk1:8', 'blk4:24', 'rblk:16']

    def arg_fill(pt):
        t, _, sz = pt.partition(':')
        return 'm:%s:%s:ri:-' % (t, sz) if t in BLK else fill_of[t]
    protos = []
    for nres in range(0, 3):
        for res in (itertools.product(['i64', 'i32', 'f', 'd', 'ld'], repeat=nres) if nres < 2 else [('i64', 'd'), ('ld', 'u8'), ('f', 'f')]):
            for nargs in range(0, 4):
                if nargs <= 1:
                    argsets = list(itertools.product(ptypes, repeat=nargs))
                else:
                    argsets = [tuple(rng.choice(ptypes) for _ in range(nargs)) for _ in range(6)]
                for args in argsets:
                    for va in (0, 1):
                        protos.append((va, list(res), list(args)))
    if not full:
        protos = [p for j, p in enumerate(protos) if j % 3 == 0 or len(p[2]) <= 1]
    for code in ('call', 'inline', 'jcall'):
        for va, res, args in protos:
            pdef = 'proto pp %d %d %s %d %s' % (va, len(res), ' '.join(res), len(args), ' '.join(args))
            hdr = '%s ; func 0 0 0 ; %s' % (pdef, DECL)
            good = ['ref:proto:pp', 'ref:func'] + [fill_of[t] for t in res] + [arg_fill(a) for a in args]
            cases.append(('call', case_insn(code, good, hdr)))
            cases.append(('call', case_insn(code, good[:-1], hdr)))
            cases.append(('call', case_insn(code, good + ['r:ri'], hdr)))
            if code == 'call' or (va, len(res), len(args)) in ((0, 1, 1), (1, 0, 1), (0, 0, 2)):
                for i in range(len(good)):
                    for k in (kinds_small if i >= 2 else kinds_small + ['ref:proto:pp', 'ref:import', 'ref:bss']):
                        o = list(good)
                        o[i] = k
                        cases.append(('call', case_insn(code, o, hdr)))
                if va:
                    for k in kinds_small + ['m:blk2:-8:ri:-', 'm:blk3:8:rf:-', 'm:rblk:8:-:-', 'm:bound:0:ri:-']:
                        cases.append(('call', case_insn(code, good + [k], hdr)))
                        cases.append(('call', case_insn(code, good + ['r:ri', k], hdr)))
    # ---- block parameter kind x argument kind x size equal / unequal
    for pk in BLK:
        for ak in BLK + ['i64', 'undef']:
            for psz, asz in ((24, 24), (24, 16), (16, 24), (0, 0), (8, -8)):
                for code in ('call', 'inline', 'jcall'):
                    for va in (0, 1):
                        hdr = 'proto pp %d 0 1 %s:%d ; func 0 0 0 ; %s' % (va, pk, psz, DECL)
                        for b, x in (('ri', '-'), ('-', 'ri'), ('rf', '-'), ('ri', '#999')):
                            cases.append(('blk', case_insn(code, ['ref:proto:pp', 'ref:func', 'm:%s:%d:%s:%s' % (ak, asz, b, x)], hdr)))
    for ak in BLK:  # block memory as a result / as the function address / in a two-parameter mix
        hdr = 'proto pp 0 1 i64 1 i64 ; func 0 0 0 ; ' + DECL
        cases.append(('blk', case_insn('call', ['ref:proto:pp', 'ref:func', 'm:%s:8:ri:-' % ak, 'r:ri'], hdr)))
        cases.append(('blk', case_insn('call', ['ref:proto:pp', 'm:%s:8:ri:-' % ak, 'r:ri', 'r:ri'], hdr)))
        hdr = 'proto pp 0 0 2 i64 %s:8 ; func 0 0 0 ; %s' % (ak, DECL)
        cases.append(('blk', case_insn('call', ['ref:proto:pp', 'ref:func', 'm:%s:8:ri:-' % ak, 'r:ri'], hdr)))
        cases.append(('blk', case_insn('call', ['ref:proto:pp', 'ref:func', 'r:ri', 'm:%s:8:ri:-' % ak], hdr)))
    # first operand of a call: every kind
    hdr = 'proto pp 0 0 0 ; func 0 0 0 ; ' + DECL
    for code in ('call', 'inline', 'jcall'):
        for k in kinds_small + ['ref:%s' % r for r in REF_KINDS]:
            cases.append(('call', case_insn(code, [k, 'ref:func'], hdr)))
        cases.append(('call', case_insn(code, [], hdr)))
        cases.append(('call', case_insn(code, ['ref:proto:pp'], hdr)))
    # prototype result / parameter types
    for t in TYPES:
        cases.append(('proto', 'proto pp 0 1 %s 0 ; func 0 0 0 ; finish' % t))
        cases.append(('proto', 'proto pp 0 0 1 %s ; func 0 0 0 ; %s ; insn call ref:proto:pp ref:func r:ri ; finish' % (t, DECL)))
    # ---- unspec
    for va, res, args in [p for j, p in enumerate(protos) if j % 7 == 0][:60]:
        pdef = 'unspec 0 %d %d %s %d %s' % (va, len(res), ' '.join(res), len(args), ' '.join(args))
        hdr = '%s ; func 0 0 0 ; %s' % (pdef, DECL)
        good = ['i:0'] + [fill_of[t] for t in res] + [arg_fill(a) for a in args]
        cases.append(('unspec', case_insn('unspec', good, hdr)))
        cases.append(('unspec', case_insn('unspec', good[:-1], hdr)))
        cases.append(('unspec', case_insn('unspec', good + ['r:ri'], hdr)))
        for i in range(len(good)):
            for k in kinds_small[:14]:
                o = list(good)
                o[i] = k
                cases.append(('unspec', case_insn('unspec', o, hdr)))
    for k in ['i:1', 'i:-1', 'u:0', 'r:ri', 'L']:
        cases.append(('unspec', case_insn('unspec', [k], 'unspec 0 0 0 0 ; func 0 0 0 ; ' + DECL)))
    # ---- random call vectors
    for _ in range(nrand):
        va, res, args = rng.choice(protos)
        code = rng.choice(['call', 'inline', 'jcall'])
        pdef = 'proto pp %d %d %s %d %s' % (va, len(res), ' '.join(res), len(args), ' '.join(args))
        hdr = '%s ; func 0 0 0 ; %s' % (pdef, DECL)
        good = ['ref:proto:pp', 'ref:func'] + [fill_of[t] for t in res] + [arg_fill(a) for a in args]
        o = [rng.choice(kinds_small) if rng.random() < 0.3 else g for g in good]
        if rng.random() < 0.4:
            o += [rng.choice(kinds_small) for _ in range(rng.randint(1, 3))]
        cases.append(('callvec', case_insn(code, o, hdr)))
    return cases


def gen_function_level(rng, full, tmpl=None):
    cases = []
    hdr = 'func 0 0 0 ; ' + DECL
    seps = ['insn mov r:ri r:ri', 'insn mov m:i64:0:ri:- r:ri', 'insn mov r:ri m:i64:0:ri:-', 'insn mov r:ri i:1',
            'insn add r:ri r:ri r:ri', 'insn dmov r:rd r:rd', 'insn fmov r:rf r:rf', 'insn mov m:u8:0:ri:- r:ri']
    prods = OVF + ['add', 'mul', 'adds', 'umod']
    for br in OVF_BR:
        cases.append(('ovf', '%s ; insn %s L ; finish' % (hdr, br)))
        for s in seps:
            cases.append(('ovf', '%s ; %s ; insn %s L ; finish' % (hdr, s, br)))
        for p in prods:
            pi = 'insn %s r:ri r:ri r:ri' % p
            cases.append(('ovf', '%s ; %s ; insn %s L ; finish' % (hdr, pi, br)))
            for s in seps:
                cases.append(('ovf', '%s ; %s ; %s ; insn %s L ; finish' % (hdr, pi, s, br)))
                for s2 in seps[:4]:
                    cases.append(('ovf', '%s ; %s ; %s ; %s ; insn %s L ; finish' % (hdr, pi, s, s2, br)))
            cases.append(('ovf', '%s ; %s ; insn %s L ; insn %s L ; finish' % (hdr, pi, br, br)))
        # every fixed-arity opcode (a valid instance) as the separator between producer and branch:
        # only register moves / stores of registers may stand there (round 2: a mutation that also
        # skipped ldmov went unnoticed with the hand-picked separator list)
        for name, ops in sorted((tmpl or {}).items()):
            sep = 'insn %s %s' % (name, ' '.join(ops))
            cases.append(('ovfsep', '%s ; reg f rf ; reg d rd ; reg ld rl ; insn addo r:ri r:ri r:ri ; %s ; insn %s L ; finish' % (
                'func 0 0 0 ; reg i64 ri', sep, br)))
    # ret / jret rules
    for nres, rt in ((0, ''), (1, 'i64'), (2, 'i64 d')):
        h = 'func 0 %d %s 0 ; %s' % (nres, rt, DECL)
        good = {0: '', 1: 'r:ri', 2: 'r:ri r:rd'}[nres]
        for seq in (['insn ret ' + good], ['insn jret r:ri'], ['insn ret ' + good, 'insn jret r:ri'],
                    ['insn jret r:ri', 'insn ret ' + good], ['insn ret ' + good, 'insn ret ' + good],
                    ['insn jret r:ri', 'insn jret r:ri'], ['insn jret r:rd'], ['insn jret L'], [],
                    ['insn ret ' + good, 'insn mov r:ri i:1', 'insn jret r:ri']):
            cases.append(('retjret', ' ; '.join([h] + seq + ['finish'])))
    # va_* in vararg / non-vararg functions
    for va, args in ((0, '0'), (0, '1 i64:q'), (1, '1 i64:q'), (1, '0')):
        h = 'func %d 0 %s ; %s' % (va, args, DECL)
        for ins in ('insn va_start r:ri', 'insn va_end r:ri', 'insn va_arg r:ri r:ri m:i64:0:-:-',
                    'insn va_block_arg r:ri r:ri r:ri r:ri', 'insn va_start m:undef:0:ri:-', 'insn va_end m:undef:0:ri:-',
                    'insn va_arg r:ri m:undef:0:ri:- m:d:0:-:-', 'insn va_block_arg r:ri m:undef:8:-:ri i:8 i:1',
                    'insn va_arg m:undef:0:ri:- r:ri m:i64:0:-:-', 'insn va_block_arg m:undef:0:ri:- r:ri r:ri r:ri',
                    'insn va_block_arg r:ri r:ri m:undef:0:ri:- r:ri'):
            cases.append(('va', '%s ; %s ; finish' % (h, ins)))
    # internal / pseudo codes and codes out of range
    for ins in ('insn use', 'insn use r:ri', 'insn use r:ri i:1 L', 'insn phi', 'insn phi r:ri r:ri', 'insn phi r:ri r:ri r:ri',
                'insn phi r:ri r:ri r:ri r:ri', 'insn label', 'insn label i:1', 'insn invalid-insn', 'insn invalid-insn r:ri',
                'new use r:ri', 'new phi r:ri r:ri r:ri', 'new call r:ri', 'new inline r:ri', 'new jcall r:ri', 'new ret r:ri',
                'new switch r:ri L', 'new unspec i:0', 'new label', 'new invalid-insn'):
        cases.append(('internal', '%s ; %s ; finish' % (hdr, ins)))
    nops = len(tr_opcodes.opcodes(vlib.REPO))
    for c in (nops - 1, nops, nops + 1, 255, 256, 1000, 65536, 2147483647):
        cases.append(('range', '%s ; insn #%d r:ri ; finish' % (hdr, c)))
        cases.append(('range', '%s ; new #%d r:ri ; finish' % (hdr, c)))
    # registers declared after the instruction that uses... is impossible by number; but undeclared
    # registers in every position of a few representative insns
    for ins in ('insn add rx:77 r:ri r:ri', 'insn add r:ri rx:77 r:ri', 'insn add r:ri r:ri rx:77', 'insn fadd rx:5 rx:6 rx:7',
                'insn mov m:i64:0:#77:- r:ri', 'insn mov r:ri m:i64:0:ri:#77', 'insn bt L rx:77', 'insn ret rx:77'):
        cases.append(('undecl', '%s ; %s ; finish' % (hdr, ins)))
    cases.append(('empty', hdr + ' ; finish'))
    cases.append(('empty', 'func 0 2 i64 d 0 ; finish'))
    return cases


def gen_decls(rng, hard_names, full):
    cases = []
    names = ['a', 'zz', 't1', 't', 'hr', 'hr0', 'hr12', 'hr1x', 'hrx', 'h', '.lc', '.lc1', '.lcx', '.l', '.', 'lc1', 'fp', 'R_9']
    for t in TYPES:
        cases.append(('regtype', 'func 0 0 0 ; reg %s a ; finish' % t))
        cases.append(('regtype', 'func 0 0 0 ; greg %s a rbx ; finish' % t))
        cases.append(('regtype', 'func 0 0 0 ; greg %s a xmm3 ; finish' % t))
        cases.append(('argtype', 'func 0 0 1 %s:a ; insn mov r:a r:a ; finish' % t))
        cases.append(('argtype', 'func 0 0 1 %s:a ; insn dmov r:a r:a ; finish' % t))
        cases.append(('argtype', 'func 0 0 1 %s:a ; insn fmov r:a r:a ; finish' % t))
        cases.append(('argtype', 'func 0 0 1 %s:a ; insn ldmov r:a r:a ; finish' % t))
        cases.append(('restype', 'func 0 1 %s 0 ; finish' % t))
        cases.append(('restype', 'func 0 2 i64 %s 0 ; finish' % t))
    for n in names:
        cases.append(('name', 'func 0 0 0 ; reg i64 %s ; lookup %s ; finish' % (n, n)))
        cases.append(('name', 'func 0 0 1 i64:%s ; lookup %s ; finish' % (n, n)))
        cases.append(('name', 'func 0 0 0 ; greg i64 %s rbx ; lookup %s ; finish' % (n, n)))
        cases.append(('name', 'func 0 0 0 ; reg i64 a ; lookup %s ; finish' % n))
    for a, b in (('a', 'a'), ('a', 'b')):
        for t1, t2 in (('i64', 'i64'), ('i64', 'd'), ('f', 'ld')):
            cases.append(('redecl', 'func 0 0 0 ; reg %s %s ; reg %s %s ; lookup %s ; lookup %s ; finish' % (t1, a, t2, b, a, b)))
            cases.append(('redecl', 'func 0 0 1 %s:%s ; reg %s %s ; finish' % (t1, a, t2, b)))
            cases.append(('redecl', 'func 0 0 2 %s:%s %s:%s ; finish' % (t1, a, t2, b)))
            cases.append(('redecl', 'func 0 0 0 ; reg %s %s ; greg %s %s rbx ; finish' % (t1, a, t2, b)))
            cases.append(('redecl', 'func 0 0 0 ; greg %s %s rbx ; reg %s %s ; finish' % (t1 if t1 == 'i64' else 'i64', a, t2, b)))
    for h in hard_names + ['zork', 'RAX', 'rax ', 'xmm16', 'st2', 'r16', 'hr0', '-']:
        if ' ' in h:
            continue
        for t in ('i64', 'f', 'd', 'ld'):
            cases.append(('hard', 'func 0 0 0 ; greg %s g %s ; insn %s r:g r:g ; lookup g ; finish' % (
                t, h, {'i64': 'mov', 'f': 'fmov', 'd': 'dmov', 'ld': 'ldmov'}[t])))
    for h1, h2 in (('rbx', 'rbx'), ('rbx', 'r12'), ('xmm1', 'xmm1')):
        for t1, t2 in (('i64', 'i64'), ('i64', 'd'), ('d', 'd'), ('d', 'f')):
            cases.append(('hard2', 'func 0 0 0 ; greg %s g %s ; greg %s h %s ; lookup g ; lookup h ; finish' % (t1, h1, t2, h2)))
            cases.append(('hard2', 'func 0 0 0 ; greg %s g %s ; greg %s g %s ; finish' % (t1, h1, t2, h2)))
            cases.append(('hard2', 'func 0 0 0 ; greg %s g %s ; greg %s h %s ; reg i64 k ; insn mov r:k r:k ; regtype k ; finish' % (t1, h1, t2, h2)))
    cases += [('func', 'func 1 0 0 ; finish'), ('func', 'func 1 0 1 i64:a ; finish'), ('func', 'func 0 0 0 ; func 0 0 0 ; finish'),
              ('func', 'reg i64 a'), ('func', 'greg i64 a rbx'), ('func', 'greg i64 a -'), ('func', 'func 0 0 0 ; greg i64 a - ; finish'),
              ('func', 'func 0 0 0 ; regtype #1 ; finish'), ('func', 'func 0 0 1 i64:a ; regtype #1 ; regtype #2 ; finish'),
              ('func', 'func 0 0 1 i64:a ; reg d b ; regtype b ; regtype #0 ; finish')]
    # numbering: parameters, locals and globals interleaved; operands by the returned numbers
    for _ in range(60 if not full else 600):
        nargs = rng.randint(0, 3)
        steps = ['func 0 0 %d %s' % (nargs, ' '.join('%s:p%d' % (rng.choice(['i64', 'f', 'd', 'ld', 'i8', 'blk0', 'rblk']), j) for j in range(nargs)))]
        known = {}
        for j in range(nargs):
            known['p%d' % j] = None
        hard_pool = ['rbx', 'r12', 'r13', 'xmm1', 'xmm2', 'rax', 'rsp', 'xmm8', 'st0', 'qq']
        for j in range(rng.randint(1, 8)):
            t = rng.choice(['i64', 'f', 'd', 'ld'] * 3 + ['i32', 'p'])
            n = rng.choice(['v%d' % j, 'v%d' % rng.randint(0, 7), 'p0', 'hr3', 't2'])
            if rng.random() < 0.4:
                steps.append('greg %s %s %s' % (t, n, rng.choice(hard_pool)))
            else:
                steps.append('reg %s %s' % (t, n))
            if rng.random() < 0.5:
                steps.append('lookup %s' % rng.choice(['v%d' % rng.randint(0, 7), 'p0', 'p2', n]))
            if rng.random() < 0.3:
                steps.append('regtype #%d' % rng.randint(0, 9))
        steps.append('finish')
        cases.append(('declseq', ' ; '.join(steps)))
    return cases


def build_cases(chk, rows, hard_names):
    full = chk.tier == 'thorough'
    rng = chk.rng('cases')
    cases = []
    cases += gen_fixed(rows, full, rng, 12 if not full else 120)
    cases += gen_variadic(full, rng, 2000 if not full else 20000)
    cases += gen_function_level(rng, full, fixed_templates(rows))
    cases += gen_decls(rng, hard_names, full)
    return cases


def load_corpus():
    p = os.path.join(vlib.VERIF, 'corpus', 'c15.txt')
    if not os.path.exists(p):
        return []
    return [('corpus', l.rstrip('\n')) for l in open(p) if l.strip() and not l.startswith('#')]


def run_impl(impl, lines, env=None):
    """returns list of output lines; a crash is turned into 'CRASH ...' for the first case that crashes"""
    out = []
    i = 0
    n = len(lines)
    ncrash = 0
    while i < n:
        if ncrash > 40:   # each crash restarts the harness on the remaining cases: stop a crash storm
            out += ['CRASH (not run: more than 40 crashes before this case)'] * (n - len(out))
            break
        rc, o, err = vlib.run_lines(impl, lines[i:], timeout=3000, env=env)
        if rc != 0 and o and o[-1] == '':
            o.pop()
        out += o[:n - i]
        if rc == 0 and len(out) >= n:
            break
        # the case after the last produced line killed the process
        bad = len(out)
        if bad >= n:
            break
        sig = 'CRASH rc=%d %s' % (rc, (err or '').strip().split('\n')[-1][:160])
        if 'AddressSanitizer' in (err or '') or 'runtime error' in (err or ''):
            m = [l for l in err.split('\n') if 'ERROR: AddressSanitizer' in l or 'runtime error' in l]
            sig = 'CRASH sanitizer: ' + (m[0].strip()[:200] if m else '')
        out.append(sig)
        ncrash += 1
        i = bad + 1
    return out


def shrink_case(impl, model, line, differs):
    steps = line.split(' ; ')

    def fails(sub):
        s = ' ; '.join(sub)
        a = run_impl(impl, [s])[0]
        b = vlib.run_lines(model, [s])[1][0]
        if a.startswith('bad-case') or b.startswith('bad-case'):
            return False
        return differs(a, b)
    return ' ; '.join(vlib.shrink_list(steps, fails, max_steps=60))


def verdicts(a, b):
    """a: implementation line; b: model line 'res | doc=x'.  Returns (tie_ok, doc_ok)."""
    res, _, doc = b.partition(' | doc=')
    tie = (a == res)
    if doc == 'ok':
        docok = (a == 'ok')
    elif doc == 'rej':
        docok = a.startswith('err ')
    else:
        docok = True
    return tie, docok


def run(chk):
    quick = chk.tier == 'quick'
    rc, out, err = vlib.sh([sys.executable, os.path.join(vlib.VERIF, 'tools', 'tr_opcodes.py'), '--check'])
    opc_ok = rc == 0
    chk.log(out.strip() or err.strip())
    path, rows = tr_c15_insn_descs.generate()
    unknown = [r for r in rows if r[0] != 'row' or r[1] is None]
    chk.log('table regenerated: %d rows, %d unparsed' % (len(rows), len(unknown)))
    r = chk.prove()
    if not opc_ok:
        r['ok'] = False
        r['log'] += '\nOPCODE TIE BROKEN: ' + out
    impl = vlib.build_harness('c15_api', ['c15_api.c'], units=('mir',))
    model = vlib.ocaml_build('c15', 'Extract_C15', ['c15x'], 'driver_c15.ml')
    chk.cov['trusted_base'] += [
        'translator tools/tr_c15_insn_descs.py (gcc -E -P + regular expressions over the insn_descs[] initialiser, the three enums, the x86-64 hard register table); unparsable rows become Unknown and fail insn_descs_wellformed',
        'extraction: ExtrOcamlBasic only, no Extract Constant/Inductive of our own',
        'ocaml/driver_c15.ml and harness/c15_api.c (parse + print + the name->register tables both keep)',
        'gcc 12 (-O1 -DNDEBUG), ASan/UBSan build in the thorough tier',
        'host: x86-64 Linux (long double distinct from double; x86-64 hard register table)']
    hard = []
    m = __import__('re').search(r'Definition hard_reg_names.*?\[(.*?)\]\.\n', open(path).read(), __import__('re').S)
    if m:
        for nm in __import__('re').findall(r'\[([0-9; ]*)\]%N', m.group(1)):
            hard.append(''.join(chr(int(x)) for x in nm.split(';') if x.strip()))
    cases = load_corpus() + build_cases(chk, rows, hard)
    lines = [c for _, c in cases]
    for k, c in cases:
        chk.count(c, nontrivial=True)
        chk.dist('kinds', k)
    chk.cov['rule'] = ('each case builds one function through the real API in a fresh context (harness/c15_api.c) and through the '
                      'extracted checker model; exhaustive: every fixed-arity opcode x operand position x operand kind '
                      '(4 register types, undeclared registers, 5 immediates, memory of every type x base x index x displacement '
                      'sign, label, string, reference to every item kind), arity 0/-1/+1, ret/switch/call/inline/jcall/unspec '
                      'families, block parameter kind x argument kind x size, declaration errors; plus seeded operand vectors. '
                      'All cases are distinct by text.')
    for k in ('valid', 'pos', 'blk', 'ovf', 'hard2'):
        for kk, c in cases:
            if kk == k:
                chk.sample(c)
                break
    o_impl = run_impl(impl, lines)
    rc2, o_model, e2 = vlib.run_lines(model, lines, timeout=3000)
    if rc2 != 0 or len(o_model) != len(lines):
        raise vlib.BuildError('model driver failed: rc=%d %s' % (rc2, e2[-500:]))
    variants = [('plain', o_impl)]
    if not quick:
        # mir-hash.h reads strings with deliberately unaligned 32/64-bit loads on x86-64
        # (MIR_HASH_UNALIGNED_ACCESS): not an error here, so UBSan's alignment check is off
        asan = vlib.build_harness('c15_api', ['c15_api.c'], variant='asan', units=('mir',), defs=['-fno-sanitize=alignment'])
        o_asan = run_impl(asan, lines, env={'ASAN_OPTIONS': 'detect_leaks=0:abort_on_error=0', 'UBSAN_OPTIONS': 'print_stacktrace=0'})
        variants.append(('asan', o_asan))
        chk.cov['asan_cases'] = len(lines)
    nfind = 0
    seen_sig = set()
    results = {}
    for vname, outs in variants:
        for (kind, line), a, b in zip(cases, outs, o_model):
            res = b.partition(' | doc=')[0]
            chk.dist('impl_result', a.split()[0] + (' ' + a.split()[1] if a.startswith('err ') else ''))
            if vname == 'plain':
                chk.dist('doc', b.partition(' | doc=')[2])
            if a.startswith('bad-case') or res.startswith('bad-case'):
                if a.split('(')[0] != res.split('(')[0]:
                    raise vlib.BuildError('malformed generated case %r: impl=%r model=%r' % (line, a, b))
                chk.dist('bad_case', 1)
                continue
            tie, docok = verdicts(a, b)
            if tie and docok:
                continue
            what = []
            if a.startswith('CRASH'):
                what.append('the implementation crashed instead of calling the error function')
                sigk = 'crash'
            elif not docok:
                what.append('MIR.md %s this IR but the implementation answers "%s"' % (
                    'allows' if ' | doc=ok' in b else 'forbids', a))
                sigk = 'doc'
            else:
                what.append('implementation "%s" vs checker model "%s"' % (a, res))
                sigk = 'tie'
            # one finding per (kind of failure, instruction text of the last insn step)
            last = [s for s in line.split(' ; ') if s.startswith(('insn ', 'new ', 'reg ', 'greg ', 'func ', 'lookup '))]
            key = (sigk, a.split()[0:2] == ['err', ''] and '' or a, (last[-1].split()[1] if last and last[-1].split()[0] in ('insn', 'new') else (last[-1] if last else '')))
            if key in seen_sig or nfind >= 30:
                chk.dist('suppressed_duplicates', sigk)
                continue
            seen_sig.add(key)
            nfind += 1

            def differs(x, y, docbad=not docok):
                t, d = verdicts(x, y)
                return (not d) if docbad else (not t)
            small = line
            if not a.startswith('CRASH'):
                small = shrink_case(impl if vname == 'plain' else asan, model, line, differs)
            ra = run_impl(impl if vname == 'plain' else asan, [small])[0]
            rb = vlib.run_lines(model, [small])[1][0]
            if sigk == 'doc':
                msg = 'MIR.md %s this IR but the implementation answers "%s"' % ('allows' if ' | doc=ok' in rb else 'forbids', ra)
            elif sigk == 'tie':
                msg = 'implementation "%s" vs checker model "%s"' % (ra, rb.partition(' | doc=')[0])
            else:
                msg = '; '.join(what)
            chk.finding('%s:%s' % (sigk, small), dict(case=small, impl=ra, model=rb, original=line, original_impl=a,
                                                      original_model=b, variant=vname),
                        '%s: %s   [%s]' % (msg, small, vname))
    if not r['ok'] and not chk.violations and not chk.known_hits:
        chk.proof_broken(r, searched='%d cases agreed between implementation, checker model and documentation rules' % len(lines))


def replay(chk, path):
    j = json.load(open(path))
    tr_c15_insn_descs.generate()
    variant = j['replay'].get('variant', 'plain') if j['replay'].get('variant') in ('plain', 'asan') else 'plain'
    impl = vlib.build_harness('c15_api', ['c15_api.c'], variant=variant, units=('mir',),
                              defs=['-fno-sanitize=alignment'] if variant == 'asan' else ())
    model = vlib.ocaml_build('c15', 'Extract_C15', ['c15x'], 'driver_c15.ml')
    if 'case' not in j['replay']:
        print('no concrete case in this replay (proof / tie broken):', j.get('what'))
        return 1
    s = j['replay']['case']
    a = run_impl(impl, [s], env={'ASAN_OPTIONS': 'detect_leaks=0'})[0]
    b = vlib.run_lines(model, [s])[1][0]
    print('case :', s)
    print('impl :', a)
    print('model:', b)
    tie, docok = verdicts(a, b)
    return 0 if tie and docok else 1

# C16: code generation leaves the MIR program intact and can be repeated (partial).
#  * proofs: coq/Properties_C16.v (duplicate / any edit script / restore; early return; any order)
#  * tie (protocol): the real _MIR_duplicate_func_insns / _MIR_restore_func_insns around seeded edit scripts
#    applied through the API, against the extracted model, in the model's vocabulary
#  * end to end: generated programs x orders and repetitions of MIR_gen at changing -O levels, eager / lazy,
#    then text, instruction identity, interpretation, and later modules that call and inline
import os, sys, json, hashlib, re
import vlib
sys.path.insert(0, os.path.join(vlib.VERIF, 'tools'))
import gen_c03_progs as G

LEVEL = 'proof'
# same program shapes as the C03 differential
FEATS = {'mem', 'switch', 'laddr', 'lref', 'indirect', 'reftab', 'inline', 'recursion', 'callback', 'ext_va', 'global', 'faddr', 'alloca'}
PDIR = os.path.join(vlib.BUILD, 'c16p')


def build():
    impl = vlib.build_harness('c16_regen', ['c16_regen.c'], extra_flags=['-DPROG_H="%s"' % vlib.file_hash([os.path.join(vlib.VERIF, 'harness', 'c03_prog.h')])])
    model = vlib.ocaml_build('c16', 'Extract_C16', ['c16x'], 'driver_c16.ml')
    return impl, model


def write_prog(text, tag):
    os.makedirs(PDIR, exist_ok=True)
    p = os.path.join(PDIR, '%s-%d.mir' % (tag, os.getpid()))
    with open(p, 'w') as f:
        f.write(text)
    return p


def fields(line):
    d = {}
    for w in line.split():
        if '=' in w:
            a, b = w.split('=', 1)
            d[a] = b
    return d


# ---------------------------------------------------------------- protocol tie

def dirty(state):
    """insns of a printed function state whose insn->data is not NULL"""
    return [x for x in state.split('/')[0].split(':') if x and x.endswith('.1')]


def check_protocol(impl, model, path, fname, seed, nedits, interp=False):
    """None when implementation and model agree and the function is intact, else a description"""
    line = 'P %s %s %d %d%s' % (path, fname, seed, nedits, ' i' if interp else '')
    rc, out, err = vlib.run_lines(impl, [line], timeout=120)
    o = ' '.join(out)
    d = fields(o)
    if 'CRASH' in o or 'ERROR' in o or not all(k in d for k in ('init', 'dup', 'script', 'work', 'final', 'readd')):
        return 'implementation failed: %s' % o[-300:], None
    for k in ('init', 'dup', 'work', 'final'):
        if '!' in d[k]:
            return 'a register number does not lead back to the name it was declared with (state %s): %s' % (k, d[k].split('/')[6][:300]), d
    # theorem interpretation_leaves_no_data / copies_clean_iff_function_clean against the code: outside generation
    # (also right after the function ran in the interpreter) no insn carries data, so the working copy is clean
    for k in ('init', 'dup', 'final'):
        if dirty(d[k]):
            return 'insn->data left set (state %s%s): %s' % (k, ', function interpreted before' if interp else '', dirty(d[k])[:5]), d
    rc2, mout, merr = vlib.run_lines(model, ['P init=%s script=%s' % (d['init'], d['script'])])
    if rc2 != 0 or not mout or mout[0].startswith('BAD'):
        raise vlib.BuildError('model driver failed: %s %s' % (mout[:1], merr[-300:]))
    m = fields(mout[0])
    for k in ('dup', 'work', 'final'):
        if d[k] != m[k]:
            return 'state after %s differs: impl %s  model %s' % (k, d[k][:400], m[k][:400]), d
    fi, ff = d['init'].split('/'), d['final'].split('/')
    if ff[0] != fi[0]:
        return 'instruction list not restored: before %s after %s' % (fi[0][:300], ff[0][:300]), d
    if ff[1] != '':
        return 'original_insns not emptied by restore: %s' % ff[1][:200], d
    if ff[2] != fi[2]:
        return 'vars not restored: before %s after %s' % (fi[2], ff[2]), d
    li = [x.split(',')[:2] for x in fi[4].split(':') if x]
    lf = [x.split(',') for x in ff[4].split(':') if x]
    if [x[:2] for x in lf] != li or any(x[2:] != ['-1', '-1'] for x in lf):
        return 'lrefs not restored: before %s after %s' % (fi[4], ff[4]), d
    if ff[5] != fi[5] or ff[6] != fi[6] or '!' in ff[6]:
        return 'register tables not restored (name.number of every var and global var): before %s after %s' % (fi[6], ff[6]), d
    if d['readd'] != 'ok':
        return 'registers created during generation are still in the function tables after restore', d
    if m.get('closed') != '1':
        return 'working copy refers to labels outside itself', d
    return None, d


# ---------------------------------------------------------------- end to end

def gen_script(rng, prog):
    """ops for one run, plus the reference ops (same calls, no generation, interpreter only).
    API preconditions respected (they are asserted in the C code, not part of the property):
      * MIR_gen only after the function's module was linked, and only while item->data == NULL, i.e. not
        after the function may have run in the interpreter of this context (a module linked with the
        interpreter interface once any call was made, or any function once MIR_interp was used);
      * programs with lref data are not interpreted in the context whose generated code is still used
        afterwards (label addresses are set for one engine at a time) -- interpretation comes last."""
    n = prog['nmodules']
    funcs = prog['funcs']
    byname = {f['name']: f for f in funcs}
    ents = prog['entries']
    if prog['layered'] and n > 1 and rng.random() < 0.7:
        groups = [[m] for m in range(n)]
    else:
        groups = [list(range(n))]
    ops, ref = ['opt %d' % rng.choice([0, 1, 1, 2])], []
    loaded = []
    iface_of = {}
    called = False
    # a program without lref data may mix the engines freely: interpret a function (MIR_interp, or a call into a
    # module linked with the interpreter interface) and generate it afterwards, interpret it again, ... --
    # "any order ... each followed by interpretation"
    free_mix = not any(f['lref'] for f in funcs)
    for gi, g in enumerate(groups):
        mods = ','.join(map(str, g))
        iface = rng.choice(['interp', 'interp', 'gen', 'lazy', 'lazy'])
        ops += ['load ' + mods, 'link ' + iface, 'snap']
        ref += ['load ' + mods, 'link interp', 'snap']
        here = [f for f in funcs if f['module'] in g]
        for f in here:
            iface_of[f['name']] = iface
        loaded += here
        callable_ = [e for e in ents if byname[e['name']] in loaded]
        for _ in range(rng.randint(1, 5)):
            r = rng.random()
            cands = [f for f in loaded if free_mix or not (called and iface_of[f['name']] == 'interp')]
            if free_mix and r < 0.15 and callable_:
                e = rng.choice([x for x in callable_ if x['kind'] != 'va'] or callable_)
                if e['kind'] != 'va':
                    c = G.gen_call(rng, e)
                    ops += ['i' + c, 'snap']
                    ref.append('i' + c)
                    called = True
            elif r < 0.45 and cands:
                f = rng.choice(cands)
                if rng.random() < 0.5:
                    ops.append('opt %d' % rng.choice([0, 1, 2, 3]))
                ops.append('gen ' + f['name'])
                if rng.random() < 0.4:
                    if rng.random() < 0.5:
                        ops.append('opt %d' % rng.choice([0, 1, 2, 3]))
                    ops.append('gen ' + f['name'])
                ops.append('snap')
            elif callable_:
                e = rng.choice(callable_)
                c = G.gen_call(rng, e)
                ops.append(c)
                ref.append(c)
                called = True
                ops.append('snap')
    # interpretation of (generated) functions through MIR_interp at the end
    for e in ents:
        if byname[e['name']] in loaded and e['kind'] != 'va' and rng.random() < 0.6:
            c = G.gen_call(rng, e)
            ops.append('i' + c)
            ref.append('i' + c)
    ops.append('snap')
    ref.append('snap')
    return ops, ref


def mixed_script(rng, prog):
    """ops (and the interpreter-only reference ops) of one history that mixes interfaces ACROSS link steps
    (tools/gen_c03_progs.py gen_mixed_history): a module linked lazily or with the interpreter interface (+ explicit
    MIR_gen of single functions), part of it executed, a later module -- related or not -- linked eagerly, then the
    earlier functions executed on the paths not taken before.  Whole-function generation only (no lazy-BB: see the
    known finding c16:gen-after-lazybb); every call is also made in the reference context."""
    steps = G.gen_mixed_history(rng, prog, ifaces=('interp', 'lazy', 'lazy', 'gen'))
    ops, ref = ['opt %d' % rng.choice([0, 1, 1, 2])], []
    for st in steps:
        if st[0] == 'link':
            mods = ','.join(map(str, st[1]))
            ops += ['load ' + mods, 'link ' + st[2], 'snap']
            ref += ['load ' + mods, 'link interp', 'snap']
        elif st[0] == 'gen':
            if rng.random() < 0.3:
                ops.append('opt %d' % rng.choice([0, 1, 2, 3]))
            ops += ['gen ' + st[1], 'snap']
        else:
            ops += [st[1], 'snap']
            ref.append(st[1])
    ops.append('snap')
    ref.append('snap')
    return ops, ref


SNAP_BAD = ('LREF-TEXT-CHANGED', 'LREF-LABEL-NULL', 'TEXT-CHANGED', 'INSNS-REPLACED', 'VARS-CHANGED', 'ORIGINAL-INSNS-LEFT', 'LREF-ORIG-LEFT', 'ADDR-CHANGED',
            'MC-CHANGED', 'NO-CALL-ADDR', 'GEN-RETURNED-OTHER-ADDR', 'INTERP-STATE-LOST', 'CRASH', 'ERROR', 'NOFUNC', 'BADOP')


def parse_g(line):
    """-> (results list, last snapshot {func: text hash}, tail)"""
    res = re.findall(r' r= (\S+)', line)
    snaps = re.findall(r'snap\[(.*?)\]', line)
    last = {}
    if snaps:
        for ent in snaps[-1].split():
            p = ent.split(':')
            last[p[0]] = p[1]
    tail = line.split('|')[-1].strip() if '|' in line else ''
    return res, last, tail


def run_g(impl, path, ops, poison=False):
    env = dict(os.environ, C16_POISON='2') if poison else None
    rc, out, err = vlib.run_lines(impl, ['G %s | %s' % (path, ' ; '.join(ops))], timeout=300, env=env)
    return ' '.join(' '.join(out).split())


def max_level(ops):
    lv = [int(o.split()[1]) for o in ops if o.startswith('opt ')]
    return max(lv) if lv else 2   # MIR_gen_init default


def check_e2e(impl, path, ops, ref, jmpi=True):
    """None if the run keeps every function intact and behaves like the reference, else a description.
    Results, external-call log and memory are compared with the reference at every optimisation level (census on
    /repo f9a528c1: no value disagreement on 480 label-address programs at -O2/-O3).  jmpi: the program takes label
    addresses (laddr / lref + jmpi); for those a *crash of optimised code* at -O2/-O3 is skipped (C01's open
    use-after-free of a deleted label can also corrupt running code), a wrong value is not."""
    o = run_g(impl, path, ops)
    if jmpi and max_level(ops) >= 2 and 'CRASH:run' in o:
        return 'SKIP:optimised-code-crashed'
    if 'CRASH:gen:' in o:
        # The code generator itself died while generating.  If it also dies generating that function on its own
        # (fresh context, same modules, nothing else generated) at some level, it is a defect of the optimiser on
        # that function (C01's / C03's subject, reported there by death site).  If the function can be generated
        # on its own at every level, the death depends on what was generated before: "functions may be generated
        # in any order" fails.
        tok = o[o.index('CRASH:gen:'):].split()[0]
        fn = tok.split(':')[2]
        alone = [x if x.split()[0] == 'load' else 'link interp' for x in ops if x.split()[0] in ('load', 'link')]
        dies_alone = False
        # (with an allocator that never reuses and fills freed blocks: a use-after-free in the optimiser, whose
        # symptom depends on the state of the heap and so on the history, shows on the function alone as well)
        for lv in range(4):
            for poison in (False, True):
                a = run_g(impl, path, alone + ['opt %d' % lv, 'gen ' + fn, 'snap'], poison)
                if 'CRASH' in a or 'ERROR' in a or 'NOFUNC' in a:
                    dies_alone = True
                    break
            if dies_alone:
                break
        if dies_alone:
            return 'SKIP:' + tok
        return 'ORDER-DEPENDENT-GENERATOR-DEATH: %s is generated without trouble on its own at -O0..-O3, but the generator dies on it in this history: %s' % (fn, tok)
    for b in SNAP_BAD:
        if b in o:
            i = o.index(b)
            return '%s: ...%s' % (b, o[max(0, i - 120):i + 60])
    r = run_g(impl, path, ref)
    if 'CRASH' in r or 'ERROR' in r:
        return None  # the reference itself is not clean: nothing to compare against (counted separately)
    res, last, tail = parse_g(o)
    rres, rlast, rtail = parse_g(r)
    if last != rlast:
        diff = [k for k in last if last[k] != rlast.get(k)]
        return 'text of functions differs from the never-generated reference: %s' % diff[:5]
    if res != rres:
        return 'results differ from the interpreter-only reference: %s vs %s' % (res, rres)
    if tail != rtail:
        return 'external-call log / memory differ from the reference: %s vs %s' % (tail, rtail)
    return None


def shrink_ops(impl, path, ops, ref, jmpi=True):
    keep_kinds = ('load', 'link')

    def fails(sub):
        full = [o for i, o in enumerate(ops) if o.split()[0] in keep_kinds or i in sub]
        r2 = [o for o in full if o.split()[0] in ('load', 'call', 'icall', 'snap')] + []
        r2 = ['link interp' if False else o for o in r2]
        # reference: same loads/calls, interpreter links
        rr = []
        for o in full:
            k = o.split()[0]
            if k == 'link':
                rr.append('link interp')
            elif k in ('load', 'call', 'icall'):
                rr.append(o)
        rr.append('snap')
        w = check_e2e(impl, path, full + ['snap'], rr, jmpi)
        return w is not None and not w.startswith('SKIP:')
    idx = [i for i, o in enumerate(ops) if o.split()[0] not in keep_kinds]
    keep = vlib.shrink_list(idx, lambda s: fails(set(s)), max_steps=80)
    ks = set(keep)
    full = [o for i, o in enumerate(ops) if o.split()[0] in keep_kinds or i in ks] + ['snap']
    rr = [('link interp' if o.split()[0] == 'link' else o) for o in full if o.split()[0] in ('load', 'link', 'call', 'icall')] + ['snap']
    return full, rr


def e2e_case(chk, impl, prog, path, ops, ref):
    """run one end-to-end history; report (shrunk) when it changes the program.  -> True when a finding was made"""
    jmpi = any(ft in prog['features'] for ft in ('laddr', 'lref', 'lref_diff'))
    why = check_e2e(impl, path, ops, ref, jmpi)
    if why and why.startswith('SKIP:'):
        chk.dist('skipped', why.split(':')[-1])
        why = None
    if not why:
        return False
    ops2, ref2 = shrink_ops(impl, path, ops, ref, jmpi)
    why2 = check_e2e(impl, path, ops2, ref2, jmpi)
    if why2 is None or why2.startswith('SKIP:'):
        ops2, ref2, why2 = ops, ref, why
    chk.finding('e2e:' + hashlib.sha1((prog['text'] + ';'.join(ops2)).encode()).hexdigest()[:12],
                dict(kind='e2e', text=prog['text'], ops=ops2, ref=ref2, what=why2, jmpi=jmpi),
                'generation changed the program: %s  [ops: %s]' % (why2[:300], ' ; '.join(ops2)[:400]))
    return True


# ---------------------------------------------------------------- run

def run(chk):
    quick = chk.tier == 'quick'
    r = chk.prove()
    impl, model = build()
    chk.cov['trusted_base'] += [
        'extraction: ExtrOcamlBasic only, no Extract Constant/Inductive of our own',
        'ocaml/driver_c16.ml, harness/c16_regen.c, harness/c03_prog.h (drive the API, parse + print)',
        'model boundary (stated in Properties_C16.v, checked only by running): the generator edits nothing but the '
        'working list func->insns, registers it creates, and the current label fields of lrefs']
    found = 0
    std_rng = rng = chk.rng('c16')
    nprog = 90 if quick else 400
    nproto = 10 if quick else 30
    ne2e = 3 if quick else 6
    nmix = 40 if quick else 250
    # histories mixing interfaces across link steps (own random stream: the programs below stay what they were)
    mrng = chk.rng('c16mix')
    for k in range(nmix):
        prog = G.gen_program(mrng, feats=FEATS - {'lref', 'laddr'} if k % 3 == 2 else (FEATS - {'lref'} if k % 3 == 1 else FEATS), mixed=True)
        path = write_prog(prog['text'], 'm')
        for _ in range(2):
            ops, ref = mixed_script(mrng, prog)
            chk.count(('G', prog['text'], tuple(ops)), nontrivial=True)
            chk.dist('mixed_link_sequence', '>'.join(o.split()[1] for o in ops if o.startswith('link ')))
            for o in ops:
                chk.dist('mixed_ops', ' '.join(o.split()[:2]) if o.split()[0] in ('link', 'opt') else o.split()[0])
            if k == 0:
                chk.sample('G(mixed) | ' + ' ; '.join(ops)[:400])
            if e2e_case(chk, impl, prog, path, ops, ref):
                found += 1
                break
        if found >= 2:
            break
    # The lref family first (own random stream): functions owning lref data items of every form (one label, two labels,
    # displacement) whose labels stand in reachable and in UNREACHABLE code, with and without a reachable jmpi in the
    # function (remove_unreachable_bbs clears the working labels of such lrefs at -O1 and higher; the restore must bring
    # them back), and a few programs with LARGE functions (thousands of insns: duplicate / restore of long lists,
    # hundreds of generator-made registers).  Then the ordinary programs.
    lrng = chk.rng('c16lref')
    nlref = 30 if quick else 150
    nbig = 2 if quick else 10
    sources = [('lref', j) for j in range(nlref)] + [('big', j) for j in range(nbig)] + [('std', j) for j in range(nprog)]
    for kind, k in sources:
        if kind == 'lref':
            rng = lrng
            prog = G.gen_program(lrng, feats=FEATS - {'lref', 'laddr'} if k % 3 == 0 else FEATS, lrefam=True)
            for sh in prog['lref_shapes']:
                chk.dist('lref_family_shapes', sh)
        elif kind == 'big':
            rng = lrng
            prog = G.gen_big_program(lrng, scale=0.5)
        else:
            rng = std_rng
            # two programs in three have no lref data: their functions may be interpreted and generated in any order;
            # one in three has no label addresses at all: results are compared with the reference at -O2/-O3 too
            prog = G.gen_program(rng, feats=FEATS - {'lref', 'laddr'} if k % 3 == 2 else (FEATS - {'lref'} if k % 3 == 1 else FEATS))
        chk.dist('program_family', kind)
        path = write_prog(prog['text'], 'p')
        chk.dist('free_mix_program', not any(f['lref'] for f in prog['funcs']))
        for ft in prog['features']:
            chk.dist('prog_features', ft)
        # protocol tie on random functions of the program
        for _ in range(nproto if kind == 'std' else (4 if kind == 'lref' else 1)):
            f = rng.choice(prog['funcs'])
            seed = rng.getrandbits(31)
            ned = rng.choice([0, 1, 3, 8, 20, 40])
            # half of the cases: the function has run in the interpreter before (lref functions excluded: the
            # interpreter keeps label addresses in their data, and the P context never generates anyway -- but
            # a variadic function cannot be entered through MIR_interp_arr with no variable arguments described)
            interp = rng.random() < 0.5
            chk.count(('P', prog['text'], f['name'], seed, ned, interp), nontrivial=ned > 0)
            chk.dist('proto_edits', ned)
            chk.dist('proto_lref_func', 'lref' if f['lref'] else 'plain')
            chk.dist('proto_interpreted_first', interp)
            why, d = check_protocol(impl, model, path, f['name'], seed, ned, interp)
            if d and k == 0 and kind == 'std':
                chk.sample('P %s seed=%d edits=%d script=%s' % (f['name'], seed, ned, d.get('script', '')[:200]))
            if why:
                found += 1
                # shrink the number of edits
                small = ned
                for n2 in range(0, ned):
                    w2, _ = check_protocol(impl, model, path, f['name'], seed, n2, interp)
                    if w2:
                        small, why = n2, w2
                        break
                chk.finding('proto:' + hashlib.sha1((prog['text'] + f['name'] + str(seed)).encode()).hexdigest()[:12],
                            dict(kind='proto', text=prog['text'], func=f['name'], seed=seed, nedits=small, interp=interp, what=why),
                            'duplicate/edit/restore: %s  [function %s, seed %d, %d edits]' % (why[:300], f['name'], seed, small))
                break
        if k == 0 and kind == 'std':
            # recorded limitation (KNOWN_FINDINGS c16:gen-after-lazybb): basic-block generation never restores the
            # function's insns, so whole-function generation (or output / interpretation) after the function ran
            # under the lazy-BB interface fails.  Witness history, reported under that signature only.
            ent = [e for e in prog['entries'] if e['kind'] != 'va'][0]
            allm = ','.join(str(i) for i in range(prog['nmodules']))
            wops = ['load ' + allm, 'opt 1', 'link bb', 'snap', G.gen_call(rng, ent), 'gen ' + ent['name'], 'snap']
            o = run_g(impl, path, wops)
            chk.count(('G-bb', prog['text'], tuple(wops)), nontrivial=True)
            if any(b in o for b in SNAP_BAD):
                chk.finding('c16:gen-after-lazybb', dict(kind='e2e', text=prog['text'], ops=wops, ref=[], what=o[-300:]),
                            'MIR_gen after the function ran under the lazy-BB interface: ' + o[-200:])
        # end to end
        for _ in range(ne2e):
            ops, ref = gen_script(rng, prog)
            chk.count(('G', prog['text'], tuple(ops)), nontrivial=any(o.startswith('gen') for o in ops))
            for o in ops:
                chk.dist('e2e_ops', ' '.join(o.split()[:2]) if o.split()[0] in ('link', 'opt') else o.split()[0])
            if k == 0:
                chk.sample('G(%s) | ' % kind + ' ; '.join(ops)[:300])
            if e2e_case(chk, impl, prog, path, ops, ref):
                found += 1
                break
        if found >= 2:
            break
    chk.cov['rule'] = ('protocol cases: one function x one seeded edit script each (non-trivial when >= 1 edit), compared '
                      'state by state with the extracted model; end-to-end cases: one program x one script of '
                      'load/link/opt/MIR_gen/call/interp ops (non-trivial when it generates), compared with an '
                      'interpreter-only reference run of the same calls')
    if not r['ok'] and not found:
        chk.proof_broken(r, searched='all protocol and end-to-end cases agreed')


def replay(chk, path):
    j = json.load(open(path))
    rp = j['replay']
    impl, model = build()
    p = write_prog(rp['text'], 'replay')
    if rp.get('kind') == 'proto':
        why, d = check_protocol(impl, model, p, rp['func'], rp['seed'], rp['nedits'], rp.get('interp', False))
        print('P %s %s %d %d' % (p, rp['func'], rp['seed'], rp['nedits']))
        print(why or 'agree')
        return 1 if why else 0
    why = check_e2e(impl, p, rp['ops'], rp['ref'], rp.get('jmpi', True))
    print('G %s | %s' % (p, ' ; '.join(rp['ops'])))
    print(why or 'agree')
    return 1 if why else 0

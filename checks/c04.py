# C04: link-time simplification and inlining never change what a program computes.
# Reference = Coq definitional interpreter of the program AS WRITTEN (it never sees MIR_link's
# transformations).  The linked program is run by the interpreter and by MIR_gen with the library
# built three ways: default thresholds, inlining off (thresholds 0), always inline (huge thresholds).
# Theorems: coq/Properties_C04.v (logic cores of simplify/inline).  Tie for the shortcut opcode lists:
# tools/tr_c04_shortcuts.py regenerates coq/gen/C04Shortcuts.v from mir.c on every run.
import os, sys, json, random, time
import vlib
from checks import c01
sys.path.insert(0, os.path.join(vlib.VERIF, 'tools'))
import gen_c01_prog as G

LEVEL = 'proof'
# interp + the two non-optimising generator levels: -O2/-O3 specific defects are C01's business
ENGINES = 'i,g0,g1'
BUILDS = [
    ('default', []),
    ('noinline', ['-DMIR_MAX_INSNS_FOR_INLINE=0', '-DMIR_MAX_INSNS_FOR_CALL_INLINE=0']),
    # "always": every callee is below the size thresholds; inlining stops only when the caller has
    # grown beyond 4x its size and 4000 insns (unbounded growth is exponential in call chains)
    ('always', ['-DMIR_MAX_INSNS_FOR_INLINE=100000', '-DMIR_MAX_INSNS_FOR_CALL_INLINE=100000',
                '-DMIR_MAX_FUNC_INLINE_GROWTH=400', '-DMIR_MAX_CALLER_SIZE_FOR_ANY_GROWTH_INLINE=4000']),
]
GEN_OPTS = dict(w_call=16, p_blk=0.4, p_forward=0.7, nfuncs=None, p_inline=0.7, p_top_alloca=0.85, p_midret=0.25, p_alloca_after_call=0.6, p_small=0.7,
                p_narrow_res=0.5,
                # round 3: callee parameters written by the body (call results in every position, loads, any
                # insn), bodies that begin with a jump-target label (tools/gen_c01_prog.py param_modes/entry_prologue)
                p_param_write=0.6, p_entry_label=0.35, p_lean=0.5,
                # round 3 (wave 5): size operand of the entry allocas in every shape (tools/gen_c01_prog.py top_alloca)
                p_alloca_shapes=0.6,
                # round 3 (wave 7): a callee with a dynamic alloca and code after its ret, inlined in a loop whose
                # iterations x block size exceed the stack several times (tools/gen_c01_prog.py dyn_alloca_family)
                p_dyn_alloca_loop=0.12)


def regen():
    """translator tie: opcode lists of the link-time shortcuts from mir.c"""
    import tr_c04_shortcuts
    return tr_c04_shortcuts.regenerate()


def c04_programs(chk, n):
    rng = chk.rng('c04')
    progs = []
    for i in range(n):
        sub = random.Random(rng.getrandbits(64))
        o = dict(GEN_OPTS)
        o['nfuncs'] = sub.choice([2, 3, 4, 4, 5])
        progs.append(G.gen_program(sub, o))
    return progs


def top_alloca_sizes(f):
    """sizes of the leading group of adjacent constant allocas of a function as written"""
    sizes, regs = [], set()
    for ins in f.body:
        if ins.op == 'alloca' and isinstance(ins.ops[1], G.Imm) and isinstance(ins.ops[0], G.R) \
                and ins.ops[0].name not in regs:
            sizes.append(ins.ops[1].v); regs.add(ins.ops[0].name)
        else:
            break
    return sizes


def alloca_tie(chk, progs):
    """correspondence for the consolidation model (C04/Simplify.consolidate, theorems alloca_merge_*):
    the offsets/total MIR_link gives to adjacent constant allocas (library built with inlining off,
    harness engine S) must be the ones the extracted model computes for the sizes as written"""
    impl, model = c01.build(defs=dict(BUILDS)['noinline'])
    eng = c01.run_impl_parallel(impl, [p.harness_line('S') for p in progs])
    want, keys = [], []
    for pi, p in enumerate(progs):
        for it in p.items:
            if it[0] == 'func':
                sz = top_alloca_sizes(it[1])
                if sz:
                    keys.append((pi, it[1].name, sz))
                    want.append('C ' + ' '.join('%x' % x for x in sz))
    rc, mo, err = vlib.run_lines(model, want) if want else (0, [], '')
    bad = []
    for (pi, name, sz), m in zip(keys, mo):
        got = dict(x.split(':', 1) for x in eng[pi].get('S', '').split()[1:] if ':' in x).get(name)
        mm = dict(kv.split('=') for kv in m.split()[1:]) if m.startswith('ALLOCA') else {}
        exp = '%s:%s' % (mm.get('tot'), mm.get('offs'))
        chk.count(('alloca-tie', tuple(sz)), nontrivial=len(sz) >= 2)
        chk.dist('alloca-tie:group-size', len(sz))
        if got != exp:
            bad.append(dict(func=name, sizes=sz, code=got, model=exp, mir_text=progs[pi].text()))
    chk.log('alloca consolidation tie: %d groups compared, %d differ' % (len(keys), len(bad)))
    return bad


def run(chk):
    quick = chk.tier == 'quick'
    tie_ok, tie_msg = regen()
    r = chk.prove()
    chk.cov['trusted_base'] += [
        'extraction: ExtrOcamlBasic only, no Extract Constant/Inductive of our own',
        'ocaml/driver_c01.ml, harness/c01_engines.c (parse + run + print), tools/gen_c01_prog.py',
        'tools/tr_c04_shortcuts.py (regex over the shortcut condition of simplify_func in mir.c)',
        'NOT proved: process_inlines as a whole (register renaming, label duplication, cold code), jump threading, '
        'label renumbering: differential run only (inline_simulation not attempted)']
    n = 600 if quick else 2000
    progs = c04_programs(chk, n)
    total_div = 0
    nwd = 0
    for name, defs in BUILDS:
        impl, model = c01.build(defs=defs)
        c01.run_corpus(chk, impl, model, 'c04', ENGINES, defs)
        nwd, ndiv = c01.differential(chk, impl, model, progs, ENGINES, 'inline-' + name, defs=defs)
        total_div += ndiv
    chk.cov['rule'] = ('seeded well-defined multi-function MIR programs (calls/inlines in chains and recursively, allocas '
                      'in caller and callee, block args, multiple results/returns, narrow types) run as written by the '
                      'extracted Coq reference interpreter and, after MIR_link, by MIR_interp and MIR_gen -O0/-O1 with the '
                      'library built with default / zero / huge inlining thresholds; an evaluation = one (program, library '
                      'build, engine) triple; distinct by program text')
    tie_bad = alloca_tie(chk, progs)
    if tie_bad:
        chk.finding('alloca-model-tie:' + ','.join(map(str, tie_bad[0]['sizes'])), tie_bad[0],
                    'offsets MIR_link gives to consolidated allocas differ from the Coq model consolidate '
                    '(theorems alloca_merge_disjoint/aligned no longer describe the code): sizes %s code %s model %s'
                    % (tie_bad[0]['sizes'], tie_bad[0]['code'], tie_bad[0]['model']), no_input=total_div == 0)
    for p in progs[:2]:
        chk.sample(p.text()[:1500])
    if not tie_ok:
        chk.notes.append('shortcut translator: ' + tie_msg)
    if (not r['ok'] or not tie_ok) and total_div == 0:
        chk.proof_broken(r, searched='%d well-defined programs x 3 library builds agreed with the reference; %s' % (nwd, tie_msg))


def replay(chk, path):
    return c01.replay(chk, path)

# C03 differential part: generated multi-module programs under the five interfaces x link groupings x call orders.
import os, sys, json, hashlib, re, random
import vlib
sys.path.insert(0, os.path.join(vlib.VERIF, 'tools'))
import gen_c03_progs as G
import gen_c03_abi as A
import gen_c03_twins as T

IFACES = ['interp', 'mirinterp', 'gen', 'lazy', 'bb']
# every shape tools/gen_c03_progs.py knows (`alloca` in inlinable functions is back since C04's fixes of MIR_link's
# alloca hoisting: 12af6d7e, e5fccac4, a682f7ad, 92880028)
FEATS = {'mem', 'switch', 'laddr', 'lref', 'indirect', 'reftab', 'inline', 'recursion', 'callback', 'ext_va', 'global', 'faddr', 'alloca'}
PDIR = os.path.join(vlib.BUILD, 'c03p')


def build():
    # the C signature family (tools/gen_c03_abi.py) is generated into the build directory; its hash is part of the
    # include path and therefore of the harness's cache key
    hdr = A.sigs_header()
    hd = os.path.join(vlib.BUILD, 'c03sig-' + hashlib.sha256(hdr.encode()).hexdigest()[:16])
    if not os.path.exists(os.path.join(hd, 'c03_sigs.h')):
        os.makedirs(hd, exist_ok=True)
        tmp = os.path.join(hd, 'c03_sigs.h.tmp%d' % os.getpid())
        with open(tmp, 'w') as f:
            f.write(hdr)
        os.rename(tmp, os.path.join(hd, 'c03_sigs.h'))
    return vlib.build_harness('c03_ifaces', ['c03_ifaces.c'], extra_flags=['-I' + hd, '-DPROG_H="%s"' % vlib.file_hash([os.path.join(vlib.VERIF, 'harness', 'c03_prog.h')])])


def write_prog(text, tag):
    os.makedirs(PDIR, exist_ok=True)
    p = os.path.join(PDIR, '%s-%d.mir' % (tag, os.getpid()))
    with open(p, 'w') as f:
        f.write(text)
    return p


def group_specs(rng, prog):
    """link groupings to run: every interface alone, plus mixed assignments when the module layering allows
    separate links (callee modules first)"""
    n = prog['nmodules']
    allm = ','.join(str(i) for i in range(n))
    specs = [('%s:%s' % (i, allm)) for i in IFACES]
    if prog['layered'] and n > 1:
        for _ in range(2):
            ifs = [rng.choice(['interp', 'gen', 'lazy', 'bb']) for _ in range(n)]
            specs.append('/'.join('%s:%d' % (ifs[m], m) for m in range(n)))
        # same interface, but linked module by module
        i = rng.choice(['gen', 'lazy', 'bb', 'interp'])
        specs.append('/'.join('%s:%d' % (i, m) for m in range(n)))
    return specs


def canon(line):
    """what must be equal across interfaces: results, external-call log, memory, address stability"""
    return ' '.join(line.split())


PATCH_STATS = []   # (spec, patches of published code, of them straddling a page boundary, mask of page-offset buckets)


def run_prog(exe, path, specs, calls, opt=2, timeout=300):
    # a spec 'far!<groups>' runs with the far code allocator (harness: <opt>f), 'cnt!<groups>' with the allocator that
    # counts the patches of published code (<opt>p); the count is evidence, not behaviour: stripped from the answer
    lines = ['I %s %d%s %s | %s' % (path, opt, 'f' if s.startswith('far!') else ('p' if s.startswith('cnt!') else ''),
                                   s[4:] if s[:4] in ('far!', 'cnt!') else s, ' ; '.join(calls)) for s in specs]
    rc, out, err = vlib.run_lines(exe, lines, timeout=timeout)
    for i, o in enumerate(out):
        m = re.search(r' #patch=(\d+),(\d+),([0-9a-f]+)', o)
        if m:
            out[i] = o.replace(m.group(0), '')
            PATCH_STATS.append((i, int(m.group(1)), int(m.group(2)), int(m.group(3), 16)))
    # an ERROR answer spans several lines: re-split on the leading 'I'
    joined = []
    for o in out:
        if o.startswith('I') or not joined:
            joined.append(o)
        else:
            joined[-1] += ' ' + o
    while len(joined) < len(lines):
        joined.append('I NOANSWER')
    return [canon(j) for j in joined[:len(lines)]]


# (Historical) sites at which C01's once open defect (a block kept only for its label address stays in the CFG as an island; jump_opt
# then frees a label a kept branch still names, or meets a branch block without out edge) kills the generator at
# -O2/-O3.  A site is exempt from reporting only WHILE a recorded witness of corpus/c03_open_O2.jsonl still dies at it
# on the tree under test (see open_witness_sites): when the defect is cured the exemption ends by itself, and a site
# listed in KNOWN_FINDINGS.txt always goes through chk.finding.
C01_SITES = set()


def open_witness_sites(chk, exe):
    sites = set()
    f = os.path.join(vlib.VERIF, 'corpus', 'c03_open_O2.jsonl')
    if not os.path.exists(f):
        return sites
    for line in open(f):
        line = line.strip()
        if not line or line.startswith('#'):
            continue
        j = json.loads(line)
        p = write_prog(j['text'], 'open')
        outs = run_prog(exe, p, ['%s:%s' % (i, j['mods']) for i in ('interp', 'gen', 'lazy', 'bb')], j['calls'], j.get('opt', 2))
        dead = set(death_site(o) for o in outs if GEN_FAILED in o)
        chk.dist('open_witness', '%s:%s' % (j['name'], ','.join(sorted(dead)) or ('agree' if len(set(outs)) == 1 else 'differs')))
        sites |= dead
    return sites


GEN_FAILED = 'CRASH:gen:'   # the generator itself died while generating (see harness/c03_prog.h): C01's subject


def disagree(outs):
    """index of the first run that differs from run 0 (the C-call interpreter interface), or None.
    Not C03's findings: (a) every run fails in exactly the same way (e.g. MIR_link mis-inlines: the same broken
    code runs under every interface); (b) the code generator itself dies while generating a function -- that run
    has no behaviour to compare (counted in the evidence as generator_failed)."""
    live = [o for o in outs if GEN_FAILED not in o]
    if len(set(live)) <= 1 and not any(x in o for o in live for x in ('CHANGED', 'GENADDR')):
        return None
    if GEN_FAILED in outs[0] or 'CRASH' in outs[0] or 'ERROR' in outs[0] or 'NOANSWER' in outs[0]:
        return None if len(set(live)) <= 1 else 0
    for i, o in enumerate(outs):
        if GEN_FAILED in o:
            continue
        if o != outs[0] or 'CRASH' in o or 'ERROR' in o or 'NOANSWER' in o or 'CHANGED' in o or 'GENADDR' in o:
            return i
    return None


def settle(chk, exe, path, specs, cs, opt, outs, d):
    """A disagreement was seen: which two runs are the witness?  Normally (reference = run 0, run d).  A well-defined
    program is deterministic under every interface, so a run that does not reproduce (e.g. the interpreter shim reading
    beyond the register save area) while another one is clean and stable is itself the disagreement: the stable run
    becomes the reference.  Only when no run at all is clean and stable the program says nothing (counted)."""
    reruns = [run_prog(exe, path, specs, cs, opt) for _ in range(2)]
    stable = [all(r[i] == outs[i] for r in reruns) for i in range(len(specs))]
    if all(stable):
        return (1 if d == 0 else 0, d)
    good = [i for i in range(len(specs)) if stable[i] and GEN_FAILED not in outs[i]
            and not any(x in outs[i] for x in ('CRASH', 'ERROR', 'NOANSWER', 'CHANGED', 'GENADDR'))]
    un = [i for i in range(len(specs)) if not stable[i]]
    if not good:
        chk.dist('unstable_everywhere', 1)
        return None
    chk.dist('unstable_run', specs[un[0]].split(':')[0] if '/' not in specs[un[0]] else 'mixed')
    return (good[0], un[0])


# ---------------------------------------------------------------- shrinking

KEEP_RE = re.compile(r'^\s*(\w+:\s*$|local\b|global\b|mov gv, gsv|mov gsv, gv|ret\b|alloca\b|va_\w+\b|laddr\b|jmpi\b|add t1, t1, i64:\(t3\)|mov i64:\(al\d+\)|mov i64:24\(al\d+\)|endfunc|endmodule|import|export|forward|'
                     r'i2d d2, t0|dmul d2, d2, 3\.5|u?ext32 (\w+), \2\s*$|\w+\s+(t[0-3]|c\d+|va)\s*,)')


def removable(lines):
    """indices of body lines that can be dropped without making the program ill-formed or undefined"""
    idx = []
    infunc = False
    init = 0
    for i, l in enumerate(lines):
        s = l.strip()
        if re.match(r'^\w+:\s+func\b', s):
            infunc = True
            init = 0
            continue
        if s.startswith('endfunc'):
            infunc = False
            continue
        if not infunc:
            continue
        if s.startswith('local'):
            init = 1
            continue
        if 1 <= init < 2:
            # register initialisation block ends with the second "mov t0, 0"
            if s == 'mov t0, 0':
                init += 0.5
            continue
        if KEEP_RE.match(l):
            continue
        idx.append(i)
    return idx


def death_site(o):
    """'... CRASH:gen:<func>:<how>:<site>' -> site (innermost library function on the stack)"""
    w = o[o.index(GEN_FAILED):].split()[0].split(':')
    return w[4] if len(w) > 4 else 'unknown'


def shrink_prog(exe, text, specs2, calls, opt, site=None, max_steps=400):
    """delta-debug calls, then body lines, keeping 'the two runs in specs2 disagree and the reference run is clean'
    (or, with site, 'the generator still dies at that site')"""
    def bad(t, cs):
        p = write_prog(t, 'shrink')
        outs = run_prog(exe, p, specs2, cs, opt, timeout=60)
        ref = outs[0]
        if 'CRASH' in ref or 'ERROR' in ref or 'NOANSWER' in ref:
            return False
        if site is not None:
            return GEN_FAILED in outs[1] and death_site(outs[1]) == site
        return disagree(outs) is not None
    calls = vlib.shrink_list(calls, lambda cs: bad(text, cs), max_steps=40)
    lines = text.split('\n')
    rem = removable(lines)

    def fails(keep):
        ks = set(keep)
        t = '\n'.join(l for i, l in enumerate(lines) if i not in rem_set or i in ks)
        return bad(t, calls)
    rem_set = set(rem)
    keep = vlib.shrink_list(rem, fails, max_steps=max_steps) if rem else []
    ks = set(keep)
    text2 = '\n'.join(l for i, l in enumerate(lines) if i not in rem_set or i in ks)
    if not bad(text2, calls):
        return text, calls
    return text2, calls


# ---------------------------------------------------------------- register-file boundary signatures (round 3)

def abi_specs(rng, nmod):
    """every interface alone, then mixed assignments (all 12 non-uniform pairs for two modules: the caller's and the
    callee's engine both matter at a call through a public address), one module-by-module link"""
    allm = ','.join(str(i) for i in range(nmod))
    specs = ['%s:%s' % (i, allm) for i in IFACES]
    base = ['interp', 'gen', 'lazy', 'bb']
    if nmod == 2:
        specs += ['%s:0/%s:1' % (a, b) for a in base for b in base if a != b]
    else:
        seen = set()
        while len(seen) < 10:
            ifs = tuple(rng.choice(base) for _ in range(nmod))
            if len(set(ifs)) > 1:
                seen.add(ifs)
        specs += ['/'.join('%s:%d' % (i, m) for m, i in enumerate(ifs)) for ifs in sorted(seen)]
    i = rng.choice(base)
    specs.append('/'.join('%s:%d' % (i, m) for m in range(nmod)))
    return specs


def abi_report(chk, exe, d, specs, calls, opt, pair, outs):
    specs2 = [specs[pair[0]], specs[pair[1]]]

    def bad(t, cs):
        o = run_prog(exe, write_prog(t, 'shrink'), specs2, cs, opt, timeout=60)
        if 'CRASH' in o[0] or 'ERROR' in o[0] or 'NOANSWER' in o[0]:
            return False
        return disagree(o) is not None
    text = A.emit(d)
    if bad(text, calls):
        d, calls = A.shrink(d, calls, bad)
        text = A.emit(d)
    outs2 = run_prog(exe, write_prog(text, 'final'), specs2, calls, opt)
    sig = 'ifaces:' + hashlib.sha1((text + '|'.join(calls) + '|'.join(specs2)).encode()).hexdigest()[:12]
    sigs = ['%s: %s' % (c['name'], A.sig_text(c)) for c in d['callees']]
    what = 'interfaces disagree on a call through a public address: [%s] -> %s   vs   [%s] -> %s   (opt %d, calls: %s; signatures: %s)' % (
        specs2[0], outs2[0][:160], specs2[1], outs2[1][:160], opt, ' ; '.join(calls), ' | '.join(sigs)[:400])
    chk.finding(sig, dict(kind='ifaces', text=text, specs=specs2, calls=calls, opt=opt, outs=outs2,
                          original_features=A.features(d)), what)


def run_abi(chk, exe, found_limit=3):
    """Programs of tools/gen_c03_abi.py: one sweep = every number of fp (0..9) / int (0..7) parameters before a block of
    every class and size kind, for MIR-to-MIR calls and for the C signature family (entries from C, C callbacks)."""
    quick = chk.tier == 'quick'
    rng = chk.rng('abi')
    found = 0
    seen_sites = set()
    for sw in range(1 if quick else 6):
        shapes, sfam = A.sweep(rng)
        k = 0
        while shapes or sfam:
            sh, shapes = shapes[:5], shapes[5:]
            sf, sfam = sfam[:5], sfam[5:]
            d = A.gen_desc(rng, sh, sf)
            text = A.emit(d)
            calls = A.gen_calls(rng, d)
            opt = rng.choice([0, 1, 2, 3])
            specs = abi_specs(rng, d['nmod'])
            nolog = [c['name'] for c in d['callees'] if not c.get('tab')]
            if nolog and rng.random() < 0.2:
                calls = ['gen %s' % rng.choice(nolog)] + calls   # explicit MIR_gen before the first call
            path = write_prog(text, 'abi')
            outs = run_prog(exe, path, specs, calls, opt)
            for s, o in zip(specs, outs):
                chk.count((text, s, tuple(calls), opt), nontrivial=True)
                chk.dist('iface_runs', s.split(':')[0] if '/' not in s else 'mixed')
            for b in A.boundary_stats(d):
                chk.dist('abi_boundary', b)
            for ft in A.features(d):
                chk.dist('abi_features', ft)
            chk.dist('abi_programs', 'opt%d' % opt)
            if k == 0 and sw == 0:
                chk.sample('register-file boundary program: ' + ' | '.join('%s: %s' % (c['name'], A.sig_text(c)) for c in d['callees'])[:600]
                           + ' ; calls: ' + ' ; '.join(calls))
            k += 1
            for s, o in zip(specs, outs):
                if GEN_FAILED in o:
                    site = death_site(o)
                    chk.dist('generator_died_in', site)
                    if site not in seen_sites:
                        seen_sites.add(site)
                        if report_death(chk, exe, site, dict(text=text, features=A.features(d)), [specs[0], s], calls, opt):
                            found += 1
            di = disagree(outs)
            if di is not None:
                pair = settle(chk, exe, path, specs, calls, opt, outs, di)
                if pair is None:
                    continue
                found += 1
                abi_report(chk, exe, d, specs, calls, opt, pair, outs)
            if found >= found_limit:
                return found
    return found


# ---------------------------------------------------------------- histories mixing interfaces across link steps (round 3, y)

def hist_ops(steps, ref=False):
    """steps of tools/gen_c03_progs.py gen_mixed_history -> harness ops; ref: the interpreter-only reference (every link
    with the interpreter interface, no explicit MIR_gen, the same calls)"""
    ops = []
    for st in steps:
        if st[0] == 'link':
            ops.append('link %s:%s' % ('interp' if ref else st[2], ','.join(map(str, st[1]))))
        elif st[0] == 'gen':
            if not ref:
                ops.append('gen ' + st[1])
        else:
            ops.append(st[1])
    return ops


def run_hists(exe, path, opslists, opt, timeout=300, far=False):
    # far: every run but the first (the reference) uses the code allocator whose regions are > 2 GiB apart
    lines = ['I %s %d%s - | %s' % (path, opt, 'f' if far and i else '', ' ; '.join(ops)) for i, ops in enumerate(opslists)]
    rc, out, err = vlib.run_lines(exe, lines, timeout=timeout)
    joined = []
    for o in out:
        if o.startswith('I') or not joined:
            joined.append(o)
        else:
            joined[-1] += ' ' + o
    while len(joined) < len(lines):
        joined.append('I NOANSWER')
    # an explicit MIR_gen answers " g" (address as promised): not part of the behaviour compared with the reference
    return [re.sub(r' g(?= )', '', canon(j)) for j in joined[:len(lines)]]


def hist_bad(exe, text, steps, opt, site=None, far=False):
    outs = run_hists(exe, write_prog(text, 'shrink'), [hist_ops(steps, True), hist_ops(steps)], opt, timeout=60, far=far)
    if 'CRASH' in outs[0] or 'ERROR' in outs[0] or 'NOANSWER' in outs[0]:
        return False
    if site is not None:
        return GEN_FAILED in outs[1] and death_site(outs[1]) == site
    return disagree(outs) is not None


def shrink_hist(exe, text, steps, opt, site=None, far=False):
    """drop calls / explicit generations (link steps stay), then removable body lines"""
    idx = [i for i, st in enumerate(steps) if st[0] != 'link']
    keep = set(vlib.shrink_list(idx, lambda sub: hist_bad(exe, text, [st for i, st in enumerate(steps) if st[0] == 'link' or i in set(sub)], opt, site, far),
                                max_steps=60))
    steps = [st for i, st in enumerate(steps) if st[0] == 'link' or i in keep]
    lines = text.split('\n')
    rem = removable(lines)
    rem_set = set(rem)

    def fails(k):
        ks = set(k)
        return hist_bad(exe, '\n'.join(l for i, l in enumerate(lines) if i not in rem_set or i in ks), steps, opt, site, far)
    ks = set(vlib.shrink_list(rem, fails, max_steps=300)) if rem else set()
    text2 = '\n'.join(l for i, l in enumerate(lines) if i not in rem_set or i in ks)
    if not hist_bad(exe, text2, steps, opt, site, far):
        text2 = text
    return text2, steps


def run_mixed(chk, exe, found_limit=2):
    """Programs of gen_program (mixed=True) x histories of gen_mixed_history: one module linked lazily / per basic block /
    with the interpreter interface (+ explicit MIR_gen of single functions), partly executed, then another module --
    related or the unrelated island -- linked with another interface (typically eagerly), then the earlier functions
    executed on the paths not taken before.  Every history is compared with its interpreter-only reference."""
    quick = chk.tier == 'quick'
    rng = chk.rng('mixed')
    found = 0
    seen_sites = set()
    # Every fourth program runs with the code allocator whose regions are > 2 GiB apart (whole-function interfaces only:
    # lazy-BB is the known finding lazybb-far-code).  The two far-code defects these histories found (fixes/C03-5, C03-6)
    # are repaired in /repo; their witnesses are ordinary lines of corpus/c03_ifaces.jsonl.
    for k in range(40 if quick else 300):
        prog = G.gen_program(rng, feats=FEATS, mixed=True)
        opt = rng.choice([0, 1, 1, 2, 3])
        path = write_prog(prog['text'], 'mx')
        far = k % 4 == 3
        chk.dist('mixed_far_allocator', 'far' if far else 'near')
        for _ in range(2):
            steps = G.gen_mixed_history(rng, prog, ifaces=('interp', 'lazy', 'lazy', 'gen')) if k % 4 == 3 else G.gen_mixed_history(rng, prog)
            outs = run_hists(exe, path, [hist_ops(steps, True), hist_ops(steps)], opt, far=far)
            chk.count(('mixed', prog['text'], tuple(map(str, steps)), opt), nontrivial=True)
            chk.dist('iface_runs', 'mixed-history')
            chk.dist('mixed_link_sequence', '>'.join(st[2] for st in steps if st[0] == 'link'))
            for st in steps:
                chk.dist('mixed_steps', st[0])
            if k == 0:
                chk.sample('mixed-link history: ' + ' ; '.join(hist_ops(steps))[:500])
            site = None
            if GEN_FAILED in outs[1]:
                site = death_site(outs[1])
                chk.dist('generator_died_in', site)
                if site in seen_sites:
                    continue
                seen_sites.add(site)
            elif disagree(outs) is None:
                continue
            elif not hist_bad(exe, prog['text'], steps, opt, None, far) or not hist_bad(exe, prog['text'], steps, opt, None, far):
                chk.dist('unstable_run', 'mixed-history')   # did not reproduce twice: say so, do not report
                continue
            text, steps2 = shrink_hist(exe, prog['text'], steps, opt, site, far)
            outs2 = run_hists(exe, write_prog(text, 'final'), [hist_ops(steps2, True), hist_ops(steps2)], opt, far=far)
            rp = dict(kind='ifaces', text=text, steps=[list(st) for st in steps2], opt=opt, far=far, outs=outs2, original_features=prog['features'])
            if site is not None:
                if chk.finding('gen-died:' + site, rp, 'the code generator dies in %s at -O%d in a history mixing interfaces across link steps: %s -> %s' % (
                        site, opt, ' ; '.join(hist_ops(steps2))[:300], outs2[1][-120:])):
                    found += 1
            else:
                found += 1
                sig = 'ifaces:' + hashlib.sha1((text + '|'.join(hist_ops(steps2))).encode()).hexdigest()[:12]
                chk.finding(sig, rp, 'a history mixing interfaces across link steps disagrees with its interpreter-only reference: [%s] -> %s   vs   reference -> %s   (opt %d%s)' % (
                    ' ; '.join(hist_ops(steps2))[:400], outs2[1][:160], outs2[0][:160], opt, ', code regions > 2 GiB apart' if far else ''))
            break
        if found >= found_limit:
            break
    return found


# ---------------------------------------------------------------- prototype twins (round 3, wave 6)

def result_words(o):
    """the entry results of an answer 'I r r ... | log=...'"""
    return o.split('|')[0].split()[1:]


def run_twins(chk, exe, found_limit=2):
    """Programs of tools/gen_c03_twins.py: in ONE context several calls through prototypes identical except for one
    detail (block size / class, argument type, result type, number of (variable) arguments), to MIR functions through
    their address and to native C functions, in both orders (entry drv_f, then drv_r; drv_r, then drv_f; each alone):
    whatever an engine caches per call shape must be keyed by every detail.  Compared: the interfaces with each other
    (all five + assignments mixing them over the two modules) and every result with the value computed by the
    generator."""
    rng = chk.rng('ifaces-twins')
    found = 0
    for k in range(70 if chk.tier == 'quick' else 1500):
        prog = T.program(rng)
        d = prog['desc']
        opt = rng.choice([0, 1, 2, 2, 3])
        path = write_prog(prog['text'], 'twins')
        specs = ['%s:0,1' % i for i in IFACES]
        for _ in range(2):
            specs.append('/'.join('%s:%d' % (rng.choice(['interp', 'gen', 'lazy', 'bb']), m) for m in range(2)))
        sv = lambda: rng.choice([0, 1, -1, 255, 2 ** 31 - 1, -2 ** 31, 2 ** 40 + 3, rng.randint(-10 ** 12, 10 ** 12), rng.getrandbits(64) - 2 ** 63])
        av = [(sv(), sv()) for _ in range(2)]
        ents = [('drv_f', False) + av[0], ('drv_r', True) + av[1]]
        orders = [ents, ents[::-1], ents[:1], ents[1:]]
        for ft in prog['features']:
            chk.dist('twin_families', ft)
        chk.dist('twin_calls_per_program', len(d['calls']))
        for c in d['callees']:
            chk.dist('twin_callee_results', '+'.join(c['rets']))
        chk.dist('twin_callee_kinds', '+'.join(sorted(set(c[0] if c[0] != 'mir' else 'mir-' + c[2] for c in d['calls']))))
        if k == 0:
            chk.sample('prototype twins: ' + ' | '.join('%s: %s' % (c['name'], A.sig_text(c)) for c in d['callees'])[:500])
        done = False
        for order in orders:
            cs = ['call %s ii %d %d' % (n, a0, a1) for n, rev, a0, a1 in order]
            exp = [str(T.expected(d, rev, a0, a1)) for n, rev, a0, a1 in order]
            # (wave 7) the two-result entries, called from C through their address (MIR_interp_arr under mirinterp),
            # before or after the drivers
            mcs, mexp = [], []
            for m in d['mres']:
                b0, b1 = sv(), sv()
                mcs.append('call %s r2:%s %d %d' % (m['name'], ':'.join(m['rets']), b0, b1))
                mexp += [str(x) for x in T.expected_mre(m, b0 % 2 ** 64, b1 % 2 ** 64)]
                chk.dist('twin_two_result_entries', '+'.join(m['rets']))
            if order is orders[0] or order is orders[3]:
                cs, exp = cs + mcs, exp + mexp
            else:
                cs, exp = mcs + cs, mexp + exp
            outs = run_prog(exe, path, specs, cs, opt, timeout=120)
            for sp, o in zip(specs, outs):
                chk.count((prog['text'], sp, tuple(cs), opt), nontrivial=True)
                chk.dist('twin_runs', sp.split(':')[0] if '/' not in sp else 'mixed')
            dis = disagree(outs)
            if dis is not None:
                pair = settle(chk, exe, path, specs, cs, opt, outs, dis)
                if pair is None:
                    continue
                report(chk, exe, (prog, specs, cs, opt, pair, outs))
                found += 1
                done = True
                break
            bad = [i for i, o in enumerate(outs) if GEN_FAILED not in o and result_words(o) != exp]
            if bad:
                i = bad[0]
                sig = 'twins-expected:' + hashlib.sha1((prog['text'] + '|'.join(cs)).encode()).hexdigest()[:12]
                chk.finding(sig, dict(kind='ifaces', text=prog['text'], specs=[specs[i]], calls=cs, opt=opt, outs=[outs[i]], expected=exp,
                                      original_features=prog['features']),
                            'prototype twins under [%s]: results %s, expected %s (calls: %s; every interface gives the same answer)' % (
                                specs[i], ' '.join(result_words(outs[i]))[:160], ' '.join(exp), ' ; '.join(cs)))
                found += 1
                done = True
                break
        if found >= found_limit:
            break
    return found


# ---------------------------------------------------------------- run

def one_program(chk, exe, rng, k, quick, family='std'):
    # Optimisation level: every program runs at one of -O0..-O3 (census on HEAD f9a528c1, after C01-16..19: 48 seeds
    # x 10 programs x {-O2,-O3} x 8-9 interface runs: no value disagreement, no run-time crash).  What remains at
    # -O2/-O3 on programs WITH label addresses is one generator death owned by C01 (0.8% of programs): the
    # use-after-free of a label deleted by remove_unreachable_bbs (SIGSEGV in get_label_disp; under lazy-bb
    # get_bb_version), witnesses in corpus/c03_open_O2.jsonl.  For such programs a death at exactly those sites is
    # counted in the evidence (c01_owned_generator_death) and not reported here; any other death, and every death on
    # a program without label addresses or at -O0/-O1, is a finding of its own.
    opt = rng.choice([0, 1, 1, 2, 3])
    if family == 'big':
        # LARGE functions (tools/gen_c03_progs.py gen_big_program): machine code of many pages, thousands of patched call
        # sites and branches at all offsets modulo the page size
        prog = G.gen_big_program(rng)
        for sg in prog['big_segments']:
            chk.dist('big_segments', sg)
        for n in prog['big_insns']:
            chk.dist('big_function_insns', '%dk' % (n // 1000))
    elif family == 'lref':
        # lref data of every form whose labels stand in reachable and unreachable code (lref_dead)
        prog = G.gen_program(rng, feats=FEATS - {'lref', 'laddr'} if k % 3 == 0 else FEATS, lrefam=True)
        for sh in prog['lref_shapes']:
            chk.dist('lref_family_shapes', sh)
    else:
        prog = G.gen_program(rng, feats=FEATS)
    chk.dist('program_family', family)
    path = write_prog(prog['text'], 'p')
    ents = prog['entries']
    ncalls = rng.randint(2, 3) if family == 'big' else rng.randint(2, 6)
    calls = [G.gen_call(rng, rng.choice(ents)) for _ in range(ncalls)]
    # an explicit MIR_gen is a valid request only while the function has neither interpreter code nor bb
    # stubs attached (gen_assert (func_item->data == NULL)): ask before the first call
    # ... and only for functions without lref data: label addresses stored in data belong to one engine at a time
    # (MIR.md: "lref data are set up in interpreter or generator"), so generating a function explicitly and then
    # interpreting the same function is not a history the property quantifies over
    nolref = [f for f in prog['funcs'] if not f['lref']]
    pre = ['gen %s' % rng.choice(nolref)['name']] if nolref and rng.random() < 0.3 else []
    specs = group_specs(rng, prog)
    if family == 'big':
        # one more run with the allocator that counts the patches (evidence: how many patched sites straddle a page
        # boundary, which page offsets they reach); the whole-function engines and lazy-BB in turn
        allm = ','.join(str(i) for i in range(prog['nmodules']))
        specs.append('cnt!%s:%s' % (['gen', 'lazy', 'bb'][k % 3], allm))
        del PATCH_STATS[:]
    orders = [pre + calls]
    if len(calls) > 1 and family != 'big':
        c2 = list(calls)
        rng.shuffle(c2)
        orders.append(pre + c2)
    calls = pre + calls
    res = None
    deaths = []
    for cs in orders:
        outs = run_prog(exe, path, specs, cs, opt)
        for s, o in zip(specs, outs):
            chk.count((prog['text'], s, tuple(cs), opt), nontrivial=True)
            chk.dist('iface_runs', s.split(':')[0] if '/' not in s else 'mixed')
            if GEN_FAILED in o:
                site = death_site(o)
                chk.dist('generator_died_in', site)
                listed = any(sig == 'gen-died:' + site for sig, _ in chk.known)
                if not listed and opt >= 2 and site in C01_SITES and any(ft in prog['features'] for ft in ('laddr', 'lref', 'lref_diff')):
                    chk.dist('c01_owned_generator_death', site)   # until the site is listed in KNOWN_FINDINGS.txt
                else:
                    deaths.append((site, prog, [specs[0], s], cs, opt))
        for i, n, st, mask in PATCH_STATS if family == 'big' else []:
            chk.dist('big_patched_sites', '<100' if n < 100 else ('100-999' if n < 1000 else ('1000-4999' if n < 5000 else '5000+')))
            chk.dist('big_patches_straddling_a_page', '%s:%s' % (specs[i].split(':')[0][4:], 'none' if st == 0 else ('1-3' if st < 4 else '4+')))
            chk.dist('big_patch_page_offset_buckets_reached', bin(mask).count('1'))
        d = disagree(outs)
        if d is not None:
            pair = settle(chk, exe, path, specs, cs, opt, outs, d)
            if pair is None:
                continue
            res = (prog, specs, cs, opt, pair, outs)
            break
    if res is None and k % 3 == 0:
        # configuration: a user code allocator whose regions are > 2 GiB apart (thunks take their long form, calls
        # stay indirect); interpreter shim, eager and lazy whole-function generation must not notice
        allm = ','.join(str(i) for i in range(prog['nmodules']))
        fspecs = ['interp:' + allm] + ['far!%s:%s' % (i, allm) for i in ('interp', 'gen', 'lazy')]
        outs = run_prog(exe, path, fspecs, calls, opt)
        for s, o in zip(fspecs, outs):
            chk.count((prog['text'], s, tuple(calls), opt), nontrivial=True)
            chk.dist('iface_runs', s.split(':')[0])
        d = disagree(outs)
        if d is not None and not any(GEN_FAILED in o for o in outs):
            res = (prog, fspecs, calls, opt, (1 if d == 0 else 0, d), outs)
    for ft in prog['features']:
        chk.dist('prog_features', ft)
    chk.dist('prog_modules', prog['nmodules'])
    chk.dist('opt_level', opt)
    if k < 1:
        chk.sample('program with %d modules, %d functions, features %s; calls: %s' % (
            prog['nmodules'], len(prog['funcs']), ','.join(prog['features']), ' ; '.join(calls)))
    return res, deaths


def report(chk, exe, res):
    prog, specs, cs, opt, (ref, d), outs = res
    specs2 = [specs[ref], specs[d]]
    text, calls = shrink_prog(exe, prog['text'], specs2, cs, opt)
    p = write_prog(text, 'final')
    outs2 = run_prog(exe, p, specs2, calls, opt)
    sig = 'ifaces:' + hashlib.sha1((text + '|'.join(calls) + '|'.join(specs2)).encode()).hexdigest()[:12]
    what = 'interfaces disagree: [%s] -> %s   vs   [%s] -> %s   (opt %d, calls: %s)' % (
        specs2[0], outs2[0][:160], specs2[1], outs2[1][:160], opt, ' ; '.join(calls))
    chk.finding(sig, dict(kind='ifaces', text=text, specs=specs2, calls=calls, opt=opt, outs=outs2,
                          original_features=prog['features']), what)


def report_death(chk, exe, site, prog, specs2, cs, opt):
    """The code generator died (signal / exit) while generating: the function cannot run under that interface at
    all.  One finding per death site (innermost generator function on the stack), so that a listed known finding
    covers exactly that defect."""
    known = any(sig == 'gen-died:' + site for sig, _ in chk.known)
    text, calls = (prog['text'], cs) if known else shrink_prog(exe, prog['text'], specs2, cs, opt, site=site,
                                                               max_steps=150 if len(prog['text']) > 100000 else 400)
    p = write_prog(text, 'final')
    outs2 = run_prog(exe, p, specs2, calls, opt)
    return chk.finding('gen-died:' + site, dict(kind='ifaces', text=text, specs=specs2, calls=calls, opt=opt, outs=outs2),
                       'the code generator dies in %s at -O%d (interpreter runs the program): [%s] -> %s  (calls: %s)' % (
                           site, opt, specs2[1], outs2[1][-120:], ' ; '.join(calls)))


def run(chk):
    quick = chk.tier == 'quick'
    exe = build()
    rng = chk.rng('ifaces')
    nprog = 300 if quick else 2500
    found = 0
    corpus = os.path.join(vlib.VERIF, 'corpus', 'c03_ifaces.jsonl')
    if os.path.exists(corpus):
        for line in open(corpus):
            line = line.strip()
            if not line or line.startswith('#'):
                continue
            j = json.loads(line)
            p = write_prog(j['text'], 'corpus')
            specs = j.get('specs') or ['%s:%s' % (i, j['mods']) for i in IFACES]
            outs = run_prog(exe, p, specs, j['calls'], j.get('opt', 2))
            chk.count(('corpus', j['text']), nontrivial=True, n=len(specs))
            d = disagree(outs)
            if d is not None:
                found += 1
                report(chk, exe, (dict(text=j['text'], features=['corpus']), specs, j['calls'], j.get('opt', 2), (1 if d == 0 else 0, d), outs))
    # Recorded limitation (KNOWN_FINDINGS sig lazybb-far-code): lazy-BB generation needs every code region of the
    # context within +-2 GiB (rel32 in bb thunks / bb branches: _MIR_get_bb_thunk and _MIR_replace_bb_thunk truncate
    # silently -- coq: replace_bb_thunk_far_refuted --, setup_rel32 exits "too big offset").  Witness = a program run
    # with the far code allocator; it is run only while the finding is listed, so that a repair is noticed.
    far = os.path.join(vlib.VERIF, 'corpus', 'c03_far_bb.json')
    if os.path.exists(far) and any(sig == 'lazybb-far-code' for sig, _ in chk.known):
        j = json.load(open(far))
        p = write_prog(j['text'], 'farbb')
        specs = ['interp:' + j['mods'], 'far!bb:' + j['mods']]
        outs = run_prog(exe, p, specs, j['calls'], j['opt'])
        chk.count(('far-bb', j['text']), nontrivial=True, n=2)
        if outs[0] != outs[1] and 'CRASH' not in outs[0]:
            chk.finding('lazybb-far-code', dict(kind='ifaces', text=j['text'], specs=specs, calls=j['calls'], opt=j['opt'], outs=outs),
                        'lazy-BB generation with code regions > 2 GiB apart: %s' % outs[1][-160:])
    # No site is exempt any more: the defect family the exemption was for is repaired in /repo (C01-16/18/20),
    # its witnesses (corpus/c03_open_O2.jsonl) are replayed as ordinary regression cases, and every generator
    # death is reported through chk.finding ('gen-died:<site>'), i.e. only KNOWN_FINDINGS.txt can list one.
    C01_SITES.clear()
    for site in sorted(open_witness_sites(chk, exe)):
        chk.finding('gen-died:' + site, dict(kind='open-witness', corpus='corpus/c03_open_O2.jsonl', site=site),
                    'a recorded -O2/-O3 witness of corpus/c03_open_O2.jsonl kills the generator again at %s' % site)
    # register-file boundary signatures first (a fixed sweep, ~10 s)
    found += run_abi(chk, exe)
    if found >= 3:
        return True
    # prototype twins: calls through almost identical prototypes in one context, both orders (~15 s)
    found += run_twins(chk, exe)
    if found >= 3:
        return True
    # histories mixing interfaces across link steps (~10 s)
    found += run_mixed(chk, exe)
    if found >= 3:
        return True
    seen_sites = set()
    # the families of round 3, wave z, first (own random streams: the ordinary programs of a seed stay what they were)
    nbig, nlref = (8, 40) if quick else (60, 300)
    brng, lrng = chk.rng('ifaces-big'), chk.rng('ifaces-lref')
    plan = [('big', j, brng) for j in range(nbig)] + [('lref', j, lrng) for j in range(nlref)]
    plan += [('std', j, rng) for j in range(nprog)]
    for family, k, prng in plan:
        res, deaths = one_program(chk, exe, prng, k, quick, family)
        for site, prog, specs2, cs, opt in deaths:
            if site in seen_sites:
                continue
            seen_sites.add(site)
            if report_death(chk, exe, site, prog, specs2, cs, opt):   # a listed known finding does not end the search
                found += 1
        if res is not None:
            found += 1
            report(chk, exe, res)
        if found >= 3:
            break
    return found > 0


def replay(chk, rp):
    exe = build()
    p = write_prog(rp['text'], 'replay')
    if rp.get('steps'):
        steps = [tuple(st) for st in rp['steps']]
        outs = run_hists(exe, p, [hist_ops(steps, True), hist_ops(steps)], rp.get('opt', 2), far=rp.get('far', False))
        print(rp['text'])
        for s, o in zip((hist_ops(steps, True), hist_ops(steps)), outs):
            print('%s\n    -> %s' % (' ; '.join(s), o))
        return 1 if disagree(outs) is not None or GEN_FAILED in outs[1] else 0
    outs = run_prog(exe, p, rp['specs'], rp['calls'], rp.get('opt', 2))
    print(rp['text'])
    for s, o in zip(rp['specs'], outs):
        print('%-30s %s' % (s, o))
    if rp.get('expected') and any(result_words(o) != rp['expected'] for o in outs):
        print('expected results: %s' % ' '.join(rp['expected']))
        return 1
    return 1 if disagree(outs) is not None else 0

# C19: container headers vs Coq models (coq/C19/*.v), theorems in coq/Properties_C19.v
import os, sys
import vlib

LEVEL = 'proof'


def gen_varr(rng, nops):
    init = rng.choice([0, 1, 2, 3, 5, 64])
    n = 0
    ops = []
    for _ in range(nops):
        k = rng.random()
        if k < 0.35 or n == 0 and k < 0.7:
            ops.append('push %d' % rng.randint(-99, 99)); n += 1
        elif k < 0.45:
            m = rng.randint(0, 6)
            ops.append('pusharr ' + ' '.join(str(rng.randint(-99, 99)) for _ in range(m))); n += m
        elif k < 0.55 and n > 0:
            ops.append('pop'); n -= 1
        elif k < 0.62:
            t = rng.randint(0, n); ops.append('trunc %d' % t); n = t
        elif k < 0.68:
            ops.append('expand %d' % rng.randint(0, 2 * n + 3))
        elif k < 0.73:
            t = rng.randint(0, n + 4); ops.append('tailor %d' % t); n = t
        elif k < 0.81 and n > 0:
            ops.append('set %d %d' % (rng.randint(0, n - 1), rng.randint(-99, 99)))
        elif k < 0.89 and n > 0:
            ops.append('get %d' % rng.randint(0, n - 1))
        elif k < 0.93 and n > 0:
            ops.append('last')
        elif k < 0.97:
            ops.append('len')
        else:
            ops.append('cap')
    return 'varr %d : ' % init + ' ; '.join(ops)


def same(a, b):
    """token-wise comparison; '?' in the model output is a wildcard (undefined cell)"""
    ta, tb = a.split(), b.split()
    if len(ta) != len(tb):
        return False
    for x, y in zip(ta, tb):
        if y in ('?', 'v?'):
            continue
        if x != y:
            return False
    return True


def correspond(chk, impl, model, scripts):
    rc1, o1, e1 = vlib.run_lines(impl, scripts)
    rc2, o2, e2 = vlib.run_lines(model, scripts)
    bad = []
    if rc2 != 0 or len(o2) != len(scripts):
        raise vlib.BuildError('model driver failed: rc=%d %s' % (rc2, e2[-500:]))
    if rc1 != 0 or len(o1) != len(scripts):
        # implementation crashed on some script: find it
        for s in scripts:
            r, o, e = vlib.run_lines(impl, [s])
            if r != 0 or len(o) != 1:
                bad.append((s, 'CRASH rc=%d %s' % (r, e[-300:]), vlib.run_lines(model, [s])[1][0]))
                break
        return bad
    for s, a, b in zip(scripts, o1, o2):
        if not same(a, b):
            bad.append((s, a, b))
    return bad


def shrink_script(impl, model, script):
    hd, ops = script.split(':', 1)
    ops = [o.strip() for o in ops.split(';') if o.strip()]

    def fails(sub):
        s = hd + ': ' + ' ; '.join(sub)
        r2, o2, _ = vlib.run_lines(model, [s])
        if r2 != 0 or not o2 or 'REJECT' in o2[0]:
            return False
        r1, o1, _ = vlib.run_lines(impl, [s])
        return r1 != 0 or not o1 or not same(o1[0], o2[0])
    sub = vlib.shrink_list(ops, fails)
    return hd + ': ' + ' ; '.join(sub)


def run(chk):
    quick = chk.tier == 'quick'
    r = chk.prove()
    impl = vlib.build_harness('c19_adt', ['c19_adt.c'], units=())
    model = vlib.ocaml_build('c19', 'Extract_C19', ['c19x'], 'driver_c19.ml')
    chk.cov['trusted_base'] += ['extraction: ExtrOcamlBasic only, no Extract Constant/Inductive of our own',
                                'ocaml/driver_c19.ml, harness/c19_adt.c (parse + print only)']
    scripts = []
    corpus = os.path.join(vlib.VERIF, 'corpus', 'c19.txt')
    if os.path.exists(corpus):
        scripts += [l.strip() for l in open(corpus) if l.strip() and not l.startswith('#')]
    rng = chk.rng('varr')
    nscripts = 400 if quick else 20000
    for i in range(nscripts):
        scripts.append(gen_varr(rng, rng.choice([3, 8, 20, 60])))
    for s in scripts:
        chk.count(s, nontrivial=s.count(';') >= 2)
        chk.dist('kinds', s.split()[0])
        for o in s.split(':', 1)[1].split(';'):
            w = o.split()
            if w:
                chk.dist('ops', w[0])
    chk.cov['rule'] = ('seeded op scripts run on the real headers (harness/c19_adt.c) and on the extracted Coq model; '
                      'a case is non-trivial when it has >= 3 ops; distinct by script text')
    for s in scripts[:3]:
        chk.sample(s)
    bad = correspond(chk, impl, model, scripts)
    for s, a, b in bad[:3]:
        small = shrink_script(impl, model, s)
        ra = vlib.run_lines(impl, [small])[1]
        rb = vlib.run_lines(model, [small])[1]
        chk.finding('diff:' + small, dict(script=small, impl=ra, model=rb, original=s),
                    'container implementation and verified model disagree on: %s' % small)
    if not r['ok'] and not bad:
        chk.proof_broken(r, searched='%d scripts agreed between model and implementation' % len(scripts))


def replay(chk, path):
    import json
    j = json.load(open(path))
    impl = vlib.build_harness('c19_adt', ['c19_adt.c'], units=())
    model = vlib.ocaml_build('c19', 'Extract_C19', ['c19x'], 'driver_c19.ml')
    s = j['replay']['script']
    a = vlib.run_lines(impl, [s])[1]
    b = vlib.run_lines(model, [s])[1]
    print('script:', s); print('impl :', a); print('model:', b)
    return 0 if a and b and same(a[0], b[0]) else 1

# C19: container headers vs Coq models (coq/C19/*.v), theorems in coq/Properties_C19.v
#
# Tie: hand-written models => correspondence.  The same op scripts are run on the real headers
# (harness/c19_adt.c, compiled against $VERIF_REPO) and on the model extracted from Coq
# (ocaml/driver_c19.ml); every observation is diffed.  Output tokens starting with '#' are
# bookkeeping (capacity, realloc events, word length of a bitmap, collisions, slot layout): the
# property does not talk about them, the models do.  A disagreement on any other token is a concrete
# failing input (=> finding); a disagreement on '#'-tokens only means the model no longer describes
# the code although no property observable differs (=> tie broken, "no-failing-input-found").
import os, sys, json, itertools
import vlib

LEVEL = 'proof'
KINDS = ['varr', 'bitmap', 'htab', 'dlist']


# ------------------------------------------------------------------ generators
def gen_varr(rng, nops):
    init = rng.choice([0, 1, 2, 3, 5, 64])
    n = 0
    ops = []
    for _ in range(nops):
        k = rng.random()
        if k < 0.35 or n == 0 and k < 0.7:
            ops.append('push %d' % rng.randint(-99, 99)); n += 1
        elif k < 0.45:
            m = rng.randint(0, 6)
            ops.append('pusharr ' + ' '.join(str(rng.randint(-99, 99)) for _ in range(m))); n += m
        elif k < 0.55 and n > 0:
            ops.append('pop'); n -= 1
        elif k < 0.62:
            t = rng.randint(0, n); ops.append('trunc %d' % t); n = t
        elif k < 0.68:
            ops.append('expand %d' % rng.randint(0, 2 * n + 3))
        elif k < 0.73:
            t = rng.randint(0, n + 4); ops.append('tailor %d' % t); n = t
        elif k < 0.81 and n > 0:
            ops.append('set %d %d' % (rng.randint(0, n - 1), rng.randint(-99, 99)))
        elif k < 0.89 and n > 0:
            ops.append('get %d' % rng.randint(0, n - 1))
        elif k < 0.93 and n > 0:
            ops.append('last')
        elif k < 0.97:
            ops.append('len')
        else:
            ops.append('cap')
    return 'varr %d : ' % init + ' ; '.join(ops)


BOUNDARY_BITS = [0, 1, 62, 63, 64, 65, 126, 127, 128, 129, 191, 192, 200, 255, 256]
BOUNDARY_LENS = [0, 1, 2, 62, 63, 64, 65, 66, 127, 128, 129, 130, 192]
OP2 = ['and', 'andc', 'ior']
OP3 = ['iorand', 'iorandc']


def gen_bitmap(rng, nops):
    """random script biased to word boundaries and aliased operands"""
    nb = rng.choice([1, 2, 2, 3, 3, 4])
    maxbit = rng.choice([70, 140, 300])

    def bit():
        if rng.random() < 0.6:
            return rng.choice([b for b in BOUNDARY_BITS if b <= maxbit])
        return rng.randint(0, maxbit)

    def bm():
        return rng.randrange(nb)
    ops = []
    for _ in range(nops):
        k = rng.random()
        if k < 0.22:
            ops.append('set %d %d' % (bm(), bit()))
        elif k < 0.30:
            ops.append('clr %d %d' % (bm(), bit()))
        elif k < 0.38:
            ln = rng.choice(BOUNDARY_LENS) if rng.random() < 0.6 else rng.randint(0, 140)
            ops.append('%s %d %d %d' % (rng.choice(['setr', 'clrr']), bm(), bit(), ln))
        elif k < 0.58:
            ops.append('%s %d %d %d' % (rng.choice(OP2), bm(), bm(), bm()))
        elif k < 0.72:
            ops.append('%s %d %d %d %d' % (rng.choice(OP3), bm(), bm(), bm(), bm()))
        elif k < 0.76:
            ops.append('copy %d %d' % (bm(), bm()))
        elif k < 0.80:
            ops.append('%s %d %d' % (rng.choice(['eq', 'isect']), bm(), bm()))
        elif k < 0.86:
            ops.append('%s %d' % (rng.choice(['empty', 'count', 'min', 'max']), bm()))
        elif k < 0.89:
            ops.append('bit %d %d' % (bm(), bit()))
        elif k < 0.92:
            ops.append('iter %d' % bm())
        elif k < 0.94:
            ops.append('iinit %d' % bm())
        elif k < 0.97:
            ops.append('inext')
        elif k < 0.985:
            ops.append('expand %d %d' % (bm(), bit()))
        else:
            ops.append('clear %d' % bm())
    return 'bitmap %d : ' % nb + ' ; '.join(ops)


def bitmap_state_sweep(bits, tails):
    """exhaustive op2/op3 sweep: every assignment of values (subset of `bits`, plus t trailing zero
    words for t in tails) to three bitmaps, every op, every choice of operand ids (all aliasing
    patterns).  Masters are kept in bitmaps 3..5 and copied back before each op."""
    vals = []
    for r in range(len(bits) + 1):
        for sub in itertools.combinations(bits, r):
            for t in tails:
                vals.append((sub, t))
    ids3 = list(itertools.product(range(3), repeat=3))
    ids4 = list(itertools.product(range(3), repeat=4))
    for combo in itertools.product(vals, repeat=3):
        ops = []
        for k, (sub, t) in enumerate(combo):
            for b in sub:
                ops.append('set %d %d' % (3 + k, b))
            if t:
                top = (max(sub) // 64 + 1 if sub else 0) + t
                ops.append('expand %d %d' % (3 + k, top * 64))
        restore = ['copy 0 3', 'copy 1 4', 'copy 2 5']
        for o in OP2:
            for d, a, b in ids3:
                ops += restore + ['%s %d %d %d' % (o, d, a, b)]
        for o in OP3:
            for d, a, b, c in ids4:
                ops += restore + ['%s %d %d %d %d' % (o, d, a, b, c)]
        yield 'bitmap 6 : ' + ' ; '.join(ops)


def bitmap_seq_sweep(L):
    """every op sequence of length L over a tiny alphabet on two bitmaps"""
    alpha = []
    for b in (0, 1):
        for n in (0, 64):
            alpha += ['set %d %d' % (b, n), 'clr %d %d' % (b, n)]
        alpha += ['setr %d 63 2' % b, 'clrr %d 62 3' % b, 'iter %d' % b]
    for d, a, b in itertools.product((0, 1), repeat=3):
        alpha += ['%s %d %d %d' % (o, d, a, b) for o in OP2]
    alpha += ['iorandc 0 0 1 0', 'iorand 1 0 0 1', 'copy 0 1', 'copy 1 0', 'eq 0 1']
    for seq in itertools.product(alpha, repeat=L):
        yield 'bitmap 2 : ' + ' ; '.join(seq)


HASHES = [0, 0, 1, 1, 2, 3, 4, 5, 7, 8, 9, 16, 17, 2048, 2049, 4096, 1 << 22, (1 << 22) + 1, 0xffffffff, 0xfffff800,
          0x80000000, 12345, 99991]


MIRHASH = {}   # seed -> hash values of keys 0..63 computed by the repo's mir_hash (filled in by run())


def gen_htab(rng, nops):
    """random script; hash table chosen to force collisions / value 0 / high bits (peterb); phases that fill the
    element array (els_bound == els_size => rebuild) and delete + re-insert (tombstone reuse, compaction)"""
    nkeys = rng.choice([2, 3, 4, 6, 9, 14, 24])
    mode = rng.random()
    if mode < 0.25:
        table = [rng.choice([0, 1, 4]) for _ in range(nkeys)]          # everything collides
    elif mode < 0.5:
        table = [rng.choice(HASHES) for _ in range(nkeys)]
    elif mode < 0.75:
        m = rng.choice([4, 8, 16])
        table = [rng.randrange(4) * m + rng.choice([0, 0, 1]) for _ in range(nkeys)]   # same low bits
    elif mode < 0.87 and MIRHASH:
        table = MIRHASH[rng.choice(sorted(MIRHASH))][:nkeys]          # the repo's own hash function
    else:
        table = [rng.randrange(1 << 32) for _ in range(nkeys)]
    min_size = rng.choice([0, 1, 2, 3, 4, 5, 8])
    ops = []
    present = set()
    while len(ops) < nops:
        k = rng.random()
        key = rng.randrange(nkeys)
        if k < 0.12:       # churn: delete + re-insert the same key several times (tombstones, els_bound creeps up)
            for _ in range(rng.randint(1, 4)):
                ops += ['del %d' % key, '%s %d %d' % (rng.choice(['ins', 'rep']), key, rng.randint(0, 9))]
            present.add(key)
        elif k < 0.40:
            ops.append('ins %d %d' % (key, rng.randint(0, 9))); present.add(key)
        elif k < 0.55:
            ops.append('rep %d %d' % (key, rng.randint(0, 9))); present.add(key)
        elif k < 0.72:
            if present and rng.random() < 0.8:
                key = rng.choice(sorted(present))
            ops.append('del %d' % key); present.discard(key)
        elif k < 0.88:
            ops.append('find %d' % key)
        elif k < 0.91:
            ops.append('num')
        elif k < 0.94:
            ops.append('each')
        elif k < 0.96:
            ops.append('coll')
        elif k < 0.98:
            ops.append('clear'); present.clear()
        else:                 # fill: insert every key
            ops += ['ins %d %d' % (q, rng.randint(0, 9)) for q in range(nkeys)]
            present = set(range(nkeys))
    return 'htab %d %s : ' % (min_size, ' '.join(map(str, table))) + ' ; '.join(ops)


def gen_htab_churn(rng, nops):
    """round 3: histories at a SMALL, roughly constant population over MANY distinct keys, so that the table
    never grows on its own account while insert/delete pairs keep turning empty entries into tombstones:
    what bounds the number of non-empty entries (live + tombstones <= els_bound <= entries/2, rebuild when
    the element array is full) is exercised for dozens of steps.  Deletions are aimed at the two ends of
    the element array (the newest element = last slot, the oldest = first slot) and at random ones;
    absent keys are looked up throughout (a probe for an absent key ends only at an empty entry)."""
    nkeys = rng.choice([12, 24, 40, 64])
    mode = rng.random()
    if mode < 0.35:
        table = list(range(nkeys))                                    # identity: every key its own entry
        rng.shuffle(table)
    elif mode < 0.5:
        table = [k * rng.choice([3, 5, 7]) + 1 for k in range(nkeys)]
    elif mode < 0.7 and MIRHASH:
        table = MIRHASH[rng.choice(sorted(MIRHASH))][:nkeys]
    elif mode < 0.85:
        table = [rng.randrange(1 << 32) for _ in range(nkeys)]
    else:
        table = [rng.choice(HASHES) for _ in range(nkeys)]
    min_size = rng.choice([0, 2, 4, 4, 5, 8, 8, 16])
    base = rng.randint(0, max(0, min(min_size, nkeys // 2) - 1))      # resident population below els_size
    order = []                                                        # live keys, oldest first
    ops = []
    absent = list(range(nkeys))
    rng.shuffle(absent)

    def ins():
        k = absent.pop(0)
        order.append(k)
        ops.append('%s %d %d' % (rng.choice(['ins', 'ins', 'rep']), k, rng.randint(0, 9)))

    def dele(k):
        order.remove(k)
        absent.append(k)                                              # comes back much later (other keys first)
        ops.append('del %d' % k)
    for _ in range(base):
        ins()
    style = rng.choice(['newest', 'newest', 'oldest', 'random', 'mixed'])
    while len(ops) < nops and absent:
        for _ in range(rng.choice([1, 1, 1, 2, 3])):
            if absent:
                ins()
        r = rng.random()
        if r < 0.25 and absent:
            ops.append('find %d' % rng.choice(absent))
        elif r < 0.3:
            ops.append(rng.choice(['num', 'each', 'coll']))
        while len(order) > base:
            st = style if style != 'mixed' else rng.choice(['newest', 'oldest', 'random'])
            dele(order[-1] if st == 'newest' else order[0] if st == 'oldest' else rng.choice(order))
        if rng.random() < 0.2 and absent:
            ops.append('find %d' % rng.choice(absent))
    return 'htab %d %s : ' % (min_size, ' '.join(map(str, table))) + ' ; '.join(ops)


def htab_seq_sweep(L, tables, nkeys=3):
    alpha = []
    for k in range(nkeys):
        alpha += ['find %d' % k, 'ins %d 1' % k, 'rep %d 2' % k, 'del %d' % k]
    alpha.append('clear')
    for t in tables:
        hd = 'htab 1 %s : ' % ' '.join(map(str, t))
        for seq in itertools.product(alpha, repeat=L):
            yield hd + ' ; '.join(seq)


def gen_dlist(rng, nops):
    n = rng.choice([1, 2, 3, 4, 6, 10])
    l = []
    ops = []
    for _ in range(nops):
        k = rng.random()
        free = [e for e in range(n) if e not in l]
        if k < 0.02:      # an illegal op ends the script on both sides (REJECT)
            ops.append(rng.choice(['pre %d' % rng.randrange(n + 1), 'rem %d' % rng.randrange(n + 1),
                                   'insb %d %d' % (rng.randrange(n), rng.randrange(n))]))
            # keep the python-side list in step when the op happens to be legal
            w = ops[-1].split()
            a = int(w[1])
            if w[0] == 'pre' and a < n and a not in l:
                l.insert(0, a)
            elif w[0] == 'rem' and a in l:
                l.remove(a)
            elif w[0] == 'insb' and a in l and int(w[2]) not in l:
                l.insert(l.index(a), int(w[2]))
            else:
                break
        elif k < 0.45 and free:
            e = rng.choice(free)
            c = rng.random()
            if c < 0.25 or not l:
                if rng.random() < 0.5:
                    ops.append('pre %d' % e); l.insert(0, e)
                else:
                    ops.append('app %d' % e); l.append(e)
            elif c < 0.6:
                b = rng.choice([l[0], l[-1], rng.choice(l)])
                ops.append('insb %d %d' % (b, e)); l.insert(l.index(b), e)
            else:
                a = rng.choice([l[0], l[-1], rng.choice(l)])
                ops.append('insa %d %d' % (a, e)); l.insert(l.index(a) + 1, e)
        elif k < 0.70 and l:
            e = rng.choice([l[0], l[-1], rng.choice(l)])
            ops.append('rem %d' % e); l.remove(e)
        elif k < 0.80:
            ops.append('el %d' % rng.randint(-len(l) - 2, len(l) + 1))
        elif k < 0.84:
            ops.append('len')
        elif k < 0.88:
            ops.append(rng.choice(['head', 'tail']))
        elif l:
            ops.append('%s %d' % (rng.choice(['next', 'prev']), rng.choice(l)))
    return 'dlist %d : ' % n + ' ; '.join(ops or ['len'])


def dlist_seq_sweep(L, n=3):
    """every legal sequence of <= L mutators over n nodes, followed by all observers"""
    def rec(l, seq):
        obs = ['el %d' % i for i in range(-len(l) - 1, len(l) + 1)] + ['len', 'head', 'tail']
        obs += ['next %d' % e for e in l] + ['prev %d' % e for e in l]
        yield 'dlist %d : ' % n + ' ; '.join(seq + obs)
        if len(seq) >= L:
            return
        for e in range(n):
            if e not in l:
                yield from rec([e] + l, seq + ['pre %d' % e])
                yield from rec(l + [e], seq + ['app %d' % e])
                for b in l:
                    i = l.index(b)
                    yield from rec(l[:i] + [e] + l[i:], seq + ['insb %d %d' % (b, e)])
                    yield from rec(l[:i + 1] + [e] + l[i + 1:], seq + ['insa %d %d' % (b, e)])
            else:
                yield from rec([x for x in l if x != e], seq + ['rem %d' % e])
    yield from rec([], [])


GEN = {'varr': gen_varr, 'bitmap': gen_bitmap, 'htab': gen_htab, 'dlist': gen_dlist}


# ------------------------------------------------------------------ comparison
def cmp_lines(a, b):
    """a = implementation line, b = model line.  Returns 'same' | 'book' (only '#'-tokens differ)
    | 'diff' (a property observable differs).  '?'/'v?' in the model output = undefined cell."""
    if a == b:
        return 'same'
    ta, tb = a.split(), b.split()
    ra = [t for t in ta if not t.startswith('#')]
    rb = [t for t in tb if not t.startswith('#')]
    if len(ra) != len(rb):
        return 'diff'
    for x, y in zip(ra, rb):
        if y in ('?', 'v?'):
            continue
        if x != y:
            return 'diff'
    ba = [t for t in ta if t.startswith('#')]
    bb = [t for t in tb if t.startswith('#')]
    return 'same' if ba == bb else 'book'


def features(chk, script, out):
    """measured distribution of what the scripts exercised (from the implementation's own output)"""
    kind = script.split(None, 1)[0]
    if kind in ('htab', 'htabn'):
        if kind == 'htabn':
            chk.dist('htab_features', 'scripts_without_free_func', 1)
        toks = out.split()
        zs = [t for t in toks if t.startswith('#z')]
        es = [t[2:].split(',') for t in toks if t.startswith('#E')]
        rebuilds = sum(1 for a, b in zip(zs, zs[1:]) if a != b)
        reuse = 0
        compact = 0
        for (a, b), (za, zb) in zip(zip(es, es[1:]), zip(zs, zs[1:])):
            if za == zb and any(x == 'x' and y not in ('x', '.') for x, y in zip(a, b)):
                reuse += 1
            if za != zb and 'x' in a:
                compact += 1
        chk.dist('htab_rebuilds_per_script', min(rebuilds, 4))
        chk.dist('htab_features', 'tombstone_reused', reuse)
        chk.dist('htab_features', 'rebuild_with_tombstones', compact)
        chk.dist('htab_features', 'found', out.count(' f1 '))
        chk.dist('htab_features', 'not_found', out.count(' f0 '))
        if script.split(':')[0].split()[2:].count('0'):
            chk.dist('htab_features', 'scripts_with_hash_0', 1)
    elif kind == 'bitmap':
        for o in script.split(':', 1)[1].split(';'):
            w = o.split()
            if w and w[0] in OP2 + OP3:
                ids = w[1:]
                canon = {}
                pat = ''.join(str(canon.setdefault(i, len(canon))) for i in ids)
                chk.dist('bitmap_alias_patterns', pat)
        chk.dist('bitmap_features', 'flag_true', out.count(' b1 '))
        chk.dist('bitmap_features', 'flag_false', out.count(' b0 '))


def run_both(impl, model, scripts, chk=None):
    """returns list of (script, impl_line, model_line, verdict) for the scripts that do not agree"""
    rc2, o2, e2 = vlib.run_lines(model, scripts)
    if rc2 != 0 or len(o2) != len(scripts):
        raise vlib.BuildError('model driver failed: rc=%d %s' % (rc2, e2[-500:]))
    # the implementation may crash or hang on a script: the harness is line-buffered, so the lines
    # before the crash are there; the crashing script gets a CRASH line and the run resumes after it
    o1 = []
    restarts = 0
    while len(o1) < len(scripts):
        rc1, out, e1 = vlib.run_lines(impl, scripts[len(o1):], timeout=600)
        o1 += out[:len(scripts) - len(o1)]
        if len(o1) >= len(scripts):
            break
        if rc1 != 3:          # rc 3 = stopped after 5 hangs, every line produced is complete
            o1.append('CRASH rc=%d %s' % (rc1, e1[-200:].replace('\n', ' ')))
        restarts += 1
        if restarts > 6:
            o1 += ['NOT-RUN'] * (len(scripts) - len(o1))
    bad = []
    for s, a, b in zip(scripts, o1, o2):
        if a == 'NOT-RUN':
            continue
        v = cmp_lines(a, b)
        if v != 'same':
            bad.append((s, a, b, v))
        if chk is not None and not s.startswith('bitmap 6'):
            features(chk, s, a)
    return bad


def shrink_script(impl, model, script, verdict):
    hd, ops = script.split(':', 1)
    ops = [o.strip() for o in ops.split(';') if o.strip()]

    def fails(sub):
        s = hd + ': ' + ' ; '.join(sub)
        r2, o2, _ = vlib.run_lines(model, [s])
        if r2 != 0 or not o2 or 'REJECT' in o2[0]:
            return False
        r1, o1, _ = vlib.run_lines(impl, [s], timeout=20)
        if r1 != 0 or not o1:
            return verdict == 'diff'
        return cmp_lines(o1[0], o2[0]) == verdict
    sub = vlib.shrink_list(ops, fails)
    return hd + ': ' + ' ; '.join(sub)


def first_divergence(a, b):
    """first differing property observable (else first differing bookkeeping token)"""
    ta, tb = a.split(), b.split()
    book = None
    for i, (x, y) in enumerate(zip(ta, tb)):
        if x != y and y not in ('?', 'v?'):
            d = 'token %d: implementation %s, model %s' % (i, x, y)
            if not (x.startswith('#') and y.startswith('#')):
                return d
            book = book or d + ' (bookkeeping)'
    if len(ta) != len(tb):
        return 'lengths differ: implementation %d tokens, model %d' % (len(ta), len(tb))
    return book or 'no difference'


# ------------------------------------------------------------------ the check
def build(chk=None):
    impl = vlib.build_harness('c19_adt', ['c19_adt.c'], units=())
    model = vlib.ocaml_build('c19', 'Extract_C19', ['c19x'], 'driver_c19.ml')
    return impl, model


def script_stream(chk):
    """yields (origin, script)"""
    quick = chk.tier == 'quick'
    corpus = os.path.join(vlib.VERIF, 'corpus', 'c19.txt')
    if os.path.exists(corpus):
        for l in open(corpus):
            l = l.strip()
            if l and not l.startswith('#') and l.split()[0] in KINDS + ['htabn']:
                yield 'corpus', l
    budget = {'varr': 400 if quick else 20000, 'bitmap': 1500 if quick else 60000,
              'htab': 1500 if quick else 60000, 'dlist': 800 if quick else 30000}
    for kind in KINDS:
        subseeds = [''] if quick else ['', 'b', 'c']
        for ss in subseeds:
            rng = chk.rng(kind + ss)
            for i in range(budget[kind] // len(subseeds)):
                if kind == 'htab' and i % 4 == 1:
                    sc = gen_htab_churn(rng, rng.choice([20, 40, 80, 160]))
                else:
                    sc = GEN[kind](rng, rng.choice([3, 8, 20, 60] if quick else [3, 8, 20, 60, 200]))
                if kind == 'htab' and i % 5 == 4:
                    sc = 'htabn' + sc[4:]      # the same table created with free_func == NULL
                yield 'random', sc
    if 'bitmap' in KINDS:
        if quick:
            for s in bitmap_state_sweep([1, 64], [0, 1]):       # 8^3 = 512 pre-states x 243 ops
                yield 'sweep', s
            for s in bitmap_seq_sweep(2):
                yield 'seq', s
        else:
            for s in bitmap_state_sweep([1, 64, 130], [0, 1]):  # 16^3 pre-states x 243 ops
                yield 'sweep', s
            for s in bitmap_seq_sweep(3):
                yield 'seq', s
    if 'htab' in KINDS:
        tables = [[4, 4, 4], [0, 1, 5], [3, 2051, 7]]
        for s in htab_seq_sweep(3 if quick else 5, tables[:2] if quick else tables):
            yield 'seq', s
        for s in htab_seq_sweep(3 if quick else 4, tables[:1]):
            yield 'seq', 'htabn' + s[4:]
    if 'dlist' in KINDS:
        for s in dlist_seq_sweep(3 if quick else 5, 3):
            yield 'seq', s
        if not quick:
            for s in dlist_seq_sweep(4, 4):
                yield 'seq', s


def run(chk):
    r = chk.prove()
    impl, model = build()
    rc, out, _ = vlib.run_lines(impl, ['hash 64 %d :' % sd for sd in (0, 42, 2024)])
    if rc == 0 and len(out) == 3:
        for sd, l in zip((0, 42, 2024), out):
            MIRHASH[sd] = [int(x) for x in l.split()]
    chk.cov['trusted_base'] += ['extraction: ExtrOcamlBasic only, no Extract Constant/Inductive of our own',
                                'ocaml/driver_c19.ml, harness/c19_adt.c (parse + print only)']
    chk.cov['rule'] = ('op scripts (corpus, seeded random biased to word boundaries / aliasing, exhaustive sweeps) run on '
                      'the real headers (harness/c19_adt.c) and on the extracted Coq model; every return value and a '
                      'full dump after every op are compared; a case is non-trivial when it has >= 3 ops; distinct by '
                      'script text')
    bad = []
    nscripts = 0
    batch = []

    def flush():
        nonlocal batch
        if batch:
            bad.extend(run_both(impl, model, batch, chk))
            batch = []
    for origin, s in script_stream(chk):
        nops = s.count(';') + 1
        chk.count(s, nontrivial=nops >= 3)
        kind = s.split()[0]
        chk.dist('kinds', kind)
        chk.dist('origin', origin)
        chk.dist('script_len', '1-3' if nops <= 3 else '4-20' if nops <= 20 else '21-100' if nops <= 100 else '>100')
        if origin in ('random', 'corpus', 'seq'):
            for o in s.split(':', 1)[1].split(';'):
                w = o.split()
                if w:
                    chk.dist('ops', kind + '.' + w[0])
        else:
            chk.dist('ops', kind + '.(sweep ops)', nops)
        if nscripts < 4 or (origin != 'random' and chk.cov['origin'][origin] == 1):
            chk.sample(s[:600])
        nscripts += 1
        batch.append(s)
        if len(batch) >= 2000 or sum(len(x) for x in batch[-1:]) > 100000 and len(batch) >= 200:
            flush()
            if len([b for b in bad if b[3] == 'diff']) >= 20:
                break
    flush()
    chk.log('%d scripts, %d disagreements' % (nscripts, len(bad)))
    if chk.tier == 'thorough' and not bad:
        # same random scripts on an ASan+UBSan build of the harness: out-of-bounds / use-after-realloc
        # in the headers shows up as a CRASH line even where the values happen to agree
        impl_asan = vlib.build_harness('c19_adt', ['c19_adt.c'], variant='asan', units=())
        rs = [s for o, s in script_stream(chk) if o in ('random', 'corpus')][:40000]
        for i in range(0, len(rs), 4000):
            bad.extend(run_both(impl_asan, model, rs[i:i + 4000]))
        chk.dist('origin', 'asan-rerun', len(rs))
        chk.log('asan rerun of %d scripts, %d disagreements' % (len(rs), len(bad)))
    diffs = [b for b in bad if b[3] == 'diff']
    books = [b for b in bad if b[3] == 'book']
    seen = set()
    for s, a, b, v in sorted(diffs, key=lambda x: len(x[0]))[:6]:
        small = shrink_script(impl, model, s, 'diff')
        if small in seen:
            continue
        seen.add(small)
        ra = vlib.run_lines(impl, [small], timeout=20)[1]
        rb = vlib.run_lines(model, [small])[1]
        chk.finding('diff:' + small, dict(script=small, impl=ra, model=rb, original=s[:2000],
                                         divergence=first_divergence(ra[0] if ra else '', rb[0] if rb else '')),
                    'container implementation and verified model disagree on a property observable: %s' % small)
        if len(seen) >= 3:
            break
    if books and not diffs:
        s, a, b, v = min(books, key=lambda x: len(x[0]))
        small = shrink_script(impl, model, s, 'book')
        ra = vlib.run_lines(impl, [small])[1]
        rb = vlib.run_lines(model, [small])[1]
        chk.finding('tie-broken:' + small.split()[0],
                    dict(correspondence='harness/c19_adt.c vs extracted coq/C19 model (%s)' % small.split()[0],
                         script=small, impl=ra, model=rb,
                         divergence=first_divergence(ra[0] if ra else '', rb[0] if rb else ''),
                         searched='%d scripts: contents, return values, change flags and iteration order all agree; '
                                  'only representation/capacity bookkeeping (#-tokens) differs in %d scripts'
                                  % (nscripts, len(books))),
                    'model/code correspondence broken on bookkeeping only (the theorems no longer describe this code): %s'
                    % small, no_input=True)
    if not r['ok'] and not bad:
        chk.proof_broken(r, searched='%d scripts agreed between model and implementation' % nscripts)


def replay(chk, path):
    j = json.load(open(path))
    impl, model = build()
    s = j['replay'].get('script')
    if not s:
        print('replay names a broken proof/tie, no script:', j.get('what'))
        return 1
    a = vlib.run_lines(impl, [s], timeout=20)[1]
    b = vlib.run_lines(model, [s])[1]
    print('script:', s); print('impl :', a); print('model:', b)
    v = cmp_lines(a[0], b[0]) if a and b else 'diff'
    print('verdict:', v)
    return 0 if v == 'same' else 1

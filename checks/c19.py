# C19: container headers vs Coq models (coq/C19/*.v), theorems in coq/Properties_C19.v
#
# Tie: hand-written models => correspondence.  The same op scripts are run on the real headers
# (harness/c19_adt.c, compiled against $VERIF_REPO) and on the model extracted from Coq
# (ocaml/driver_c19.ml); every observation is diffed.  Output tokens starting with '#' are
# bookkeeping (capacity, realloc events, word length of a bitmap, collisions, slot layout): the
# property does not talk about them, the models do.  A disagreement on any other token is a concrete
# failing input (=> finding); a disagreement on '#'-tokens only means the model no longer describes
# the code although no property observable differs (=> tie broken, "no-failing-input-found").
import os, sys, json, itertools
import vlib

LEVEL = 'proof'
KINDS = ['varr']  # 'bitmap' is switched on once fixes/C19-1.patch is committed to /repo


# ------------------------------------------------------------------ generators
def gen_varr(rng, nops):
    init = rng.choice([0, 1, 2, 3, 5, 64])
    n = 0
    ops = []
    for _ in range(nops):
        k = rng.random()
        if k < 0.35 or n == 0 and k < 0.7:
            ops.append('push %d' % rng.randint(-99, 99)); n += 1
        elif k < 0.45:
            m = rng.randint(0, 6)
            ops.append('pusharr ' + ' '.join(str(rng.randint(-99, 99)) for _ in range(m))); n += m
        elif k < 0.55 and n > 0:
            ops.append('pop'); n -= 1
        elif k < 0.62:
            t = rng.randint(0, n); ops.append('trunc %d' % t); n = t
        elif k < 0.68:
            ops.append('expand %d' % rng.randint(0, 2 * n + 3))
        elif k < 0.73:
            t = rng.randint(0, n + 4); ops.append('tailor %d' % t); n = t
        elif k < 0.81 and n > 0:
            ops.append('set %d %d' % (rng.randint(0, n - 1), rng.randint(-99, 99)))
        elif k < 0.89 and n > 0:
            ops.append('get %d' % rng.randint(0, n - 1))
        elif k < 0.93 and n > 0:
            ops.append('last')
        elif k < 0.97:
            ops.append('len')
        else:
            ops.append('cap')
    return 'varr %d : ' % init + ' ; '.join(ops)


BOUNDARY_BITS = [0, 1, 62, 63, 64, 65, 126, 127, 128, 129, 191, 192, 200, 255, 256]
BOUNDARY_LENS = [0, 1, 2, 62, 63, 64, 65, 66, 127, 128, 129, 130, 192]
OP2 = ['and', 'andc', 'ior']
OP3 = ['iorand', 'iorandc']


def gen_bitmap(rng, nops):
    """random script biased to word boundaries and aliased operands"""
    nb = rng.choice([1, 2, 2, 3, 3, 4])
    maxbit = rng.choice([70, 140, 300])

    def bit():
        if rng.random() < 0.6:
            return rng.choice([b for b in BOUNDARY_BITS if b <= maxbit])
        return rng.randint(0, maxbit)

    def bm():
        return rng.randrange(nb)
    ops = []
    for _ in range(nops):
        k = rng.random()
        if k < 0.22:
            ops.append('set %d %d' % (bm(), bit()))
        elif k < 0.30:
            ops.append('clr %d %d' % (bm(), bit()))
        elif k < 0.38:
            ln = rng.choice(BOUNDARY_LENS) if rng.random() < 0.6 else rng.randint(0, 140)
            ops.append('%s %d %d %d' % (rng.choice(['setr', 'clrr']), bm(), bit(), ln))
        elif k < 0.58:
            ops.append('%s %d %d %d' % (rng.choice(OP2), bm(), bm(), bm()))
        elif k < 0.72:
            ops.append('%s %d %d %d %d' % (rng.choice(OP3), bm(), bm(), bm(), bm()))
        elif k < 0.76:
            ops.append('copy %d %d' % (bm(), bm()))
        elif k < 0.80:
            ops.append('%s %d %d' % (rng.choice(['eq', 'isect']), bm(), bm()))
        elif k < 0.86:
            ops.append('%s %d' % (rng.choice(['empty', 'count', 'min', 'max']), bm()))
        elif k < 0.89:
            ops.append('bit %d %d' % (bm(), bit()))
        elif k < 0.92:
            ops.append('iter %d' % bm())
        elif k < 0.94:
            ops.append('iinit %d' % bm())
        elif k < 0.97:
            ops.append('inext')
        elif k < 0.985:
            ops.append('expand %d %d' % (bm(), bit()))
        else:
            ops.append('clear %d' % bm())
    return 'bitmap %d : ' % nb + ' ; '.join(ops)


def bitmap_state_sweep(bits, tails):
    """exhaustive op2/op3 sweep: every assignment of values (subset of `bits`, plus t trailing zero
    words for t in tails) to three bitmaps, every op, every choice of operand ids (all aliasing
    patterns).  Masters are kept in bitmaps 3..5 and copied back before each op."""
    vals = []
    for r in range(len(bits) + 1):
        for sub in itertools.combinations(bits, r):
            for t in tails:
                vals.append((sub, t))
    ids3 = list(itertools.product(range(3), repeat=3))
    ids4 = list(itertools.product(range(3), repeat=4))
    for combo in itertools.product(vals, repeat=3):
        ops = []
        for k, (sub, t) in enumerate(combo):
            for b in sub:
                ops.append('set %d %d' % (3 + k, b))
            if t:
                top = (max(sub) // 64 + 1 if sub else 0) + t
                ops.append('expand %d %d' % (3 + k, top * 64))
        restore = ['copy 0 3', 'copy 1 4', 'copy 2 5']
        for o in OP2:
            for d, a, b in ids3:
                ops += restore + ['%s %d %d %d' % (o, d, a, b)]
        for o in OP3:
            for d, a, b, c in ids4:
                ops += restore + ['%s %d %d %d %d' % (o, d, a, b, c)]
        yield 'bitmap 6 : ' + ' ; '.join(ops)


def bitmap_seq_sweep(L):
    """every op sequence of length L over a tiny alphabet on two bitmaps"""
    alpha = []
    for b in (0, 1):
        for n in (0, 64):
            alpha += ['set %d %d' % (b, n), 'clr %d %d' % (b, n)]
        alpha += ['setr %d 63 2' % b, 'clrr %d 62 3' % b, 'iter %d' % b]
    for d, a, b in itertools.product((0, 1), repeat=3):
        alpha += ['%s %d %d %d' % (o, d, a, b) for o in OP2]
    alpha += ['iorandc 0 0 1 0', 'iorand 1 0 0 1', 'copy 0 1', 'copy 1 0', 'eq 0 1']
    for seq in itertools.product(alpha, repeat=L):
        yield 'bitmap 2 : ' + ' ; '.join(seq)


GEN = {'varr': gen_varr, 'bitmap': gen_bitmap}


# ------------------------------------------------------------------ comparison
def cmp_lines(a, b):
    """a = implementation line, b = model line.  Returns 'same' | 'book' (only '#'-tokens differ)
    | 'diff' (a property observable differs).  '?'/'v?' in the model output = undefined cell."""
    if a == b:
        return 'same'
    ta, tb = a.split(), b.split()
    ra = [t for t in ta if not t.startswith('#')]
    rb = [t for t in tb if not t.startswith('#')]
    if len(ra) != len(rb):
        return 'diff'
    for x, y in zip(ra, rb):
        if y in ('?', 'v?'):
            continue
        if x != y:
            return 'diff'
    ba = [t for t in ta if t.startswith('#')]
    bb = [t for t in tb if t.startswith('#')]
    return 'same' if ba == bb else 'book'


def run_both(impl, model, scripts):
    """returns list of (script, impl_line, model_line, verdict) for the scripts that do not agree"""
    rc2, o2, e2 = vlib.run_lines(model, scripts)
    if rc2 != 0 or len(o2) != len(scripts):
        raise vlib.BuildError('model driver failed: rc=%d %s' % (rc2, e2[-500:]))
    rc1, o1, e1 = vlib.run_lines(impl, scripts)
    bad = []
    if rc1 != 0 or len(o1) != len(scripts):
        # the implementation crashed / hung on some script: find it (bisect by running one by one)
        for s, m in zip(scripts, o2):
            r, o, e = vlib.run_lines(impl, [s], timeout=20)
            if r != 0 or len(o) != 1:
                bad.append((s, 'CRASH rc=%d %s' % (r, e[-300:]), m, 'diff'))
                break
        return bad
    for s, a, b in zip(scripts, o1, o2):
        v = cmp_lines(a, b)
        if v != 'same':
            bad.append((s, a, b, v))
    return bad


def shrink_script(impl, model, script, verdict):
    hd, ops = script.split(':', 1)
    ops = [o.strip() for o in ops.split(';') if o.strip()]

    def fails(sub):
        s = hd + ': ' + ' ; '.join(sub)
        r2, o2, _ = vlib.run_lines(model, [s])
        if r2 != 0 or not o2 or 'REJECT' in o2[0]:
            return False
        r1, o1, _ = vlib.run_lines(impl, [s], timeout=20)
        if r1 != 0 or not o1:
            return verdict == 'diff'
        return cmp_lines(o1[0], o2[0]) == verdict
    sub = vlib.shrink_list(ops, fails)
    return hd + ': ' + ' ; '.join(sub)


def first_divergence(a, b):
    ta, tb = a.split(), b.split()
    for i, (x, y) in enumerate(zip(ta, tb)):
        if x != y and y not in ('?', 'v?'):
            return 'token %d: implementation %s, model %s' % (i, x, y)
    return 'lengths differ: implementation %d tokens, model %d' % (len(ta), len(tb))


# ------------------------------------------------------------------ the check
def build(chk=None):
    impl = vlib.build_harness('c19_adt', ['c19_adt.c'], units=())
    model = vlib.ocaml_build('c19', 'Extract_C19', ['c19x'], 'driver_c19.ml')
    return impl, model


def script_stream(chk):
    """yields (origin, script)"""
    quick = chk.tier == 'quick'
    corpus = os.path.join(vlib.VERIF, 'corpus', 'c19.txt')
    if os.path.exists(corpus):
        for l in open(corpus):
            l = l.strip()
            if l and not l.startswith('#') and l.split()[0] in KINDS:
                yield 'corpus', l
    budget = {'varr': 400 if quick else 20000, 'bitmap': 1500 if quick else 60000}
    for kind in KINDS:
        subseeds = [''] if quick else ['', 'b', 'c']
        for ss in subseeds:
            rng = chk.rng(kind + ss)
            for i in range(budget[kind] // len(subseeds)):
                yield 'random', GEN[kind](rng, rng.choice([3, 8, 20, 60] if quick else [3, 8, 20, 60, 200]))
    if 'bitmap' in KINDS:
        if quick:
            for s in bitmap_state_sweep([1, 64], [0, 1]):       # 8^3 = 512 pre-states x 243 ops
                yield 'sweep', s
            for s in bitmap_seq_sweep(2):
                yield 'seq', s
        else:
            for s in bitmap_state_sweep([1, 64, 130], [0, 1]):  # 16^3 pre-states x 243 ops
                yield 'sweep', s
            for s in bitmap_seq_sweep(3):
                yield 'seq', s


def run(chk):
    r = chk.prove()
    impl, model = build()
    chk.cov['trusted_base'] += ['extraction: ExtrOcamlBasic only, no Extract Constant/Inductive of our own',
                                'ocaml/driver_c19.ml, harness/c19_adt.c (parse + print only)']
    chk.cov['rule'] = ('op scripts (corpus, seeded random biased to word boundaries / aliasing, exhaustive sweeps) run on '
                      'the real headers (harness/c19_adt.c) and on the extracted Coq model; every return value and a '
                      'full dump after every op are compared; a case is non-trivial when it has >= 3 ops; distinct by '
                      'script text')
    bad = []
    nscripts = 0
    batch = []

    def flush():
        nonlocal batch
        if batch:
            bad.extend(run_both(impl, model, batch))
            batch = []
    for origin, s in script_stream(chk):
        nops = s.count(';') + 1
        chk.count(s, nontrivial=nops >= 3)
        kind = s.split()[0]
        chk.dist('kinds', kind)
        chk.dist('origin', origin)
        chk.dist('script_len', '1-3' if nops <= 3 else '4-20' if nops <= 20 else '21-100' if nops <= 100 else '>100')
        if origin in ('random', 'corpus', 'seq'):
            for o in s.split(':', 1)[1].split(';'):
                w = o.split()
                if w:
                    chk.dist('ops', kind + '.' + w[0])
        else:
            chk.dist('ops', kind + '.(sweep ops)', nops)
        if nscripts < 4 or (origin != 'random' and chk.cov['origin'][origin] == 1):
            chk.sample(s[:600])
        nscripts += 1
        batch.append(s)
        if len(batch) >= 2000 or sum(len(x) for x in batch[-1:]) > 100000 and len(batch) >= 200:
            flush()
            if len([b for b in bad if b[3] == 'diff']) >= 20:
                break
    flush()
    chk.log('%d scripts, %d disagreements' % (nscripts, len(bad)))
    diffs = [b for b in bad if b[3] == 'diff']
    books = [b for b in bad if b[3] == 'book']
    seen = set()
    for s, a, b, v in sorted(diffs, key=lambda x: len(x[0]))[:6]:
        small = shrink_script(impl, model, s, 'diff')
        if small in seen:
            continue
        seen.add(small)
        ra = vlib.run_lines(impl, [small], timeout=20)[1]
        rb = vlib.run_lines(model, [small])[1]
        chk.finding('diff:' + small, dict(script=small, impl=ra, model=rb, original=s[:2000],
                                         divergence=first_divergence(ra[0] if ra else '', rb[0] if rb else '')),
                    'container implementation and verified model disagree on a property observable: %s' % small)
        if len(seen) >= 3:
            break
    if books and not diffs:
        s, a, b, v = min(books, key=lambda x: len(x[0]))
        small = shrink_script(impl, model, s, 'book')
        ra = vlib.run_lines(impl, [small])[1]
        rb = vlib.run_lines(model, [small])[1]
        chk.finding('tie-broken:' + small.split()[0],
                    dict(correspondence='harness/c19_adt.c vs extracted coq/C19 model (%s)' % small.split()[0],
                         script=small, impl=ra, model=rb,
                         divergence=first_divergence(ra[0] if ra else '', rb[0] if rb else ''),
                         searched='%d scripts: contents, return values, change flags and iteration order all agree; '
                                  'only representation/capacity bookkeeping (#-tokens) differs in %d scripts'
                                  % (nscripts, len(books))),
                    'model/code correspondence broken on bookkeeping only (the theorems no longer describe this code): %s'
                    % small, no_input=True)
    if not r['ok'] and not bad:
        chk.proof_broken(r, searched='%d scripts agreed between model and implementation' % nscripts)


def replay(chk, path):
    j = json.load(open(path))
    impl, model = build()
    s = j['replay'].get('script')
    if not s:
        print('replay names a broken proof/tie, no script:', j.get('what'))
        return 1
    a = vlib.run_lines(impl, [s], timeout=20)[1]
    b = vlib.run_lines(model, [s])[1]
    print('script:', s); print('impl :', a); print('model:', b)
    v = cmp_lines(a[0], b[0]) if a and b else 'diff'
    print('verdict:', v)
    return 0 if v == 'same' else 1

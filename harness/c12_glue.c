/* C12 glue harness: the use of mir-reduce.h by mir.c (MIR_write_with_func / MIR_read_with_func).
   Lines on stdin:
     write <hex of MIR text>   -> W <hex of the binary MIR written>      (or WERR <error type>)
     read <hex of a stream>    -> OK <number of modules read>            (or ERR <error type>)
   A fresh context per case; the error function longjmps out (the context is then abandoned).
   Linked against the tree's mir.c compiled with the sanitizers (checks/c12.py, variant 'asan'). */
#include <stdio.h>
#include <stdlib.h>
#include <string.h>
#include <stdint.h>
#include <stdarg.h>
#include <setjmp.h>
#include "mir.h"

static jmp_buf jb;
static int last_err;
static void MIR_NO_RETURN err_func (MIR_error_type_t t, const char *fmt, ...) {
  last_err = (int) t;
  longjmp (jb, 1);
}

static uint8_t *in_buf, *out_buf;
static size_t in_len, in_pos, out_len, out_cap;

static int mem_reader (MIR_context_t ctx) { return in_pos < in_len ? in_buf[in_pos++] : EOF; }
static int mem_writer (MIR_context_t ctx, uint8_t b) {
  if (out_len == out_cap) {
    out_cap = out_cap * 2 + 1024;
    out_buf = realloc (out_buf, out_cap);
  }
  out_buf[out_len++] = b;
  return 1;
}

static int hexval (int c) {
  if (c >= '0' && c <= '9') return c - '0';
  if (c >= 'a' && c <= 'f') return c - 'a' + 10;
  if (c >= 'A' && c <= 'F') return c - 'A' + 10;
  return -1;
}

static uint8_t *parse_hex (const char *s, size_t *len) {
  const char *e = s;
  uint8_t *b;
  size_t n;
  while (*e != 0 && *e != ' ' && *e != '\n') e++;
  if (e - s == 1 && s[0] == '-') {
    *len = 0;
    return calloc (1, 1);
  }
  n = (e - s) / 2;
  b = malloc (n + 1);
  for (size_t i = 0; i < n; i++) b[i] = hexval (s[2 * i]) * 16 + hexval (s[2 * i + 1]);
  b[n] = 0;
  *len = n;
  return b;
}

int main (void) {
  char *line = NULL;
  size_t cap = 0;
  while (getline (&line, &cap, stdin) > 0) {
    if (strncmp (line, "write ", 6) == 0) {
      size_t n;
      char *text = (char *) parse_hex (line + 6, &n);
      MIR_context_t ctx = MIR_init ();
      out_len = 0;
      MIR_set_error_func (ctx, err_func);
      if (setjmp (jb) == 0) {
        MIR_scan_string (ctx, text);
        MIR_write_with_func (ctx, mem_writer);
        MIR_finish (ctx);
        printf ("W ");
        for (size_t i = 0; i < out_len; i++) printf ("%02x", out_buf[i]);
        printf ("\n");
      } else {
        printf ("WERR %d\n", last_err);
      }
      free (text);
    } else if (strncmp (line, "read ", 5) == 0) {
      MIR_context_t ctx = MIR_init ();
      in_buf = parse_hex (line + 5, &in_len);
      in_pos = 0;
      MIR_set_error_func (ctx, err_func);
      if (setjmp (jb) == 0) {
        int n = 0;
        MIR_read_with_func (ctx, mem_reader);
        for (MIR_module_t m = DLIST_HEAD (MIR_module_t, *MIR_get_module_list (ctx)); m != NULL;
             m = DLIST_NEXT (MIR_module_t, m))
          n++;
        MIR_finish (ctx);
        printf ("OK %d\n", n);
      } else {
        printf ("ERR %d\n", last_err);
      }
      free (in_buf);
    } else if (line[0] != '\n') {
      printf ("?\n");
    }
    fflush (stdout);
  }
  return 0;
}

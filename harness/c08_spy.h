/* C08: helpers of the gcc-side classification spy (see c08_spy.S).  Included by generated TUs. */
#include <stdio.h>
#include <string.h>
extern void c08_spy (void);
extern void c08_clobber (void);
extern void c08_call_ret (void *fn, void *hidden);
extern unsigned char c08_regs[176]; /* rdi rsi rdx rcx r8 r9 | xmm0..7 (low 8) | 64 bytes of stack */
extern unsigned char c08_rets[64];  /* rax rdx xmm0 xmm1 | st0-valid | pad | st0 (10 bytes) */
static unsigned c08_k;
static void c08_fill (void *p, size_t n) {
  unsigned char *b = p;
  c08_k++;
  for (size_t i = 0; i < n; i++) b[i] = (unsigned char) (1 + (c08_k * 37 + i * 11) % 250);
}
#define C08_ML 0x1122334455667788L
#define C08_MD 1234567.5
static int c08_eqm (const unsigned char *a, const unsigned char *b, const unsigned char *m, size_t len) {
  for (size_t i = 0; i < len; i++)
    if ((a[i] ^ b[i]) & m[i]) return 0;
  return 1;
}
static int c08_any (const unsigned char *m, size_t len) {
  for (size_t i = 0; i < len; i++)
    if (m[i]) return 1;
  return 0;
}
static const unsigned char c08_sent[8] = {0x5a, 0x5a, 0x5a, 0x5a, 0x5a, 0x5a, 0x5a, 0x5a};
/* does register image r (8 bytes) hold the eightbyte b (len bytes, mask m)?  A register still
   holding the sentinel of c08_clobber was not written by the caller. */
static int c08_holds (const unsigned char *r, const unsigned char *b, const unsigned char *m, size_t len) {
  return memcmp (r, c08_sent, 8) != 0 && c08_eqm (r, b, m, len);
}
/* How gcc passed the object at p (n bytes, m = mask of its non-padding bits) followed by the two
   markers: "M" when the object went to the stack, otherwise one letter per eightbyte: I int
   register, S sse register; an eightbyte holding nothing but padding prints in lower case what is
   consistent with the registers the markers ended up in (i, s, or n = no register).  Then the
   number of int / sse registers consumed before the markers. */
static void c08_report_arg (int idx, const void *p, const void *mask, size_t n) {
  const unsigned char *b = p, *m = mask;
  size_t nq = (n + 7) / 8;
  long ml = C08_ML;
  double md = C08_MD;
  int ci = -1, cs = -1;
  static const char *alts = "ISN";
  for (int i = 0; i < 6; i++)
    if (ci < 0 && memcmp (c08_regs + 8 * i, &ml, 8) == 0) ci = i;
  for (int i = 0; i < 8; i++)
    if (cs < 0 && memcmp (c08_regs + 48 + 8 * i, &md, 8) == 0) cs = i;
  if (nq >= 1 && nq <= 2 && ci >= 0 && cs >= 0 && ci + cs > 0) {
    for (int c0 = 0; c0 < 3; c0++)
      for (int c1 = 0; c1 < (nq == 2 ? 3 : 1); c1++) {
        int cls[2] = {c0, c1}, ni = 0, ns = 0, ok = 1;
        char res[3] = {0, 0, 0};
        for (size_t q = 0; ok && q < nq; q++) {
          size_t len = n - 8 * q < 8 ? n - 8 * q : 8;
          int pad = !c08_any (m + 8 * q, len);
          if (cls[q] == 2) { ok = pad; res[q] = 'n'; }
          else if (cls[q] == 0) {
            ok = ni < 6 && (pad || c08_holds (c08_regs + 8 * ni, b + 8 * q, m + 8 * q, len));
            ni++; res[q] = pad ? 'i' : 'I';
          } else {
            ok = ns < 8 && (pad || c08_holds (c08_regs + 48 + 8 * ns, b + 8 * q, m + 8 * q, len));
            ns++; res[q] = pad ? 's' : 'S';
          }
        }
        if (ok && ni == ci && ns == cs) { printf ("A %d %s %d %d\n", idx, res, ci, cs); return; }
      }
  }
  if (ci == 0 && cs == 0 && c08_eqm (c08_regs + 112, b, m, n < 64 ? n : 64)) { printf ("A %d M 0 0\n", idx); return; }
  printf ("A %d ? %d %d\n", idx, ci, cs);
}
/* how gcc returned the object expected at p (n bytes); hidden = the buffer offered for a memory
   return.  "M" memory, "X" st(0), otherwise one letter per eightbyte as for arguments (there are no
   markers here, so a padding-only eightbyte prints the first consistent alternative of i, s, n). */
static void c08_report_ret (int idx, const void *p, const void *mask, size_t n, const void *hidden) {
  const unsigned char *b = p, *m = mask;
  size_t nq = (n + 7) / 8;
  if (c08_eqm (hidden, b, m, n) && c08_any (hidden, n)) { printf ("R %d M\n", idx); return; }
  if (c08_rets[32] && n >= 10 && c08_eqm (c08_rets + 48, b, m, 10)) { printf ("R %d X\n", idx); return; }
  if (nq >= 1 && nq <= 2)
    for (int c0 = 0; c0 < 3; c0++)
      for (int c1 = 0; c1 < (nq == 2 ? 3 : 1); c1++) {
        static const int ord[3] = {1, 0, 2};
        int cls[2] = {ord[c0], ord[c1]}, ni = 0, ns = 0, ok = 1;
        char res[3] = {0, 0, 0};
        for (size_t q = 0; ok && q < nq; q++) {
          size_t len = n - 8 * q < 8 ? n - 8 * q : 8;
          int pad = !c08_any (m + 8 * q, len);
          if (cls[q] == 2) { ok = pad; res[q] = 'n'; }
          else if (cls[q] == 1) {   /* SSE first: gcc -O0 moves SSE values through %rax */
            ok = pad || c08_holds (c08_rets + 16 + 8 * ns, b + 8 * q, m + 8 * q, len);
            ns++; res[q] = pad ? 's' : 'S';
          } else {
            ok = pad || c08_eqm (c08_rets + 8 * ni, b + 8 * q, m + 8 * q, len);
            ni++; res[q] = pad ? 'i' : 'I';
          }
        }
        if (ok) { printf ("R %d %s\n", idx, res); return; }
      }
  printf ("R %d ?\n", idx);
}

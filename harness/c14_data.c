/* C14 correspondence harness: builds one module from a list of items through the public API,
   loads and links it with the REAL mir.c of the current tree and reports where every data-like
   item ended up and what its section contains.

   case   := iface[level] ':' item { ';' item }   iface: i | g | l | b (interpreter, generator, lazy, lazy basic-block);
                                                  level: generator optimisation level 0..3 (default 2)
   item   := 'D' nm ty (hex{,hex} | '-')          data, element bit patterns in hex
           | 'B' nm len                           bss
           | 'R' nm target disphex                ref to item index target
           | 'L' nm l1 (l2|'-') disphex           lref to labels l1[,l2] of the G function (0..2)
           | 'E' nm fn                            expr data, fn = index of an F item
           | 'F' ty prefix-expr                   expression function
           | 'G' {body}                           function g(sel, x): sel=0: jmpi x; sel=k+1: laddr of L<k>; then the labels
                                                  L0, L1, ... in this order, L<k> followed by its body (one body per label,
                                                  1..8 labels; no body given = three labels `r r r`), then `ret 99`
   body   := 'r'      ret 100+k
           | 'f'      nothing: the next label (or the final ret 99) is adjacent
           | 'n'      an ordinary insn (add), then fall through
           | 'j'N     jmp L<N>                    (a label whose only insn is an unconditional jump)
           | 'b'N     beq L<N>, sel, 0            (a conditional branch that is always taken when entered by jmpi)
           | 'i'N     laddr p, L<N>; jmpi p
           | 's'N     switch sel, L<N>, L<(N+1) mod labels>
           | 'Oi' | 'Op' | 'Of' def | 'Ox' def    import / proto / forward of def / export of def
   nm     := '-' | number                         anonymous, or the name d<number>
   expr   := c<hex> | a<idx> | (+|-|*|&|'|'|^) e e | n e | m e (load: not an expression function) | s8|s16|s32|u8|u16|u32 e | (<|>|]) e k | f<hex>

   Output: `ok A idx:addr ... [L<k>:addr ... K<idx>:addr1:addr2 ...]` (address of every item that has one; label addresses
   by laddr; per lref item the addresses of its two labels -- of the labels of the same place, see compute_places, the
   ones that explain its value) ` P idx@head+off ...` (every
   data-like item: nearest preceding item with section_head_p, and the distance from it)
   ` S head:allocated:hexbytes ...` (per head: size passed to malloc and the bytes found)
   ` J:ok|bad` (jmpi to each label address obtained with laddr reaches the label: the value returned is the one
   the bodies prescribe, see expected_ret) ` LR idx:ok|bad`
   (each lref item holds label address + disp, or the label difference + disp, against the laddr
   addresses of the same engine, read after g was prepared for execution) ` LA:ok` (constant here; the model driver
   replaces it by its verdict on the raw laddr values W<k>).  On an error: `E:<code>`. */
#include <stdio.h>
#include <stdlib.h>
#include <string.h>
#include <stdint.h>
#include <setjmp.h>
#include <stdarg.h>
#include <signal.h>
#include <unistd.h>
#include <sys/time.h>
#include "mir.h"
#include "mir-gen.h"

#define MAXITEMS 256
#define MAXELS 64
#define MAXLAB 8

static jmp_buf err_jmp;
static int err_code;
static char err_msg[200];
static void MIR_NO_RETURN err_func (MIR_error_type_t t, const char *fmt, ...) {
  /* the format only: MIR_finish on a half-built context passes a name it has already freed */
  snprintf (err_msg, sizeof (err_msg), "%s", fmt);
  for (char *c = err_msg; *c; c++)
    if (*c == ' ' || *c == '\n') *c = '_';
  err_code = (int) t;
  longjmp (err_jmp, 1);
}
static const char *err_name (int e) {
  static char b[260];
  switch (e) {
  case MIR_binary_io_error: return "binary_io";
  case MIR_wrong_lref_error: return "wrong_lref";
  case MIR_repeated_decl_error: return "repeated_decl";
  case MIR_undeclared_op_ref_error: return "undeclared_op_ref";
  default: snprintf (b, sizeof (b), "err%d(%s)", e, err_msg); return b;
  }
}

/* ---- allocator that remembers the size of every live block */
static struct { void *p; size_t n; } *blocks;
static size_t nblocks, cblocks;
static void note (void *p, size_t n) {
  if (p == NULL) return;
  if (nblocks == cblocks) {
    cblocks = cblocks ? 2 * cblocks : 4096;
    blocks = realloc (blocks, cblocks * sizeof (*blocks));
  }
  blocks[nblocks].p = p;
  blocks[nblocks].n = n;
  nblocks++;
}
static void forget (void *p) {
  for (size_t i = nblocks; i > 0; i--)
    if (blocks[i - 1].p == p) {
      blocks[i - 1].p = NULL;
      return;
    }
}
static long block_size (void *p) {
  for (size_t i = nblocks; i > 0; i--)
    if (blocks[i - 1].p == p) return (long) blocks[i - 1].n;
  return -1;
}
static void *h_malloc (size_t n, void *u) {
  void *p = malloc (n);
  if (p != NULL && n > 0) memset (p, 0xA5, n); /* make "not initialised" visible */
  note (p, n);
  return p;
}
static void *h_calloc (size_t k, size_t n, void *u) {
  void *p = calloc (k, n);
  note (p, k * n);
  return p;
}
static void *h_realloc (void *p, size_t old, size_t new, void *u) {
  void *q = realloc (p, new);
  if (q != p || 1) {
    forget (p);
    note (q, new);
  }
  return q;
}
static void h_free (void *p, void *u) {
  forget (p);
  free (p);
}
static struct MIR_alloc h_alloc = {h_malloc, h_calloc, h_realloc, h_free, NULL};

/* ---- parsed items */
enum kind { K_DATA, K_BSS, K_REF, K_LREF, K_MREF, K_EXPR, K_FUNC, K_G, K_H, K_IMPORT, K_PREIMP, K_PROTO, K_FORWARD, K_EXPORT };
struct pitem {
  enum kind k;
  int nm; /* -1 anonymous */
  MIR_type_t ty;
  int nels;
  unsigned __int128 els[MAXELS];
  long len;
  int target, l1, l2, fn, def;
  uint64_t disp;
  char *expr;
  MIR_item_t it;
};
static struct pitem items[MAXITEMS];
static int nitems;
static int gnlab;                 /* number of labels of the G function */
static char gbody[MAXLAB][8];     /* body of each label */
static char extbuf[MAXITEMS][16];

static int parse_ty (const char *s, MIR_type_t *t) {
  static const struct { const char *n; MIR_type_t t; } tab[] = {
    {"i8", MIR_T_I8}, {"u8", MIR_T_U8}, {"i16", MIR_T_I16}, {"u16", MIR_T_U16}, {"i32", MIR_T_I32},
    {"u32", MIR_T_U32}, {"i64", MIR_T_I64}, {"u64", MIR_T_U64}, {"f", MIR_T_F}, {"d", MIR_T_D},
    {"ld", MIR_T_LD}, {"p", MIR_T_P}};
  for (size_t i = 0; i < sizeof (tab) / sizeof (tab[0]); i++)
    if (!strcmp (s, tab[i].n)) {
      *t = tab[i].t;
      return 1;
    }
  return 0;
}
static size_t ty_size (MIR_type_t t) {
  switch (t) {
  case MIR_T_I8: case MIR_T_U8: return 1;
  case MIR_T_I16: case MIR_T_U16: return 2;
  case MIR_T_I32: case MIR_T_U32: case MIR_T_F: return 4;
  case MIR_T_LD: return 16;
  default: return 8;
  }
}
static unsigned __int128 parse_hex128 (const char *s) {
  unsigned __int128 v = 0;
  for (; *s; s++) {
    int d = (*s >= '0' && *s <= '9') ? *s - '0' : (*s >= 'a' && *s <= 'f') ? *s - 'a' + 10
            : (*s >= 'A' && *s <= 'F') ? *s - 'A' + 10 : -1;
    if (d < 0) break;
    v = (v << 4) | (unsigned) d;
  }
  return v;
}

static int parse_item (char *s, struct pitem *p) {
  char *save, *w[8 + MAXELS];
  int n = 0;
  memset (p, 0, sizeof (*p));
  p->nm = -1;
  while (*s == ' ') s++;
  if (s[0] == 'F') { /* F ty expr... : keep the expression text */
    char tyname[8];
    int off = 0;
    if (sscanf (s + 1, " %7s%n", tyname, &off) < 1 || !parse_ty (tyname, &p->ty)) return 0;
    p->k = K_FUNC;
    p->expr = s + 1 + off;
    return 1;
  }
  for (char *t = strtok_r (s, " \t", &save); t != NULL && n < 2 + MAXLAB; t = strtok_r (NULL, " \t", &save)) w[n++] = t;
  if (n == 0) return 0;
  if (w[0][0] == 'O') {
    switch (w[0][1]) {
    case 'i': p->k = K_IMPORT; return 1;
    case 'e': p->k = K_PREIMP; return 1; /* import of a function of an EARLIER module, linked in an earlier round */
    case 'p': p->k = K_PROTO; return 1;
    case 'f': p->k = K_FORWARD; p->def = n > 1 ? atoi (w[1]) : 0; return 1;
    case 'x': p->k = K_EXPORT; p->def = n > 1 ? atoi (w[1]) : 0; return 1;
    default: return 0;
    }
  }
  if (w[0][0] == 'H') { /* the second function with labels, see build_h */
    p->k = K_H;
    return 1;
  }
  if (w[0][0] == 'G') {
    p->k = K_G;
    if (n == 1) {
      gnlab = 3;
      for (int k = 0; k < 3; k++) strcpy (gbody[k], "r");
    } else {
      if (n - 1 > MAXLAB) return 0;
      gnlab = n - 1;
      for (int k = 0; k < gnlab; k++) {
        if (strlen (w[k + 1]) > 3 || strchr ("rfnjbis", w[k + 1][0]) == NULL) return 0;
        if (strchr ("jbis", w[k + 1][0]) != NULL && (w[k + 1][1] < '0' || w[k + 1][1] - '0' >= gnlab)) return 0;
        strcpy (gbody[k], w[k + 1]);
      }
    }
    return 1;
  }
  if (n < 2) return 0;
  p->nm = w[1][0] == '-' ? -1 : atoi (w[1]);
  switch (w[0][0]) {
  case 'D': {
    if (n < 4 || !parse_ty (w[2], &p->ty)) return 0;
    p->k = K_DATA;
    if (w[3][0] != '-') {
      char *sv2;
      for (char *e = strtok_r (w[3], ",", &sv2); e != NULL && p->nels < MAXELS; e = strtok_r (NULL, ",", &sv2))
        p->els[p->nels++] = parse_hex128 (e);
    }
    return 1;
  }
  case 'B': if (n < 3) return 0; p->k = K_BSS; p->len = atol (w[2]); return 1;
  case 'R':
    if (n < 4) return 0;
    p->k = K_REF; p->target = atoi (w[2]); p->disp = (uint64_t) parse_hex128 (w[3]);
    return 1;
  case 'L':
    if (n < 5) return 0;
    p->k = K_LREF; p->l1 = atoi (w[2]); p->l2 = w[3][0] == '-' ? -1 : atoi (w[3]);
    p->disp = (uint64_t) parse_hex128 (w[4]);
    return 1;
  case 'M': /* lref to the labels (0..1) of the H function */
    if (n < 5) return 0;
    p->k = K_MREF; p->l1 = atoi (w[2]); p->l2 = w[3][0] == '-' ? -1 : atoi (w[3]);
    p->disp = (uint64_t) parse_hex128 (w[4]);
    return 1;
  case 'E': if (n < 3) return 0; p->k = K_EXPR; p->fn = atoi (w[2]); return 1;
  default: return 0;
  }
}

static void item_name (char *b, int idx) {
  struct pitem *p = &items[idx];
  switch (p->k) {
  case K_FUNC: sprintf (b, "f%d", idx); break;
  case K_G: sprintf (b, "g%d", idx); break;
  case K_H: sprintf (b, "h%d", idx); break;
  case K_IMPORT: sprintf (b, "imp%d", idx); break;
  case K_PREIMP: sprintf (b, "pre%d", idx); break;
  case K_PROTO: sprintf (b, "pr%d", idx); break;
  default: sprintf (b, "d%d", p->nm); break;
  }
}

/* ---- expression compiler: prefix notation -> insns; returns the register holding the value */
static MIR_context_t ectx;
static MIR_item_t efunc;
static int ereg_no;
static char *etok;
static char *next_tok (void) {
  while (*etok == ' ') etok++;
  if (*etok == 0) return NULL;
  char *t = etok;
  while (*etok && *etok != ' ') etok++;
  if (*etok) *etok++ = 0;
  return t;
}
static MIR_reg_t new_reg (void) {
  char nm[32];
  sprintf (nm, "t%d", ereg_no++);
  return MIR_new_func_reg (ectx, efunc->u.func, MIR_T_I64, nm);
}
static MIR_reg_t comp_expr (void) {
  char *t = next_tok ();
  MIR_reg_t r = new_reg ();
  MIR_op_t ro = MIR_new_reg_op (ectx, r);
  if (t == NULL) {
    MIR_append_insn (ectx, efunc, MIR_new_insn (ectx, MIR_MOV, ro, MIR_new_int_op (ectx, 0)));
    return r;
  }
  if (t[0] == 'c') {
    MIR_append_insn (ectx, efunc,
                     MIR_new_insn (ectx, MIR_MOV, ro, MIR_new_int_op (ectx, (int64_t) (uint64_t) parse_hex128 (t + 1))));
  } else if (t[0] == 'a') {
    MIR_append_insn (ectx, efunc, MIR_new_insn (ectx, MIR_MOV, ro, MIR_new_ref_op (ectx, items[atoi (t + 1)].it)));
  } else if (strchr ("+-*&|^", t[0]) != NULL && t[1] == 0) {
    MIR_reg_t a = comp_expr (), b = comp_expr ();
    MIR_insn_code_t c = t[0] == '+' ? MIR_ADD : t[0] == '-' ? MIR_SUB : t[0] == '*' ? MIR_MUL
                        : t[0] == '&' ? MIR_AND : t[0] == '|' ? MIR_OR : MIR_XOR;
    MIR_append_insn (ectx, efunc, MIR_new_insn (ectx, c, ro, MIR_new_reg_op (ectx, a), MIR_new_reg_op (ectx, b)));
  } else if (t[0] == 'n') {
    MIR_reg_t a = comp_expr ();
    MIR_append_insn (ectx, efunc, MIR_new_insn (ectx, MIR_NEG, ro, MIR_new_reg_op (ectx, a)));
  } else if (t[0] == 'm') { /* a memory operand: the function is no expression function any more */
    MIR_reg_t a = comp_expr ();
    MIR_append_insn (ectx, efunc, MIR_new_insn (ectx, MIR_MOV, ro, MIR_new_mem_op (ectx, MIR_T_I64, 0, a, 0, 1)));
  } else if (t[0] == 's' || t[0] == 'u') {
    int bits = atoi (t + 1);
    MIR_reg_t a = comp_expr ();
    MIR_insn_code_t c = t[0] == 's' ? (bits == 8 ? MIR_EXT8 : bits == 16 ? MIR_EXT16 : MIR_EXT32)
                                    : (bits == 8 ? MIR_UEXT8 : bits == 16 ? MIR_UEXT16 : MIR_UEXT32);
    MIR_append_insn (ectx, efunc, MIR_new_insn (ectx, c, ro, MIR_new_reg_op (ectx, a)));
  } else if (t[0] == '<' || t[0] == '>' || t[0] == ']') {
    MIR_reg_t a = comp_expr ();
    char *k = next_tok ();
    MIR_insn_code_t c = t[0] == '<' ? MIR_LSH : t[0] == '>' ? MIR_URSH : MIR_RSH;
    MIR_append_insn (ectx, efunc,
                     MIR_new_insn (ectx, c, ro, MIR_new_reg_op (ectx, a), MIR_new_int_op (ectx, k ? atoi (k) : 0)));
  } else {
    MIR_append_insn (ectx, efunc, MIR_new_insn (ectx, MIR_MOV, ro, MIR_new_int_op (ectx, 0)));
  }
  return r;
}

static void build_func (MIR_context_t ctx, int idx) {
  struct pitem *p = &items[idx];
  char name[32];
  MIR_type_t rt = p->ty;
  item_name (name, idx);
  MIR_item_t f = MIR_new_func_arr (ctx, name, 1, &rt, 0, NULL);
  p->it = f;
  ectx = ctx;
  efunc = f;
  ereg_no = 0;
  etok = p->expr;
  if (rt == MIR_T_F || rt == MIR_T_D || rt == MIR_T_LD) {
    char *t = next_tok ();
    unsigned __int128 bits = t != NULL && t[0] == 'f' ? parse_hex128 (t + 1) : 0;
    MIR_reg_t r = MIR_new_func_reg (ctx, f->u.func, rt, "fr");
    MIR_op_t c;
    if (rt == MIR_T_F) {
      float v;
      uint32_t b = (uint32_t) bits;
      memcpy (&v, &b, 4);
      c = MIR_new_float_op (ctx, v);
      MIR_append_insn (ctx, f, MIR_new_insn (ctx, MIR_FMOV, MIR_new_reg_op (ctx, r), c));
    } else if (rt == MIR_T_D) {
      double v;
      uint64_t b = (uint64_t) bits;
      memcpy (&v, &b, 8);
      c = MIR_new_double_op (ctx, v);
      MIR_append_insn (ctx, f, MIR_new_insn (ctx, MIR_DMOV, MIR_new_reg_op (ctx, r), c));
    } else {
      long double v = 0;
      memcpy (&v, &bits, 10);
      c = MIR_new_ldouble_op (ctx, v);
      MIR_append_insn (ctx, f, MIR_new_insn (ctx, MIR_LDMOV, MIR_new_reg_op (ctx, r), c));
    }
    MIR_append_insn (ctx, f, MIR_new_ret_insn (ctx, 1, MIR_new_reg_op (ctx, r)));
  } else {
    MIR_reg_t r = comp_expr ();
    MIR_append_insn (ctx, f, MIR_new_ret_insn (ctx, 1, MIR_new_reg_op (ctx, r)));
  }
  MIR_finish_func (ctx);
}

static MIR_label_t glabels[MAXLAB];
/* where control goes from label k: -1 = returns 100+k, gnlab = the final ret 99, else the label reached next */
static int next_of (int k) {
  switch (gbody[k][0]) {
  case 'r': return -1;
  case 'f': case 'n': return k + 1;
  default: return gbody[k][1] - '0';
  }
}
/* Which labels are ONE PLACE.  The address of a label is the address of the code that follows it; labels between
   which no instruction is executed are one place, and every engine is free to give any of them the address of any
   other (mir.c canonicalises references to adjacent labels to the last one -- but laddr operands before and lref items
   after it has deleted no-op jumps --, the generator deletes jumps to the next block and may put alignment padding
   between the labels of one place, the lazy basic-block generator gives every block version a thunk of its own).
   A body is NOTHING (nop_body) when it is empty, or a jump / branch that lands where falling through would land anyway:
   one of the labels its target leads to through unconditional jumps only (threaded) lies behind it with nothing in
   between.  Least fixed point; two labels are one place iff every body between them is nothing.
   A jump to somewhere else IS an instruction: `L1: jmp L2` with L2 elsewhere keeps L1 and L2 apart. */
static int nop_body[MAXLAB];
static void compute_places (void) {
  for (int k = 0; k < gnlab; k++) nop_body[k] = 0;
  for (int changed = 1; changed;) {
    changed = 0;
    for (int k = 0; k < gnlab; k++) {
      int c = gbody[k][0], nop = 0;
      if (nop_body[k]) continue;
      if (c == 'f') {
        nop = 1;
      } else if (c == 'j' || c == 'b') {
        int cur = gbody[k][1] - '0';
        for (int depth = 0; depth <= 2 * MAXLAB && !nop; depth++) {
          int m = cur; /* every label of cur's place is a landing point */
          for (;;) {
            int between = 1;
            for (int q = k + 1; q < m; q++)
              if (!nop_body[q]) between = 0;
            if (m > k && between) nop = 1;
            if (m + 1 < gnlab && nop_body[m])
              m++;
            else
              break;
          }
          if (gbody[m][0] != 'j') break; /* the place's code starts with an unconditional jump: follow it */
          cur = gbody[m][1] - '0';
        }
      }
      if (nop) nop_body[k] = changed = 1;
    }
  }
}
static int same_place (int a, int b) {
  if (a > b) return same_place (b, a);
  for (int q = a; q < b; q++)
    if (!nop_body[q]) return 0;
  return 1;
}
/* the last label of k's place (the one mir.c's canonicalisation names) */
static int place_of (int k) {
  while (k + 1 < gnlab && nop_body[k]) k++;
  return k;
}
/* value g (0, address of L<k>) must return; -1 if the bodies form a cycle (then it is not called) */
static int expected_ret (int k) {
  for (int steps = 0; steps <= gnlab; steps++) {
    if (k >= gnlab) return 99;
    int nx = next_of (k);
    if (nx < 0) return 100 + k;
    k = nx;
  }
  return -1;
}
/* wave 6: a SECOND function with labels in the same module, so that the lref items of two functions can be interleaved
   in module order (link_module_lrefs keeps one list of lrefs per function).  h (sel): sel == k+1: return the address
   of its label HL<k> (laddr), k = 0..1; sel == 3: goto HL1; else HL0: ret 200; HL1: ret 201 */
static MIR_label_t hlabels[2];
static void build_h (MIR_context_t ctx, int idx) {
  char name[32];
  MIR_type_t i64 = MIR_T_I64;
  MIR_var_t args[1] = {{MIR_T_I64, "sel", 0}};
  item_name (name, idx);
  MIR_item_t h = MIR_new_func_arr (ctx, name, 1, &i64, 1, args);
  items[idx].it = h;
  MIR_reg_t sel = MIR_reg (ctx, "sel", h->u.func);
  MIR_reg_t p = MIR_new_func_reg (ctx, h->u.func, MIR_T_I64, "p");
  MIR_label_t a[2] = {MIR_new_label (ctx), MIR_new_label (ctx)};
  for (int k = 0; k < 2; k++)
    MIR_append_insn (ctx, h,
                     MIR_new_insn (ctx, MIR_BEQ, MIR_new_label_op (ctx, a[k]), MIR_new_reg_op (ctx, sel),
                                   MIR_new_int_op (ctx, k + 1)));
  /* both labels are reachable by ordinary control flow (h has no jmpi: a label reached by nothing is removed with
     its block by the generator) */
  MIR_append_insn (ctx, h,
                   MIR_new_insn (ctx, MIR_BEQ, MIR_new_label_op (ctx, hlabels[1]), MIR_new_reg_op (ctx, sel),
                                 MIR_new_int_op (ctx, 3)));
  MIR_append_insn (ctx, h, MIR_new_insn (ctx, MIR_JMP, MIR_new_label_op (ctx, hlabels[0])));
  for (int k = 0; k < 2; k++) {
    MIR_append_insn (ctx, h, a[k]);
    MIR_append_insn (ctx, h,
                     MIR_new_insn (ctx, MIR_LADDR, MIR_new_reg_op (ctx, p), MIR_new_label_op (ctx, hlabels[k])));
    MIR_append_insn (ctx, h, MIR_new_ret_insn (ctx, 1, MIR_new_reg_op (ctx, p)));
  }
  for (int k = 0; k < 2; k++) {
    MIR_append_insn (ctx, h, hlabels[k]);
    MIR_append_insn (ctx, h, MIR_new_ret_insn (ctx, 1, MIR_new_int_op (ctx, 200 + k)));
  }
  MIR_finish_func (ctx);
}

/* g (sel, x): sel == 0: jmpi x;  sel == k+1: return the address of label k (laddr);
   then L0: body0; L1: body1; ...; ret 99 */
static void build_g (MIR_context_t ctx, int idx) {
  char name[32];
  MIR_type_t i64 = MIR_T_I64;
  MIR_var_t args[2] = {{MIR_T_I64, "sel", 0}, {MIR_T_I64, "x", 0}};
  item_name (name, idx);
  MIR_item_t g = MIR_new_func_arr (ctx, name, 1, &i64, 2, args);
  items[idx].it = g;
  MIR_reg_t sel = MIR_reg (ctx, "sel", g->u.func), x = MIR_reg (ctx, "x", g->u.func);
  MIR_reg_t p = MIR_new_func_reg (ctx, g->u.func, MIR_T_I64, "p");
  MIR_label_t jump = MIR_new_label (ctx), a[MAXLAB];
  for (int k = 0; k < gnlab; k++) a[k] = MIR_new_label (ctx);
  MIR_append_insn (ctx, g,
                   MIR_new_insn (ctx, MIR_BEQ, MIR_new_label_op (ctx, jump), MIR_new_reg_op (ctx, sel),
                                 MIR_new_int_op (ctx, 0)));
  for (int k = 0; k < gnlab - 1; k++)
    MIR_append_insn (ctx, g,
                     MIR_new_insn (ctx, MIR_BEQ, MIR_new_label_op (ctx, a[k]), MIR_new_reg_op (ctx, sel),
                                   MIR_new_int_op (ctx, k + 1)));
  for (int k = gnlab - 1; k >= 0; k--) {
    MIR_append_insn (ctx, g, a[k]);
    MIR_append_insn (ctx, g,
                     MIR_new_insn (ctx, MIR_LADDR, MIR_new_reg_op (ctx, p), MIR_new_label_op (ctx, glabels[k])));
    MIR_append_insn (ctx, g, MIR_new_ret_insn (ctx, 1, MIR_new_reg_op (ctx, p)));
  }
  MIR_append_insn (ctx, g, jump);
  MIR_append_insn (ctx, g, MIR_new_insn (ctx, MIR_MOV, MIR_new_reg_op (ctx, p), MIR_new_int_op (ctx, 0)));
  MIR_append_insn (ctx, g, MIR_new_insn (ctx, MIR_JMPI, MIR_new_reg_op (ctx, x)));
  for (int k = 0; k < gnlab; k++) {
    int t = gbody[k][1] - '0';
    MIR_append_insn (ctx, g, glabels[k]);
    switch (gbody[k][0]) {
    case 'r': MIR_append_insn (ctx, g, MIR_new_ret_insn (ctx, 1, MIR_new_int_op (ctx, 100 + k))); break;
    case 'f': break;
    case 'n':
      MIR_append_insn (ctx, g,
                       MIR_new_insn (ctx, MIR_ADD, MIR_new_reg_op (ctx, p), MIR_new_reg_op (ctx, p),
                                     MIR_new_int_op (ctx, k + 1)));
      break;
    case 'j': MIR_append_insn (ctx, g, MIR_new_insn (ctx, MIR_JMP, MIR_new_label_op (ctx, glabels[t]))); break;
    case 'b':
      MIR_append_insn (ctx, g,
                       MIR_new_insn (ctx, MIR_BEQ, MIR_new_label_op (ctx, glabels[t]), MIR_new_reg_op (ctx, sel),
                                     MIR_new_int_op (ctx, 0)));
      break;
    case 'i':
      MIR_append_insn (ctx, g,
                       MIR_new_insn (ctx, MIR_LADDR, MIR_new_reg_op (ctx, p), MIR_new_label_op (ctx, glabels[t])));
      MIR_append_insn (ctx, g, MIR_new_insn (ctx, MIR_JMPI, MIR_new_reg_op (ctx, p)));
      break;
    case 's': {
      MIR_op_t sops[3] = {MIR_new_reg_op (ctx, sel), MIR_new_label_op (ctx, glabels[t]),
                          MIR_new_label_op (ctx, glabels[(t + 1) % gnlab])};
      MIR_append_insn (ctx, g, MIR_new_insn_arr (ctx, MIR_SWITCH, 3, sops));
      break;
    }
    }
  }
  MIR_append_insn (ctx, g, MIR_new_ret_insn (ctx, 1, MIR_new_int_op (ctx, 99)));
  MIR_finish_func (ctx);
}

static void hexdump (const uint8_t *p, long n) {
  for (long i = 0; i < n; i++) printf ("%02x", p[i]);
}

/* `T`: the element sizes mir.c uses (_MIR_type_size), in the order i8 u8 i16 u16 i32 u32 i64 u64 f d ld p */
static void run_sizes (void) {
  static const MIR_type_t ts[] = {MIR_T_I8, MIR_T_U8, MIR_T_I16, MIR_T_U16, MIR_T_I32, MIR_T_U32,
                                  MIR_T_I64, MIR_T_U64, MIR_T_F, MIR_T_D, MIR_T_LD, MIR_T_P};
  MIR_context_t ctx = MIR_init ();
  printf ("sizes");
  for (size_t i = 0; i < sizeof (ts) / sizeof (ts[0]); i++) printf (" %zu", _MIR_type_size (ctx, ts[i]));
  printf ("\n");
  MIR_finish (ctx);
}

static void run_case (char *line) {
  if (line[0] == 'T') {
    run_sizes ();
    return;
  }
  char *colon = strchr (line, ':');
  if (colon == NULL) {
    printf ("badcase\n");
    return;
  }
  char iface = 'i';
  int level = 2;
  {
    char lv = 0;
    if (sscanf (line, " %c%c", &iface, &lv) == 2 && lv >= '0' && lv <= '3') level = lv - '0';
  }
  nitems = 0;
  gnlab = 3;
  for (int k = 0; k < 3; k++) strcpy (gbody[k], "r");
  char *save;
  /* split on ';' first (parse_item uses strtok_r itself) */
  char *parts[MAXITEMS];
  int nparts = 0;
  for (char *s = strtok_r (colon + 1, ";", &save); s != NULL && nparts < MAXITEMS; s = strtok_r (NULL, ";", &save))
    parts[nparts++] = s;
  for (int i = 0; i < nparts; i++) {
    char *s = parts[i];
    while (*s == ' ') s++;
    if (*s == 0) continue;
    if (!parse_item (s, &items[nitems])) {
      printf ("badcase item %d\n", nitems);
      return;
    }
    nitems++;
  }
  nblocks = 0;
  MIR_context_t ctx = MIR_init2 (&h_alloc, NULL);
  volatile int gen_inited = 0;
  MIR_set_error_func (ctx, err_func);
  if (setjmp (err_jmp)) {
    printf ("E:%s\n", err_name (err_code));
    if (setjmp (err_jmp) == 0) MIR_finish_module (ctx); /* in case the module is half built */
    if (setjmp (err_jmp) == 0) { /* best-effort teardown; a complaint about unfinished items is swallowed */
      if (gen_inited) {
        gen_inited = 0;
        MIR_gen_finish (ctx);
      }
      MIR_finish (ctx);
    }
    return;
  }
  int have_g = -1, have_h = -1;
  /* wave 6: an earlier link ROUND.  For every `Oe` item a module exporting a function pre<idx> () = 300 + idx is
     built, loaded and linked with the interface of the case, and the function is called (so that with the generator
     interfaces, lazy ones included, its machine code exists) BEFORE the module under test is created: what MIR_link
     stores for the items of the second round may depend only on the items' addresses (item->addr + disp for a ref),
     not on what earlier rounds have done to the definitions meanwhile */
  {
    int npre = 0;
    for (int i = 0; i < nitems; i++) npre += items[i].k == K_PREIMP;
    if (npre > 0) {
      MIR_type_t i64 = MIR_T_I64;
      MIR_item_t pf[MAXITEMS];
      MIR_module_t pm = MIR_new_module (ctx, "pre");
      for (int i = 0; i < nitems; i++) {
        char name[32];
        if (items[i].k != K_PREIMP) continue;
        item_name (name, i);
        pf[i] = MIR_new_func_arr (ctx, name, 1, &i64, 0, NULL);
        MIR_append_insn (ctx, pf[i], MIR_new_ret_insn (ctx, 1, MIR_new_int_op (ctx, 300 + i)));
        MIR_finish_func (ctx);
        MIR_new_export (ctx, name);
      }
      MIR_finish_module (ctx);
      MIR_load_module (ctx, pm);
      if (iface != 'i') {
        MIR_gen_init (ctx);
        gen_inited = 1;
        MIR_gen_set_optimize_level (ctx, level);
      }
      MIR_link (ctx,
                iface == 'g'   ? MIR_set_gen_interface
                : iface == 'l' ? MIR_set_lazy_gen_interface
                : iface == 'b' ? MIR_set_lazy_bb_gen_interface
                               : MIR_set_interp_interface,
                NULL);
      for (int i = 0; i < nitems; i++)
        if (items[i].k == K_PREIMP && ((int64_t (*) (void)) pf[i]->addr) () != 300 + i) {
          printf ("badcase pre %d\n", i);
          return;
        }
    }
  }
  MIR_module_t m = MIR_new_module (ctx, "m");
  for (int k = 0; k < 2; k++) hlabels[k] = MIR_new_label (ctx);
  for (int k = 0; k < gnlab; k++) glabels[k] = MIR_new_label (ctx);
  MIR_type_t i64 = MIR_T_I64;
  for (int i = 0; i < nitems; i++) {
    struct pitem *p = &items[i];
    char name[32], *nmp = NULL;
    if (p->nm >= 0) {
      sprintf (name, "d%d", p->nm);
      nmp = name;
    }
    switch (p->k) {
    case K_DATA: {
      size_t sz = ty_size (p->ty);
      uint8_t buf[MAXELS * 16];
      for (int e = 0; e < p->nels; e++) memcpy (buf + e * sz, &p->els[e], sz);
      p->it = MIR_new_data (ctx, nmp, p->ty, p->nels, buf);
      break;
    }
    case K_BSS: p->it = MIR_new_bss (ctx, nmp, p->len); break;
    case K_REF:
      if (p->target < 0 || p->target >= i || items[p->target].it == NULL) {
        printf ("badcase ref %d\n", i);
        return;
      }
      p->it = MIR_new_ref_data (ctx, nmp, items[p->target].it, (int64_t) p->disp); break;
    case K_LREF:
      if (p->l1 < 0 || p->l1 >= gnlab || p->l2 >= gnlab) {
        printf ("badcase lref %d\n", i);
        return;
      }
      p->it = MIR_new_lref_data (ctx, nmp, glabels[p->l1], p->l2 < 0 ? NULL : glabels[p->l2], (int64_t) p->disp);
      break;
    case K_MREF:
      if (p->l1 < 0 || p->l1 >= 2 || p->l2 >= 2) {
        printf ("badcase mref %d\n", i);
        return;
      }
      p->it = MIR_new_lref_data (ctx, nmp, hlabels[p->l1], p->l2 < 0 ? NULL : hlabels[p->l2], (int64_t) p->disp);
      break;
    case K_EXPR:
      if (p->fn < 0 || p->fn >= i || items[p->fn].it == NULL) {
        printf ("badcase expr %d\n", i);
        return;
      }
      p->it = MIR_new_expr_data (ctx, nmp, items[p->fn].it); break;
    case K_FUNC: build_func (ctx, i); break;
    case K_G:
      build_g (ctx, i);
      have_g = i;
      break;
    case K_H:
      if (have_h >= 0) {
        printf ("badcase second H\n");
        return;
      }
      build_h (ctx, i);
      have_h = i;
      break;
    case K_IMPORT: item_name (name, i); p->it = MIR_new_import (ctx, name); break;
    case K_PREIMP: item_name (name, i); p->it = MIR_new_import (ctx, name); break;
    case K_PROTO: item_name (name, i); p->it = MIR_new_proto_arr (ctx, name, 1, &i64, 0, NULL); break;
    case K_FORWARD: item_name (name, p->def); p->it = MIR_new_forward (ctx, name); break;
    case K_EXPORT: item_name (name, p->def); p->it = MIR_new_export (ctx, name); break;
    }
  }
  MIR_finish_module (ctx);
  for (int i = 0; i < nitems; i++)
    if (items[i].k == K_IMPORT) {
      char name[32];
      item_name (name, i);
      MIR_load_external (ctx, name, extbuf[i]);
    }
  MIR_load_module (ctx, m);
  if (iface != 'i' && !gen_inited) {
    MIR_gen_init (ctx);
    gen_inited = 1;
    MIR_gen_set_optimize_level (ctx, level);
  }
  MIR_link (ctx,
            iface == 'g'   ? MIR_set_gen_interface
            : iface == 'l' ? MIR_set_lazy_gen_interface
            : iface == 'b' ? MIR_set_lazy_bb_gen_interface
                           : MIR_set_interp_interface,
            NULL);
  /* label machinery first: calling g prepares it, which is when lrefs get their values */
  int jok = 1;
  int64_t ltv[MAXLAB] = {0}, lraw[MAXLAB] = {0};
  compute_places ();
  if (have_g >= 0) {
    int64_t (*g) (int64_t, int64_t) = (int64_t (*) (int64_t, int64_t)) items[have_g].it->addr;
    int64_t raw[MAXLAB];
    for (int k = 0; k < gnlab; k++) raw[k] = g (k + 1, 0);
    for (int k = 0; k < gnlab; k++)
      if (expected_ret (k) >= 0) {
        int64_t got = g (0, raw[k]);
        if (got != expected_ret (k)) jok = 0;
        if (getenv ("C14_DEBUG") != NULL)
          fprintf (stderr, "L%d laddr %llx: jmpi returns %lld, expected %d\n", k, (unsigned long long) raw[k],
                   (long long) got, expected_ret (k));
      }
    /* the address of a label = the address of its place (jumping to what laddr gives for an earlier label of the
       same place was checked just above) */
    for (int k = 0; k < gnlab; k++) ltv[k] = raw[place_of (k)];
    memcpy (lraw, raw, sizeof (raw));
  }
  /* per lref item: the addresses of its labels.  Any label of the same place may stand for a label (see
     compute_places); the pair that explains the stored value is taken, else the canonical one (and LR says bad) */
  static int64_t ka1[MAXITEMS], ka2[MAXITEMS];
  static int kmatch[MAXITEMS];
  if (have_g >= 0)
    for (int i = 0; i < nitems; i++) {
      struct pitem *p = &items[i];
      int64_t v;
      if (p->k != K_LREF) continue;
      memcpy (&v, p->it->addr, 8);
      ka1[i] = ltv[p->l1];
      ka2[i] = p->l2 < 0 ? 0 : ltv[p->l2];
      kmatch[i] = 0;
      for (int j1 = 0; j1 < gnlab && !kmatch[i]; j1++) {
        if (!same_place (j1, p->l1)) continue;
        for (int j2 = 0; j2 < (p->l2 < 0 ? 1 : gnlab) && !kmatch[i]; j2++) {
          if (p->l2 >= 0 && !same_place (j2, p->l2)) continue;
          int64_t a2 = p->l2 < 0 ? 0 : lraw[j2];
          if ((uint64_t) v == (uint64_t) lraw[j1] - (uint64_t) a2 + p->disp) {
            ka1[i] = lraw[j1];
            ka2[i] = a2;
            kmatch[i] = 1;
          }
        }
      }
    }
  /* the lrefs of h: h is prepared (first call) AFTER g was; the addresses of its two labels by laddr */
  if (have_h >= 0) {
    int64_t (*h) (int64_t) = (int64_t (*) (int64_t)) items[have_h].it->addr;
    int64_t hraw[2];
    for (int k = 0; k < 2; k++) hraw[k] = h (k + 1);
    if (h (0) != 200 || h (3) != 201) jok = 0;
    for (int i = 0; i < nitems; i++) {
      struct pitem *p = &items[i];
      if (p->k != K_MREF) continue;
      ka1[i] = hraw[p->l1];
      ka2[i] = p->l2 < 0 ? 0 : hraw[p->l2];
    }
  }
  printf ("ok A");
  for (int i = 0; i < nitems; i++)
    if (items[i].it != NULL && items[i].it->addr != NULL) printf (" %d:%llx", i, (unsigned long long) items[i].it->addr);
  if (have_g >= 0) {
    for (int k = 0; k < gnlab; k++) printf (" L%d:%llx", k, (unsigned long long) ltv[k]);
    for (int k = 0; k < gnlab; k++) printf (" W%d:%llx", k, (unsigned long long) lraw[k]); /* what laddr gave, as is */
    for (int i = 0; i < nitems; i++)
      if (items[i].k == K_LREF) printf (" K%d:%llx:%llx", i, (unsigned long long) ka1[i], (unsigned long long) ka2[i]);
  }
  if (have_h >= 0)
    for (int i = 0; i < nitems; i++)
      if (items[i].k == K_MREF) printf (" K%d:%llx:%llx", i, (unsigned long long) ka1[i], (unsigned long long) ka2[i]);
  printf (" P");
  int head = -1;
  for (int i = 0; i < nitems; i++) {
    struct pitem *p = &items[i];
    if (p->k > K_EXPR) continue;
    /* nearest item at or before i (in module order) with section_head_p */
    int h = -1;
    for (int j = i; j >= 0; j--)
      if (items[j].k <= K_EXPR && items[j].it->section_head_p) {
        h = j;
        break;
      }
    if (h < 0)
      printf (" %d@?", i);
    else
      printf (" %d@%d+%ld", i, h, (long) ((char *) p->it->addr - (char *) items[h].it->addr));
  }
  printf (" S");
  for (int i = 0; i < nitems; i++) {
    struct pitem *p = &items[i];
    if (p->k > K_EXPR || !p->it->section_head_p) continue;
    long sz = block_size (p->it->addr);
    printf (" %d:%ld:", i, sz);
    if (sz > 0) hexdump ((uint8_t *) p->it->addr, sz);
  }
  if (have_g >= 0) {
    printf (" J:%s", jok ? "ok" : "bad");
    printf (" LR");
    for (int i = 0; i < nitems; i++) {
      struct pitem *p = &items[i];
      if (p->k != K_LREF && !(p->k == K_MREF && have_h >= 0)) continue;
      int64_t v, want;
      memcpy (&v, p->it->addr, 8);
      want = (int64_t) ((uint64_t) ka1[i] - (uint64_t) ka2[i] + p->disp);
      if (p->k == K_MREF) { /* value only (the labels of h are entered by calling h) */
        printf (v != want ? " %d:bad(%lld)" : " %d:ok", i, (long long) (v - want));
        continue;
      }
      /* the value is also a working jump target: (value - disp [+ address of l2]) enters the code at l1 */
      int64_t (*g) (int64_t, int64_t) = (int64_t (*) (int64_t, int64_t)) items[have_g].it->addr;
      int64_t target = (int64_t) ((uint64_t) v - p->disp + (uint64_t) ka2[i]);
      if (v != want)
        printf (" %d:bad(%lld)", i, (long long) (v - want));
      else if (expected_ret (p->l1) >= 0 && g (0, target) != expected_ret (p->l1))
        printf (" %d:badjump", i);
      else
        printf (" %d:ok", i);
    }
    /* LA: the model of label addresses (coq/C14/Labels.v: a label emits no code, so adjacent labels -- and a label and
       its last_label -- have one address) against what laddr gave; judged by the model driver from the W tokens for
       the engines that put no alignment padding between labels */
    printf (" LA:ok");
  }
  printf ("\n");
  if (gen_inited) MIR_gen_finish (ctx);
  MIR_finish (ctx);
}

/* Watchdog: every case runs under a CPU-time limit (ITIMER_PROF, C14_HANG_CPU seconds, default 6) and a wall-clock
   limit (alarm, C14_HANG_WALL, default 120).  When one expires - the library or the code it generated loops forever on
   the tree under test - the case's line is closed with the token `HANG@case` and the process exits with code 124: the
   check takes `HANG ...` as the outcome of the case (a disagreement with the model) and restarts the harness after it. */
static int hang_cpu = 6, hang_wall = 120;
static void on_hang (int sig) {
  (void) sig;
  /* not async-signal-safe in general; the loops this is for spin inside MIR / generated code, not inside stdio */
  printf (" HANG@case\n");
  fflush (stdout);
  _exit (124);
}
static void arm_watchdog (void) {
  struct itimerval it;
  memset (&it, 0, sizeof (it));
  it.it_value.tv_sec = hang_cpu;
  setitimer (ITIMER_PROF, &it, NULL);
  alarm (hang_wall);
}

int main (void) {
  static char line[1 << 18];
  if (getenv ("C14_HANG_CPU") != NULL && atoi (getenv ("C14_HANG_CPU")) > 0) hang_cpu = atoi (getenv ("C14_HANG_CPU"));
  if (getenv ("C14_HANG_WALL") != NULL && atoi (getenv ("C14_HANG_WALL")) > 0) hang_wall = atoi (getenv ("C14_HANG_WALL"));
  signal (SIGPROF, on_hang);
  signal (SIGALRM, on_hang);
  while (fgets (line, sizeof (line), stdin) != NULL) {
    size_t l = strlen (line);
    if (l > 0 && line[l - 1] == '\n') line[l - 1] = 0;
    if (line[0] == 0 || line[0] == '#') {
      printf ("\n");
      continue;
    }
    arm_watchdog ();
    run_case (line);
    fflush (stdout);
  }
  return 0;
}
